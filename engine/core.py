#!/usr/bin/env python3
"""Shared machinery of the checks: scratch handling, TLC roles R1/R2/R4, Go build with overlay, R3 runs,
verdict policy (VIOLATION / KNOWN-FINDING / DRIFT / inconclusive) and evidence writing.

Exit codes: 0 = property held on everything explored (known findings printed), 1 = VIOLATION,
2 = inconclusive (build failure, TLC error/timeout, dead driver, vacuous model) - never a verdict.
"""
import glob, hashlib, json, os, random, shutil, subprocess, sys, tempfile, time

HERE = os.path.dirname(os.path.abspath(__file__))
VERIF = os.path.dirname(HERE)
REPO = os.environ.get("VERIF_REPO", "/repo")
SPEC = os.path.join(VERIF, "spec")
HARNESS = os.path.join(VERIF, "harness")
sys.path.insert(0, HERE)
from tlc import run_tlc  # noqa: E402

GOENV = dict(os.environ, GOFLAGS="-mod=mod", GOPROXY="off", GOSUMDB="off", GOTOOLCHAIN="local")


class Inconclusive(Exception):
    pass


def sh(cmd, **kw):
    return subprocess.run(cmd, stdout=subprocess.PIPE, stderr=subprocess.STDOUT, text=True, errors="replace", **kw)


def sha(obj):
    return hashlib.sha1(json.dumps(obj, sort_keys=True, default=str).encode()).hexdigest()


def load_known_findings():
    p = os.path.join(VERIF, "known-findings.jsonl")
    out = []
    if os.path.exists(p):
        for line in open(p):
            line = line.strip()
            if line and not line.startswith("#"):
                out.append(json.loads(line))
    return out


def _nonull(x):
    if x is None:
        return []
    if isinstance(x, dict):
        return {k: _nonull(v) for k, v in x.items()}
    if isinstance(x, list):
        return [_nonull(v) for v in x]
    return x


class Ctx:
    def __init__(self, prop, tier, seed, replay=None, keep=False):
        self.prop, self.tier, self.seed, self.keep = prop, tier, seed, keep
        self.quick = tier == "quick"
        self.t0 = time.time()
        self.scratch = tempfile.mkdtemp(prefix=f"verif-{prop}-")
        self.rng = random.Random(seed)
        self.replay = replay            # dict loaded from a replay file or None
        self.states = 0                 # R1 distinct states (sum over configs)
        self.transitions = 0            # R1 generated states
        self.r1 = []                    # summaries of R1 runs
        self.r2 = []
        self.r4 = []
        self.validated = 0              # real executions accepted by the TLC judge
        self.evaluations = 0
        self.violations = []            # dicts: sig, what, case, obs
        self.drift = 0
        self.samples = []
        self.extra = {}
        self.assumptions = []
        self.nontrivial = set()
        self.log_lines = []
        self.reject_detail = {}         # record index -> text the judge printed after the line number

    # ---------------------------------------------------------------- logging
    def log(self, *a):
        msg = " ".join(str(x) for x in a)
        print(f"[{self.prop} {time.time()-self.t0:6.1f}s] {msg}", flush=True)

    # ---------------------------------------------------------------- files
    def path(self, name):
        return os.path.join(self.scratch, name)

    def write(self, name, text):
        p = self.path(name)
        with open(p, "w") as f:
            f.write(text)
        return p

    def write_ndjson(self, name, records):
        p = self.path(name)
        with open(p, "w") as f:
            for r in records:
                f.write(json.dumps(r, sort_keys=True) + "\n")
        return p

    @staticmethod
    def read_ndjson(p):
        out = []
        with open(p) as f:
            for line in f:
                line = line.strip()
                if line:
                    out.append(_nonull(json.loads(line)))   # (nil Go slices: null means empty)
        return out

    # ---------------------------------------------------------------- TLC
    def _spec_files(self, modules):
        files = []
        for m in modules:
            p = m if os.path.isabs(m) else os.path.join(SPEC, m)
            if not p.endswith(".tla"):
                p += ".tla"
            files.append(p)
        return files

    def cfg(self, name, text):
        return self.write(name, text)

    def r1_check(self, modules, root, cfg_text, *, name=None, workers=16, timeout_s=900, expect_violation=None,
                 coverage=False, extra_files=()):
        """R1: exhaustive design check. Returns the TlcResult. A violated invariant here is a *candidate*
        (the caller decides what to do with it); TLC errors / timeouts are inconclusive."""
        cfgp = self.cfg((name or root) + ".cfg", cfg_text)
        r = run_tlc(self._spec_files(modules) + [cfgp], root, cfgp, workers=workers, timeout_s=timeout_s,
                    coverage=coverage, extra_files=extra_files)
        self.log("R1", name or root, r.summary())
        if r.errors or r.timed_out or r.rc is None:
            raise Inconclusive(f"R1 {name or root}: errors={r.errors[:2]} timeout={r.timed_out}\n{r.stdout[-1500:]}")
        if r.generated == 0 and not (expect_violation and r.violations):
            raise Inconclusive(f"R1 {name or root}: no states\n{r.stdout[-1500:]}")
        self.states += r.distinct
        self.transitions += r.generated
        self.r1.append(dict(config=name or root, generated=r.generated, distinct=r.distinct, depth=r.depth,
                            violated=r.violations, wall_s=round(r.wall_s, 1)))
        if expect_violation is None and r.violations:
            # the code-shaped model of the *current* design admits a bad state: candidate, decided by R3/R4
            self.extra.setdefault("r1_candidates", []).append(dict(config=name or root, violated=r.violations))
        if coverage:
            zero = [k for k, v in r.coverage.items() if v == 0]
            if zero:
                self.extra.setdefault("r1_zero_coverage", []).extend(zero)
        return r

    def r2_generate(self, modules, root, cfg_text, *, name=None, simulate=None, depth=None, timeout_s=900,
                    workers=8, extra_files=()):
        """R2: case generation. Exhaustive (BFS, cases printed from an invariant) or -simulate."""
        cfgp = self.cfg((name or root) + ".cfg", cfg_text)
        r = run_tlc(self._spec_files(modules) + [cfgp], root, cfgp, workers=workers, timeout_s=timeout_s,
                    simulate=simulate, depth=depth, seed=self.seed if simulate else None, extra_files=extra_files)
        self.log("R2", name or root, r.summary())
        if r.errors or r.timed_out or r.violations:
            raise Inconclusive(f"R2 {name or root}: errors={r.errors[:2]} viol={r.violations} timeout={r.timed_out}\n{r.stdout[-1500:]}")
        if not r.cases:
            raise Inconclusive(f"R2 {name or root}: no cases generated\n{r.stdout[-1500:]}")
        self.r2.append(dict(config=name or root, cases=len(r.cases), generated=r.generated, distinct=r.distinct,
                            simulate=simulate, wall_s=round(r.wall_s, 1)))
        if not simulate:
            self.states += r.distinct
            self.transitions += r.generated
        return r.cases

    def r4_judge(self, modules, root, obs_records, *, cfg_text=None, name=None, timeout_s=1200, chunk=20000,
                 dfs=False, extra_files=(), constants=""):
        """R4: TLC judges recorded observations. The Trace module reads "obs.ndjson", consumes every line
        (variable l) and prints `@@REJECT@@ <line>` for lines the specification does not allow.
        Returns the sorted list of rejected 0-based record indexes. Engine errors are inconclusive."""
        if cfg_text is None:
            cfg_text = "SPECIFICATION Spec\nCONSTRAINT HW\nPOSTCONDITION Done\nCHECK_DEADLOCK FALSE\n" + constants
        rejected = []
        total = len(obs_records)
        if total == 0:
            raise Inconclusive(f"R4 {name or root}: nothing recorded")
        for base in range(0, total, chunk):
            part = obs_records[base:base + chunk]
            d = tempfile.mkdtemp(prefix="obs-", dir=self.scratch)
            obs = os.path.join(d, "obs.ndjson")
            with open(obs, "w") as f:
                for rec in part:
                    # (a nil Go slice arrives as JSON null, which the Json module cannot deserialize: it means "empty")
                    f.write(json.dumps(_nonull(rec), sort_keys=True) + "\n")
            cfgp = os.path.join(d, (name or root) + ".cfg")
            open(cfgp, "w").write(cfg_text)
            r = run_tlc(self._spec_files(modules) + [cfgp], root, cfgp, workers=1, timeout_s=timeout_s, dfs=dfs,
                        extra_files=[obs] + list(extra_files))
            shutil.rmtree(d, ignore_errors=True)
            rej = []
            for line in r.stdout.splitlines():
                if "@@REJECT@@" in line:
                    try:
                        rest = line.strip().strip('"').split("@@REJECT@@")[1].split()
                        rej.append(int(rest[0]) - 1)
                        self.reject_detail[base + int(rest[0]) - 1] = " ".join(rest[1:])
                    except Exception:
                        raise Inconclusive(f"R4 unparsable reject line: {line}")
            consumed = None
            for line in r.stdout.splitlines():
                if "@@CONSUMED@@" in line:
                    consumed = int(line.strip().strip('"').split("@@CONSUMED@@")[1].split()[0])
            self.log("R4", name or root, dict(records=len(part), rejected=len(rej), consumed=consumed, wall_s=round(r.wall_s, 1)))
            if r.errors or r.timed_out or [v for v in r.violations if not v.startswith("postcondition")] or consumed != len(part):
                raise Inconclusive(f"R4 {name or root}: judge did not consume the whole record file: errors={r.errors[:3]} "
                                   f"viol={r.violations} consumed={consumed}/{len(part)}\n{r.stdout[-2500:]}")
            rejected += [base + i for i in sorted(set(rej))]
            self.r4.append(dict(judge=name or root, records=len(part), rejected=len(set(rej)), wall_s=round(r.wall_s, 1)))
        self.validated += total - len(rejected)
        return rejected

    # ---------------------------------------------------------------- Go
    def overlay(self, main_files=(), pkg_files=None, replace=None, helper_pkgs=("fixture", "vt")):
        """Build an overlay json: harness/main/<f> -> /repo/zz_verif_<f>; harness/pkg/<dir>/<f> ->
        /repo/<dir>/zz_verif_<f>; harness/zzverif/<pkg>/* -> /repo/zzverif/<pkg>/*; replace: {repo-relative: abs}."""
        rep = {}
        for hp in helper_pkgs:
            for f in glob.glob(os.path.join(HARNESS, "zzverif", hp, "*.go")):
                rep[os.path.join(REPO, "zzverif", hp, os.path.basename(f))] = f
        for f in main_files:
            rep[os.path.join(REPO, "zz_verif_" + f)] = os.path.join(HARNESS, "main", f)
        for d, files in (pkg_files or {}).items():
            for f in files:
                rep[os.path.join(REPO, d, "zz_verif_" + f)] = os.path.join(HARNESS, "pkg", d, f)
        for k, v in (replace or {}).items():
            rep[os.path.join(REPO, k)] = v
        p = self.path(f"overlay-{len(os.listdir(self.scratch))}.json")
        json.dump({"Replace": rep}, open(p, "w"), indent=1)
        return p

    def go_build(self, pkg, overlay, *, tags="verif", race=False, name=None):
        binp = self.path((name or pkg.strip("./").replace("/", "_") or "main") + ".test")
        cmd = ["go", "test", "-c", "-vet=off", "-tags", tags, "-overlay", overlay, "-o", binp]
        if race:
            cmd.append("-race")
        cmd.append(pkg)
        t = time.time()
        b = sh(cmd, cwd=REPO, env=GOENV)
        self.log("build", pkg, f"rc={b.returncode} {time.time()-t:.1f}s")
        if b.returncode != 0 or not os.path.exists(binp):
            raise Inconclusive("harness build failed (the repository or the harness does not compile):\n" + b.stdout[-3000:])
        return binp

    def go_run(self, binp, run, *, env=None, timeout_s=1800, cwd=None, cases=None, out="obs.ndjson", must_write=True, death_ok=False):
        """R3: run one injected test function of a test binary; returns the recorded observations.
        death_ok: a driver that exits non-zero is not an engine failure; what it recorded is returned and the output is kept in
        self.last_death (for phases where the death of the process is itself an observation of the code under test)."""
        self.last_death = None
        outp = self.path(out)
        if os.path.exists(outp):
            os.remove(outp)
        e = dict(GOENV, VERIF_OUT=outp, VERIF_SEED=str(self.seed), VERIF_TIER=self.tier, VERIF_SCRATCH=self.scratch)
        if cases is not None:
            e["VERIF_CASES"] = cases
        e.update(env or {})
        t = time.time()
        try:
            p = sh([binp, "-test.run", run, "-test.v", "-test.timeout", f"{timeout_s}s"], cwd=cwd or REPO, env=e,
                   timeout=timeout_s + 60)
        except subprocess.TimeoutExpired:
            raise Inconclusive(f"R3 driver {run} timed out after {timeout_s}s")
        tail = "\n".join(p.stdout.splitlines()[-25:])
        self.log("R3", run, f"rc={p.returncode} {time.time()-t:.1f}s")
        self.last_stdout = p.stdout
        if p.returncode != 0:
            if death_ok:
                self.last_death = p.stdout
                return self.read_ndjson(outp) if os.path.exists(outp) else []
            raise Inconclusive(f"R3 driver {run} died (rc={p.returncode}):\n{tail}")
        if must_write and not os.path.exists(outp):
            raise Inconclusive(f"R3 driver {run} wrote no observations:\n{tail}")
        return self.read_ndjson(outp) if os.path.exists(outp) else []

    def rewrite(self, src_rel, rules, out_name):
        """go/ast rewrite of a copy of a repository file (literal shrinking / field retyping). Returns
        (path or None, hits) - None when some rule found no site (caller falls back to the original)."""
        tool = os.path.join(HARNESS, "rewrite", "rewrite")
        if not os.path.exists(tool):
            b = sh(["go", "build", "-o", "rewrite", "."], cwd=os.path.join(HARNESS, "rewrite"), env=dict(GOENV, GOFLAGS=""))
            if b.returncode != 0:
                raise Inconclusive("cannot build rewrite tool: " + b.stdout[-1000:])
        rp = self.write(out_name + ".rules.json", json.dumps(rules))
        outp = self.path(out_name)
        r = sh([tool, "-in", os.path.join(REPO, src_rel), "-out", outp, "-rules", rp])
        hits = [int(l.rsplit(":", 1)[1].split()[0]) for l in r.stdout.splitlines() if l.startswith("rule ")]
        if r.returncode != 0:
            return None, hits
        return outp, hits

    # ---------------------------------------------------------------- verdicts
    def count(self, case_key, nontrivial):
        self.evaluations += 1
        if nontrivial:
            self.nontrivial.add(case_key if isinstance(case_key, str) else sha(case_key))

    def violation(self, sig, what, case=None, obs=None):
        self.violations.append(dict(sig=sig, what=what, case=case, obs=obs))

    def apalache_inductive(self, module, *, cinit, ind_init="IndInit", inv="IndInv", init="Init", timeout_s=600, name=None):
        """Unbounded safety of a small typed module with Apalache: Init => Inv (length 0) and Inv /\\ Next => Inv' (length 1).
        A counterexample is a model-level failure (inconclusive, like a failed R1); a tool problem is recorded and skipped."""
        import subprocess, tempfile, shutil, os, time
        d = tempfile.mkdtemp(prefix="apalache-", dir=self.scratch)
        shutil.copy(os.path.join(SPEC, module + ".tla"), d)
        res = {}
        for label, i, ln in (("base", init, 0), ("step", ind_init, 1)):
            t0 = time.time()
            try:
                p = subprocess.run(["apalache-mc", "check", f"--cinit={cinit}", f"--init={i}", f"--inv={inv}", f"--length={ln}", module + ".tla"],
                                   cwd=d, stdout=subprocess.PIPE, stderr=subprocess.STDOUT, text=True, timeout=timeout_s)
                out = p.stdout
            except (subprocess.TimeoutExpired, FileNotFoundError) as e:
                res[label] = f"not run: {type(e).__name__}"
                continue
            if "EXITCODE: OK" in out and "The outcome is: NoError" in out:
                res[label] = f"NoError ({time.time() - t0:.0f} s)"
            elif "The outcome is: Error" in out:
                shutil.rmtree(d, ignore_errors=True)
                raise Inconclusive(f"Apalache {name or module}: {inv} is not inductive ({label} case)\n{out[-800:]}")
            else:
                res[label] = "tool error: " + out.strip().splitlines()[-1][:200] if out.strip() else "tool error"
        shutil.rmtree(d, ignore_errors=True)
        self.log("R1", (name or module) + " (apalache)", res)
        self.extra.setdefault("apalache_inductive", {})[name or module] = res
        return res

    def growth(self, fn, *args):
        """Run a phase that goes beyond the property's own replay (attached models). If it cannot reach a conclusion while the
        property's replay has already produced violations on real-code behaviour, those stand: the phase's failure is recorded,
        not raised (a broken tree often breaks the set-up of the extra phase as well)."""
        try:
            return fn(self, *args)
        except Inconclusive as e:
            if not self.violations:
                raise
            self.extra.setdefault("growth_phase_inconclusive", []).append(str(e)[:400])

    def finish(self, level, rule, *, exhaustive=False, level_ok=True):
        kf = [k for k in load_known_findings() if k.get("property") == self.prop and k.get("status") == "open"]
        fresh, known = [], {}
        for v in self.violations:
            hit = None
            for k in kf:
                if all(v["sig"].get(a) == b for a, b in k["match"].items()):
                    hit = k
                    break
            if hit:
                known.setdefault(hit["id"], [hit, 0])[1] += 1
            else:
                fresh.append(v)
        for kid, (k, n) in known.items():
            print(f"KNOWN-FINDING: property={self.prop} {k['what']} [{kid}; {n} observation(s) this run]")
        cov = dict(states=self.states, transitions=self.transitions, traces_validated_against_impl=self.validated,
                   samples=self.samples[:4] or [{"note": "no sample recorded"}], evaluations=self.evaluations,
                   distinct_nontrivial=len(self.nontrivial), rule=rule, exhaustive=exhaustive,
                   drift=self.drift, r1=self.r1, r2=self.r2, r4=self.r4,
                   known_findings_observed={k: n for k, (_, n) in known.items()})
        cov.update(self.extra)
        ev = dict(property_id=self.prop, tier=self.tier, seed=self.seed, level=level, coverage=cov,
                  assumptions=self.assumptions, wall_s=round(time.time() - self.t0, 2), violations=len(fresh))
        # (seeded-change experiments against a scratch worktree - VERIF_REPO - redirect their outputs with VERIF_OUT_DIR
        # so that the evidence of the real tree is not overwritten)
        outdir = os.environ.get("VERIF_OUT_DIR", VERIF)
        os.makedirs(os.path.join(outdir, "evidence"), exist_ok=True)
        if not self.replay:
            json.dump(ev, open(os.path.join(outdir, "evidence", f"{self.prop}.json"), "w"), indent=1, default=str)
        if fresh:
            os.makedirs(os.path.join(outdir, "replay"), exist_ok=True)
            seen = set()
            for v in fresh:
                key = sha(v["sig"])
                if key in seen:
                    continue
                seen.add(key)
                rp = os.path.join(outdir, "replay", f"{self.prop}-{self.seed}-{key[:8]}.json")
                json.dump(dict(property=self.prop, tier=self.tier, seed=self.seed, sig=v["sig"], what=v["what"],
                               case=v["case"], observation=v["obs"]), open(rp, "w"), indent=1, default=str)
                print(f"VIOLATION property={self.prop} replay={rp}")
                print(f"  what: {v['what']}")
            print(f"FAIL {self.prop}: {len(fresh)} violating observation(s), {len(seen)} distinct signature(s)")
            return 1
        print(f"OK {self.prop} tier={self.tier} seed={self.seed} states={self.states} validated={self.validated} "
              f"evaluations={self.evaluations} nontrivial={len(self.nontrivial)} drift={self.drift} wall={ev['wall_s']}s")
        return 0

    def cleanup(self):
        if not self.keep:
            shutil.rmtree(self.scratch, ignore_errors=True)
