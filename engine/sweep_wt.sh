#!/bin/bash
# usage: engine/sweep_wt.sh [tier] [lanes] [name-glob]  - every stored seeded change against the check(s) of its property, each in
# its own scratch worktree of /repo's HEAD (engine/try_mutant_wt.sh), several at a time; the outcome is recorded in
# seeded/<name>/meta.json (detected_by). /repo itself is not touched.
TIER=${1:-quick}; LANES=${2:-4}; GLOB=${3:-*}
cd /verif
names=$(ls -d seeded/$GLOB/ | xargs -n1 basename)
one() {
  n=$1; out=$(timeout 3000 engine/try_mutant_wt.sh $n $TIER 2>&1)
  echo "$out" | grep "^$n \["
  python3 - "$n" "$TIER" "$out" <<'PY'
import json,sys,re
n,tier,out=sys.argv[1:]
p=f"/verif/seeded/{n}/meta.json"; m=json.load(open(p))
db=[]
lines=out.splitlines()
for i,l in enumerate(lines):
    mm=re.match(r"^%s \[(C\d\d)\]: (.*)$" % re.escape(n), l)
    if mm:
        first=lines[i+1].strip() if i+1 < len(lines) and lines[i+1].strip().startswith("what:") else ""
        db.append({"check":f"python3 engine/check.py {mm.group(1)} --tier {tier}","verdict":mm.group(2).strip(),"first_violation":first[:300]})
if db:
    m["detected_by"]=db[0] if len(db)==1 else db
    json.dump(m,open(p,"w"),indent=1)
PY
}
export -f one; export TIER
echo "$names" | xargs -P $LANES -I{} bash -c 'one {}'
