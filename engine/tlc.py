#!/usr/bin/env python3
"""TLC runner used by the checks (scratch prototype).

run_tlc() copies the spec files into a private scratch directory (TLC litters states/, *.bin, TTrace
files), runs TLC under a hard timeout with a private -metadir, and parses what the engine needs:
state counts, violated invariants / properties, per-action coverage, and the JSON cases printed by
`PrintT("@@CASE@@ " \\o ToJson(..))`.
"""
import json, os, re, shutil, subprocess, tempfile, time

CASE_PREFIX = "@@CASE@@ "

class TlcResult:
    def __init__(self):
        self.rc = None; self.wall_s = 0.0; self.timed_out = False
        self.generated = 0; self.distinct = 0; self.depth = 0
        self.violations = []      # names of violated invariants / properties / "deadlock" / "postcondition"
        self.errors = []          # other TLC errors (parse, evaluation, fingerprint ...)
        self.cases = []           # parsed @@CASE@@ records
        self.coverage = {}        # action name -> count (when -coverage is on)
        self.stdout = ""
    @property
    def ok(self):
        return (not self.timed_out) and not self.violations and not self.errors and self.rc == 0
    def summary(self):
        return dict(rc=self.rc, wall_s=round(self.wall_s, 2), timed_out=self.timed_out, generated=self.generated,
                    distinct=self.distinct, depth=self.depth, violations=self.violations, errors=self.errors[:3],
                    cases=len(self.cases))

_re_states = re.compile(r"^(\d+) states generated, (\d+) distinct states found", re.M)
_re_depth = re.compile(r"depth of the complete state graph search is (\d+)")
_re_inv = re.compile(r"Error: Invariant (\S+) is violated")
_re_prop = re.compile(r"Error: (?:Temporal properties were violated|Action property (\S+) is violated)")
_re_tprop = re.compile(r"Error: Temporal property (\S+) was violated")
_re_post = re.compile(r"Error: Postcondition (\S+)")
_re_cov = re.compile(r"^<(\w+) line \d+, col \d+ to line \d+, col \d+ of module \w+>: (\d+):(\d+)", re.M)

def run_tlc(spec_files, module, cfg, *, workers=8, timeout_s=600, simulate=None, seed=None, depth=None,
            coverage=False, extra_files=(), dfs=False, keep=False):
    """spec_files: list of paths copied next to each other; module: root module name (without .tla);
    cfg: config file name (must be among spec_files); simulate: number of behaviours or None."""
    scratch = tempfile.mkdtemp(prefix="verif-tlc-")
    res = TlcResult()
    try:
        for f in list(spec_files) + list(extra_files):
            shutil.copy(f, scratch)
        cmd = ["tlc", "-metadir", os.path.join(scratch, "meta"), "-workers", str(1 if simulate else workers),
               "-config", os.path.basename(cfg)]
        if simulate:
            cmd += ["-simulate", f"num={simulate}"]
            if depth: cmd += ["-depth", str(depth)]
            if seed is not None: cmd += ["-seed", str(seed)]
        if coverage: cmd += ["-coverage", "1"]
        cmd += [module + ".tla"]
        env = dict(os.environ)
        # deep recursive operators (eytzinger layout, offset sums) need a larger Java thread stack
        env["JAVA_TOOL_OPTIONS"] = (env.get("JAVA_TOOL_OPTIONS", "") + " -Xss512m").strip()
        if dfs:
            env["JAVA_TOOL_OPTIONS"] = (env.get("JAVA_TOOL_OPTIONS", "") + " -Dtlc2.tool.queue.IStateQueue=StateDeque").strip()
        t0 = time.time()
        try:
            p = subprocess.run(cmd, cwd=scratch, env=env, stdout=subprocess.PIPE, stderr=subprocess.STDOUT,
                               timeout=timeout_s, text=True, errors="replace")
            res.rc, res.stdout = p.returncode, p.stdout
        except subprocess.TimeoutExpired as e:
            res.timed_out = True
            res.stdout = (e.stdout or b"").decode("utf8", "replace") if isinstance(e.stdout, bytes) else (e.stdout or "")
            subprocess.run(["pkill", "-f", scratch], check=False)
        res.wall_s = time.time() - t0
        out = res.stdout
        m = _re_states.findall(out)
        if m:
            res.generated, res.distinct = int(m[-1][0]), int(m[-1][1])
        m = _re_depth.search(out)
        if m: res.depth = int(m.group(1))
        res.violations += _re_inv.findall(out)
        for m in _re_prop.finditer(out): res.violations.append(m.group(1) or "temporal")
        res.violations += _re_tprop.findall(out)
        res.violations += ["postcondition:" + x for x in _re_post.findall(out)]
        if "Deadlock reached" in out: res.violations.append("deadlock")
        for line in out.splitlines():
            if line.startswith("Error:") and not any(k in line for k in ("is violated", "was violated", "were violated", "constitutes a counter-example", "Postcondition", "behavior up to this point", "Deadlock reached")):
                res.errors.append(line.strip())
            if CASE_PREFIX in line and line.startswith('"'):
                try:
                    inner = json.loads(line.strip())
                    res.cases.append(json.loads(inner[len(CASE_PREFIX):]))
                except Exception as ex:  # a malformed case line is an engine error, not a verdict
                    res.errors.append(f"unparsable case line: {ex}")
        for name, a, b in _re_cov.findall(out):
            res.coverage[name] = res.coverage.get(name, 0) + int(a)
        return res
    finally:
        if not keep:
            shutil.rmtree(scratch, ignore_errors=True)

if __name__ == "__main__":
    import sys
    d = "/root/scratch/specs"
    r = run_tlc([f"{d}/GsfaWriter.tla", f"{d}/MC_GsfaWriter.tla", f"{d}/MC_fixed.cfg"], "MC_GsfaWriter", f"{d}/MC_fixed.cfg", workers=8, timeout_s=120)
    print("R1 fixed :", r.summary())
    r = run_tlc([f"{d}/GsfaWriter.tla", f"{d}/MC_GsfaWriter.tla", f"{d}/MC_pinned.cfg"], "MC_GsfaWriter", f"{d}/MC_pinned.cfg", workers=8, timeout_s=120)
    print("R1 pinned:", r.summary())
    r = run_tlc([f"{d}/GsfaWriter.tla", f"{d}/Sim2_GsfaWriter.tla", f"{d}/Sim2.cfg"], "Sim2_GsfaWriter", f"{d}/Sim2.cfg", simulate=50, depth=120, seed=3, timeout_s=120)
    print("R2 gen   :", r.summary(), "first case keys:", list(r.cases[0].keys()) if r.cases else None)
    r = run_tlc([f"{d}/Trace_Paging.tla", f"{d}/Trace_Paging.cfg"], "Trace_Paging", f"{d}/Trace_Paging.cfg", workers=1, timeout_s=120, extra_files=[f"{d}/paging.ndjson"])
    print("R4 judge :", r.summary())
