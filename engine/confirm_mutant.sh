#!/bin/bash
# usage: engine/confirm_mutant.sh <name> <property> <patch.diff> <demo_test.go> <pkg dir relative to repo> <-run regex> "<needs>"
# Confirms a seeded change in a scratch worktree (outside /repo and /verif): it applies, the repository builds,
# the existing suite passes with it, the demonstration fails with it and passes without it.
# On success stores /verif/seeded/<name>/{patch.diff,<demo>,meta.json}. The worktree is removed afterwards.
set -u
NAME=$1; PROP=$2; PATCH=$3; DEMO=$4; PKG=$5; RUN=$6; NEEDS=$7
export GOFLAGS=-mod=mod GOPROXY=off GOSUMDB=off GOTOOLCHAIN=local
WT=$(mktemp -d /tmp/confirm-$NAME.XXXX); rmdir $WT
git -C /repo worktree add --detach $WT HEAD >/dev/null 2>&1 || { echo "$NAME: worktree failed"; exit 2; }
LOG=/tmp/confirm-$NAME.log; : > $LOG
res() { echo "$NAME: $*"; }
cleanup() { git -C /repo worktree remove --force $WT >/dev/null 2>&1; }
cd $WT
BASE=$(git rev-parse --short HEAD)
git apply "$PATCH" >>$LOG 2>&1 || { res "patch does not apply on $BASE"; cleanup; exit 1; }
go build ./... >>$LOG 2>&1 || { res "does not build"; cleanup; exit 1; }
go test -vet=off -count=1 ./... >>$LOG 2>&1; SUITE=$?
[ $SUITE -eq 0 ] || { res "existing suite FAILS with the change"; cleanup; exit 1; }
DN=zz_seeded_demo_test.go
cp "$DEMO" $PKG/$DN
go test -vet=off -count=1 -run "$RUN" ./$PKG >>$LOG 2>&1; WITH=$?
git apply -R "$PATCH"
go test -vet=off -count=1 -run "$RUN" ./$PKG >>$LOG 2>&1; WITHOUT=$?
if [ $WITH -ne 0 ] && [ $WITHOUT -eq 0 ]; then
  D=/verif/seeded/$NAME; mkdir -p $D
  cp "$PATCH" $D/patch.diff; cp "$DEMO" $D/$(basename "$DEMO")
  python3 - "$D" "$PROP" "$NEEDS" "$PKG" "$RUN" "$BASE" "$(basename "$DEMO")" <<'PY'
import json,sys
d,prop,needs,pkg,run,base,demo=sys.argv[1:]
json.dump({"property":prop,"needs_to_manifest":needs,"base_commit":base,"demo":{"file":demo,"copy_into":pkg,"run":f"go test -vet=off -count=1 -run '{run}' ./{pkg}"},
 "confirmed":{"applies":True,"go build ./...":"ok","existing suite with change":"pass","demo with change":"FAIL","demo without change":"pass",
 "how":"engine/confirm_mutant.sh in a scratch worktree of /repo HEAD"}},open(d+"/meta.json","w"),indent=1)
PY
  res "CONFIRMED (suite ok, demo fails with / passes without)"
else
  res "NOT confirmed: demo with change rc=$WITH, without rc=$WITHOUT (see $LOG)"
fi
cleanup
