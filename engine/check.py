#!/usr/bin/env python3
"""Driver of the per-property checks.

usage: engine/check.py <Cxx> [--tier quick|thorough] [--replay <file>] [--keep]
env:   VERIF_SEED (default 1), VERIF_TIER (overridden by --tier)

exit 0: the property held on everything explored (known findings are printed as KNOWN-FINDING lines)
exit 1: `VIOLATION property=<id> replay=<path>` - a real execution of the code contradicts the property
exit 2: inconclusive (harness/TLC failure) - never a verdict
"""
import argparse, importlib, json, os, sys, traceback
sys.path.insert(0, os.path.dirname(os.path.abspath(__file__)))
import core


def main():
    ap = argparse.ArgumentParser()
    ap.add_argument("prop")
    ap.add_argument("--tier", default=os.environ.get("VERIF_TIER", "quick"), choices=["quick", "thorough"])
    ap.add_argument("--replay")
    ap.add_argument("--keep", action="store_true")
    a = ap.parse_args()
    try:
        seed = int(os.environ.get("VERIF_SEED", "1"))
    except ValueError:
        seed = 1
    replay = json.load(open(a.replay)) if a.replay else None
    mod = importlib.import_module("props." + a.prop.lower())
    ctx = core.Ctx(a.prop, a.tier, seed, replay=replay, keep=a.keep)
    try:
        rc = mod.run(ctx)
    except core.Inconclusive as e:
        print(f"INCONCLUSIVE {a.prop}: {e}")
        rc = 2
    except Exception:
        traceback.print_exc()
        print(f"INCONCLUSIVE {a.prop}: engine error")
        rc = 2
    finally:
        ctx.cleanup()
    sys.exit(rc)


if __name__ == "__main__":
    main()
