#!/usr/bin/env python3
"""Generates /verif/MANIFEST.json from the table below (one source of truth for the registered checks)."""
import json, os, subprocess
VERIF = os.path.dirname(os.path.dirname(os.path.abspath(__file__)))

# id -> (category, technique, text, note, design_ref, engine)
CHECKS = {
 "C01": ("model_checking",
         "TLC exhaustive check of code-shaped CarIndex.tla; TLC-simulated archives (Gen_Ledger.tla) built as real CARs and indexed by the real `index all`; TLC trace judge (Trace_CarIndex.tla) over every lookup",
         "The build loop and serving read are model-checked for every layout of <= 3 (quick) / 4 (thorough) sections over 7 kinds x 3 varint-width classes x 2 header sizes; TLC-generated archives (any shape of blocks / entries / transactions / rewards / frame chains, epochs 0..700) plus directed CARs (section bodies exactly at 127..129 and 16383..16512, 16 800 first signatures concentrated in two adjacent prefixes; thorough: 9 999 / 10 001 / 20 001 items) are written with the reference encoder, indexed by the real command in a child process and queried through the real Epoch with the CAR served from the local file and over loopback HTTP; TLC judges every fetch / slot / signature answer against the builder's ground truth.",
         "Only well-formed CARs; an index run that reports an error is counted as inconclusive for that CAR, not as a violation; archives are sampled by TLC -simulate.",
         "DESIGN.md section 7, C01", "carindex"),
 "C02": ("model_checking",
         "TLC exhaustive check of code-shaped Rpc.tla (routing, lossy index + key check, errgroup fetch orders, assembly) ; TLC-simulated multi-epoch archives served by the real handlers; TLC trace judge (Trace_Rpc.tla / RpcAbs.tla)",
         "The handler model is checked for every request over a 3-epoch model archive x 6 loaded sets x every completion order of the parallel fetches; TLC-generated archives (incl. epoch 0 with genesis, multi-frame payloads, skipped slots, parents in other epochs) are built, indexed and loaded in every non-empty combination, and every archived slot and signature is requested over JSON-RPC (4 encodings) and gRPC with search concurrency -1/1/2/NumCPU; TLC judges every projected response against the archive.",
         "Well-formed archives (>= 1 entry per block; parent_slot = 0 only at slots 0/1; epoch 0 contains slot 0); slot 0 exempt from block-time / height (genesis values); JSON metadata compared on err / fee / loaded addresses, everything else byte for byte.",
         "DESIGN.md section 7, C02", "rpc"),
 "C03": ("model_checking",
         "TLC check of Rpc.tla with a lossy index (absent key aliases any stored key) incl. negative configuration; absent and hash-aliasing keys (found with the index's own hash) requested from the real server; TLC trace judge (Trace_Rpc.tla)",
         "The model shows that with the slot / signature comparison no absent key is answered with another object for any alias relation (and that without it TLC finds the wrong-object reply); on the real server every skipped slot, keys of unloaded epochs, random signatures and absent slots / signatures whose 24-bit in-bucket hash equals a stored one are requested with 1..3 epochs loaded over JSON-RPC and gRPC; TLC judges that each answer is not-found / unavailable.",
         "sig-exists (64-bit) treated as exact; aliasing addresses are searched on an epoch with 4 000 distinct addresses (the pubkey index has 100 buckets).",
         "DESIGN.md section 7, C03", "rpc"),
 "C08": ("model_checking",
         "TLC enumeration of the request grammar (RpcGrammar.tla / GrpcGrammar.tla: cross product of finite dimensions, totality of the decision table); every class sent to the real handler / gRPC methods in a child process; TLC trace judge (Trace_RpcGrammar.tla)",
         "6 150 JSON-RPC / HTTP request classes (method, path, body kind, method name, params shape, first argument of every JSON type incl. huge / negative / fractional numbers and bad base58, options object shapes, id shapes) and 45 792 gRPC message classes (five RPCs and the bidirectional Get stream, every optional field absent / present, malformed and empty account strings, short / long signatures, end < start, index on / off) x {0,1,2} loaded epochs are enumerated by TLC; quick sends all JSON-RPC classes, all non-StreamTransactions gRPC classes and 8 000 sampled StreamTransactions classes (thorough: all) to the real code; a panic, a process death (panic in a spawned goroutine), a hang or an unanswered canary request is a violation.",
         "Structured request shapes only: coverage-guided byte mutation is outside this technique; requests go through an in-memory fasthttp context / direct method calls.",
         "DESIGN.md section 7, C08", "rpcgrammar"),
 "C09": ("model_checking",
         "lock programs recorded from the current code; TLC exhaustive check of EpochSet.tla (Go RWMutex semantics x recorded programs); every model deadlock forced on the real MultiEpoch through mutex gates; stress run; TLC trace judge (Trace_EpochSet.tla)",
         "The per-goroutine sequences of RLock / RUnlock / Lock / Unlock of 25 operations (all JSON-RPC and gRPC methods, REST api, listings, reload operations) are recorded from the current tree; TLC explores every multiset of 3 recorded programs with a writer under every interleaving with writer-preferring RWMutex semantics (exclusion, balance) and reports every deadlock state with its schedule; each schedule is forced on the real goroutines (a hang with all participants blocked in sync.RWMutex is the violation); a seeded stress run checks that answers for stable epochs equal the idle answers and that listings are sorted, duplicate-free and complete.",
         "Only paths the recorder executes contribute programs (unreached lock users are listed in the evidence); repeated balanced segments are collapsed; spawned worker goroutines run ungated in replays; the stress run is free-running.",
         "DESIGN.md section 7, C09", "epochset"),
 "C10": ("model_checking",
         "TLC exhaustive check of code-shaped EpochLoad.tla (chain of kind / epoch / root checks) which also enumerates every configuration as a replay case; real NewEpochFromConfig over fixture files; TLC trace judge (Trace_EpochLoad.tla)",
         "Every assignment of index files with <= 2 deviating roles (own file of another epoch / another CAR / wrong --epoch with the same root / another role's file) x config epoch x own-or-foreign CAR (32 296 configurations) is checked on the model (sound and complete) and replayed on the real loader (quick: all single mismatches + a seeded sample of pairs, under three concrete epoch numberings incl. epoch 0; thorough: all); on success identity fields are read back and every CID is fetched; TLC judges each outcome.",
         "Current index formats only; Filecoin mode not exercised; gsfa directories are built by the real command with two capacity/poll literals shrunk in an overlay copy.",
         "DESIGN.md section 7, C10", "epochload"),
 "C07": ("model_checking",
         "TLC exhaustive check of GsfaPaging.tla / GsfaSlotWindow.tla (transcriptions of iterBeforeUntil, iterBeforeUntilSlot and the response assembly) which enumerate every case; real multi-epoch reader and real JSON-RPC handler; TLC trace judge (Trace_GsfaPaging.tla)",
         "Every (batch layout per epoch, limit, before, until) for 2 epochs x <= 2-3 entries and 3 epochs x <= 1-3 entries, and every two-epoch history with slots x (limit, before, until), is checked on the transcriptions and executed on the real GsfaReaderMultiepoch over directories written by the real record writer; generated multi-epoch archives are indexed by the real `index gsfa` (batch size shrunk to 2) and every address is paged through the real handler with (limit, before, until) drawn from its history, each request repeated; TLC judges every result against Page / the slot window.",
         "`before` not in the history yields an empty page, `until` not in it is ignored; slot-window results judged for soundness (exactness belongs to C19); thorough tier adds the negative configurations (map-order assembly, missing `before` comparison).",
         "DESIGN.md section 7, C07", "gsfapaging"),
 "C14": ("model_checking",
         "TLC exhaustive check of DataFrames.tla (recursive collection over next links, sort by index, count and checksum checks under every single fault), which also enumerates the replay cases; real frames through tooling / storage.go / accum; TLC trace judge (Trace_DataFrames.tla)",
         "Every (frame count <= 6 / 8, fan-out <= 3 / 4, single fault: drop, duplicate link, altered data incl. the embedded first frame, frame of another payload, renumbering) is checked on the model and replayed, plus seeded cases with 1..60 frames and fan-out 1..10, payloads 0..200 KiB, CRC64 / legacy FNV / no checksum, the chain on the metadata or the transaction-data side, through LoadDataFromDataFrames, getTransactionAndMetaFromNode, parseTransactionAndMetaFromNode and accum.ObjectsToTransactionsAndMetadata (shuffled object order); results are compared again after later reassemblies (aliasing); TLC judges each outcome.",
         "Checksum idealised as injective in the model; legacy frames without checksum / total only have to reassemble un-faulted payloads.",
         "DESIGN.md section 7, C14", "dataframes"),
 "C15": ("model_checking",
         "TLC exhaustive check of PlusCal Accum.tla (every CAR layout x reader/flusher interleaving); TLC-simulated layouts+schedules forced on the real ObjectAccumulator through a gated io.Reader and gated callback; TLC trace judge (Trace_Accum.tla)",
         "Every layout of <= 4 (quick) / 6 (thorough) sections over {flush kind, kept, ignored} x body lengths at a varint boundary, with every interleaving of reader and flusher and queue capacities 1-2, is explored exhaustively (prefix/complete/no-aliasing/termination); TLC-generated layouts and schedules are forced on the real accumulator, plus free-running real-scale runs (1 500 groups, > 5 000 children, slow / random consumers, GOMAXPROCS 1/2/16); delivered groups with offsets are judged by TLC against the true offsets measured by the CAR writer.",
         "Sections are synthetic CBOR arrays carrying only the kind byte; schedules are sampled by TLC -simulate; the queue capacity literal is shrunk to 2 in a rewritten copy for the gated runs.",
         "DESIGN.md section 7, C15", "accum"),
 "C16": ("model_checking",
         "TLC exhaustive check of the MultiReaderAt loop transcription and of the SplitCar piece-writer model; the same space executed on the real MultiReaderAt / SplitCarReader and the real split-car command; TLC trace judge (Trace_MultiReader.tla)",
         "Every vector of <= 3 (quick) / 4 (thorough) pieces of 0..3 bytes (3 x 0..6 thorough) with every (offset, length) is checked on the transcription and executed on the real reader; the real SplitCarReader is driven over synthetic local / remote-like / padded pieces; generated epoch CARs (incl. a block with > 5 000 objects) are split by the real command at targets forcing 1..N pieces, every piece is parsed by an independent walker and the reassembled CAR is read back; TLC judges every read and every split.",
         "Content region of a piece = block families (the appended subset node is outside ContentSize, treated as by design); byte identity of split sections is decided per section by the harness' independent walker and carried to TLC as section ids.",
         "DESIGN.md section 7, C16", "multireader"),
 "C17": ("model_checking",
         "TLC exhaustive check of code-shaped RangeCache.tla (1..3 readers); TLC-generated histories replayed on the real RangeCache; TLC trace judge (Trace_RangeCache.tla)",
         "Every sequential history (Size 4, <= 4-5 operations incl. failing remote, SetRange, expiry of any subset) and every interleaving of 2-3 readers split at the lock boundary is explored exhaustively on the code-shaped model; all short histories and sampled long ones are executed on the real cache, plus 1 MiB-file histories, concurrent readers under the race detector and the ReadAt wrapper; every returned byte string is judged by TLC against the byte function of the remote.",
         "Entry age is abstracted (any subset may expire); partial expiry in the replay sets LastRead through package-internal access; concurrency on the real code is free-running (seeded), not schedule-forced; HTTP itself is not exercised.",
         "DESIGN.md section 7, C17", "rangecache"),
 "C18": ("model_checking",
         "TLC exhaustive check of PlusCal FirstSuccess.tla (safety + termination under fairness); TLC-enumerated completion orders forced on the real FirstSuccess with gated jobs; TLC trace judge (Trace_FirstSuccess.tla)",
         "All outcome vectors x limits x interleavings for N <= 3 (quick) / 5 (thorough) on the code-shaped PlusCal model, including liveness; every (outcomes, limit, feasible completion order) for N <= 4/5 is forced on the real function through gated job closures and each return value is judged by TLC against FirstSuccessAbs.",
         "Request context stays live (the property's proviso); a hang is detected by a 3 s watchdog after all jobs finished.",
         "DESIGN.md section 7, C18", "firstsuccess"),
 "C19": ("model_checking",
         "TLC exhaustive check of code-shaped Stream.tla (slot loop, filter predicate and its use, index path with per-account window queries and ordered flush) incl. negative configurations; real StreamBlocks / StreamTransactions with and without the real address index; TLC trace judge (Trace_Stream.tla)",
         "The stream model is evaluated for every (loaded set, range, filter over a 4-account universe incl. a loaded-only account, index on/off) of a 2-epoch model archive; TLC-generated archives (skipped slots, vote / failed / metadata-less transactions, address-table loaded accounts) are built with real `index gsfa` directories and streamed over ranges inside / across epochs / on skipped slots with seeded filters, with and without the index; TLC judges every streamed sequence (order and membership) against StreamAbs.",
         "Filters always carry vote and failed (absence is C08's); exclude / required accounts never occur as loaded-only accounts; empty marker messages are not transactions; index loaded for all epochs or none; the per-account batch of 100 of the index path is a recorded known finding.",
         "DESIGN.md section 7, C19", "stream"),
 "C04": ("model_checking",
         "TLC exhaustive check of HashIndex.tla (abstract hash oracles, mining, eytzinger layout and walk) and MC_Eytz; TLC-enumerated case classes built with the real builders of the three formats; TLC trace judge (Trace_HashIndex.tla)",
         "Every bucket assignment x in-bucket hash function x insertion sequence (incl. duplicates) for 3-4 keys, 2 buckets and 2 hash domains is explored (found-with-value, duplicate => failure, absent keys answered only through a hash collision), the eytzinger layout / search transcription is checked for every population <= 33 / 70, and 6 300 case classes (3 formats x value sizes 1..252 x populations 1..60 000 incl. 2^k +- 1 and the 10 000-per-bucket boundary x declared count x insertion order x key shapes incl. empty and 65 535-byte keys x error classes) are built twice by the real builders (byte compare), every key is looked up and the sealed buckets are dumped by an independent parser; TLC judges outcome, lookups, determinism and on-disk layout.",
         "xxhash is an uninterpreted oracle in the model; quick replays all error classes, 6 large populations and 1 200 sampled classes; builds > 400 keys are judged on the conjunction of lookups and the entry count.",
         "DESIGN.md section 7, C04", "hashindex"),
 "C05": ("model_checking",
         "TLC exhaustive check of SigExists.tla (dedupe / sort / eytzinger / offsets) and MC_Eytz; real bucketteer writer and readers over structured bucket populations; TLC trace judge (Trace_SigExists.tla)",
         "Every assignment of <= 3 (quick) / 4 (thorough) hashes with repetition to 2 prefixes is checked on the model (no false negative, no unexplained positive, writer agrees, contiguous offsets), the eytzinger transcription for every population <= 33 / 70; the real writer (one per process) is filled with bucket populations 0..4097 (2^k-1, 2^k, 2^k+1), 16 001 / 40 000 next to a populated prefix and at the end of the prefix space, duplicates, empty prefixes and random fill, for the current and the deprecated format, read through mmap Open and a plain ReaderAt, with an independent dump of the stored arrays and concurrent lookups on one reader; TLC judges every bucket.",
         "64-bit hashes are carried to TLC as order-preserving ranks; xxhash is not modelled.",
         "DESIGN.md section 7, C05", "sigexists"),
 "C06": ("model_checking",
         "TLC exhaustive check of code-shaped GsfaWriter.tla; TLC-simulated schedules forced on the real writer through hook gates; TLC trace judge (Trace_Gsfa.tla) over recorded read-backs",
         "Exhaustive TLC exploration of every push history x goroutine interleaving of the code-shaped writer model (thresholds shrunk), plus every TLC-generated schedule replayed step by step on the real writer with the same literals shrunk, real-constant runs around the 1000-entry batch size and the periodic flush, and records at both sides of the varint width boundaries; every recorded read-back is judged by TLC against the abstract property.",
         "Model constants B=2,K=2,Cap=1,T=1,F=2 (and B=3 variants in the thorough tier); popRank.purge is not modelled (needs >10 000 distinct batch counts); schedules are sampled by TLC -simulate, histories at real constants are seeded samples.",
         "DESIGN.md section 7, C06", "gsfa"),
}
ENGINES = [
 {"name": "dataframes", "path": "spec/DataFrames.tla", "serves_properties": ["C14"],
  "kind_free_text": "TLA+ DataFrames + Trace_DataFrames; Go harness/main/c14_test.go"},
 {"name": "sigexists", "path": "spec/SigExists.tla", "serves_properties": ["C05"],
  "kind_free_text": "TLA+ Util + SigExists + Trace_SigExists; Go harness/pkg/bucketteer/c05_test.go (child process per writer)"},
 {"name": "hashindex", "path": "spec/HashIndex.tla", "serves_properties": ["C04"],
  "kind_free_text": "TLA+ Util (eytzinger), HashIndexAbs/HashIndex, MC_Eytz, Gen_HashIndex, Trace_HashIndex; Go harness/pkg/compactindexsized/c04_test.go"},
 {"name": "rpcgrammar", "path": "spec/RpcGrammar.tla", "serves_properties": ["C08"],
  "kind_free_text": "TLA+ RpcGrammar/GrpcGrammar + Trace_RpcGrammar; Go harness/main/c08_test.go (child-process isolation)"},
 {"name": "epochset", "path": "spec/EpochSet.tla", "serves_properties": ["C09"],
  "kind_free_text": "TLA+ EpochSet (RWMutex semantics + recorded lock programs) + Trace_EpochSet; Go harness/main/c09_test.go, c09_mutex.go; go/ast rewrite of multiepoch.go"},
 {"name": "stream", "path": "spec/Stream.tla", "serves_properties": ["C19"],
  "kind_free_text": "TLA+ Ledger + StreamAbs/Stream/MC_Stream + Trace_Stream; Go harness/main/c19_test.go (recording grpc.ServerStream)"},
 {"name": "gsfapaging", "path": "spec/GsfaPaging.tla", "serves_properties": ["C07", "C03"],
  "kind_free_text": "TLA+ GsfaPagingAbs/GsfaPaging/GsfaSlotWindow + Trace_GsfaPaging; Go harness/pkg/gsfa/c07_test.go, harness/main/c07_test.go"},
 {"name": "epochload", "path": "spec/EpochLoad.tla", "serves_properties": ["C10"],
  "kind_free_text": "TLA+ EpochLoadAbs/EpochLoad + Trace_EpochLoad; Go harness/main/c10_test.go"},
 {"name": "rpc", "path": "spec/Rpc.tla", "serves_properties": ["C02", "C03"],
  "kind_free_text": "TLA+ Ledger + RpcAbs/Rpc/MC_Rpc + Trace_Rpc; Go harness/main/rpc_test.go (JSON-RPC via in-memory fasthttp ctx, gRPC methods called directly)"},
 {"name": "carindex", "path": "spec/CarIndex.tla", "serves_properties": ["C01"],
  "kind_free_text": "TLA+ Ledger/Gen_Ledger (archive vocabulary + generator), CarIndexAbs/CarIndex, Trace_CarIndex; Go harness/main/{helpers,arch,c01}_test.go + zzverif/fixture"},
 {"name": "accum", "path": "spec/Accum.tla", "serves_properties": ["C15"],
  "kind_free_text": "PlusCal Accum + AccumAbs + Gen_Accum + Trace_Accum; Go replayer harness/pkg/accum (gated io.Reader / callback)"},
 {"name": "multireader", "path": "spec/MultiReaderAt.tla", "serves_properties": ["C16"],
  "kind_free_text": "TLA+ MultiReaderAbs/MultiReaderAt/SplitCar + Trace_MultiReader; Go replayers harness/pkg/split-car-fetcher, harness/main/c16_test.go"},
 {"name": "rangecache", "path": "spec/RangeCache.tla", "serves_properties": ["C17"],
  "kind_free_text": "TLA+ RangeCacheAbs/RangeCache + Gen_RangeCache + Trace_RangeCache; Go replayers harness/pkg/range-cache, harness/pkg/split-car-fetcher"},
 {"name": "firstsuccess", "path": "spec/FirstSuccess.tla", "serves_properties": ["C18"],
  "kind_free_text": "PlusCal FirstSuccess + FirstSuccessAbs + Gen_FirstSuccess + Trace_FirstSuccess; Go replayer harness/main/c18_test.go"},
 {"name": "gsfa", "path": "spec/GsfaWriter.tla", "serves_properties": ["C06"],
  "kind_free_text": "TLA+ GsfaAbs/GsfaWriter/LinkedLog + Gen_GsfaWriter (-simulate schedules) + Trace_Gsfa judge; Go replayer harness/pkg/gsfa"},
]
NOT_YET = {}
ALL = ["C%02d" % i for i in range(1, 20)]


def main():
    checks = []
    for pid in ALL:
        if pid not in CHECKS:
            continue
        cat, tech, text, note, ref, eng = CHECKS[pid]
        checks.append({
            "property_id": pid,
            "quick_cmd": f"python3 engine/check.py {pid} --tier quick",
            "thorough_cmd": f"python3 engine/check.py {pid} --tier thorough",
            "evidence_file": f"evidence/{pid}.json",
            "replay_cmd_template": f"python3 engine/check.py {pid} --replay {{path}}",
            "engine": eng,
            "level_claimed": {"category": cat, "text": text, "design_ref": ref},
            "level_note": note,
            "technique": tech,
        })
    hooks_commits = subprocess.run(["git", "-C", "/repo", "log", "--format=%h", "--grep=^verif:"], capture_output=True, text=True).stdout.split()
    m = {
        "version": 1,
        "setup_cmd": "bash engine/setup.sh",
        "hooks": {
            "guard": "verif",
            "enable": "go test -tags verif -overlay <generated overlay.json> (Go build tag `verif`; harness files are injected with -overlay, nothing is copied into /repo)",
            "baseline_off_cmd": "cd /repo && GOFLAGS=-mod=mod GOPROXY=off GOSUMDB=off GOTOOLCHAIN=local go test -json -vet=off -count=1 -timeout 25m ./...",
            "source_commits": hooks_commits,
            "add_only": True,
        },
        "engines": ENGINES,
        "checks": checks,
        "notes": "Every check = TLA+ specification (spec/) checked by TLC (R1), TLC-generated cases (R2) replayed on the real code by Go harnesses injected with `go test -overlay` (R3), and recorded observations judged by a TLC trace specification (R4). Exit 2 = inconclusive (never a verdict). See DESIGN.md.",
        "not_applicable": [{"property_id": p, "reason": NOT_YET.get(p, "check under construction in this build phase: not claimed yet")} for p in ALL if p not in CHECKS],
    }
    json.dump(m, open(os.path.join(VERIF, "MANIFEST.json"), "w"), indent=1)
    print("MANIFEST.json:", len(checks), "checks,", len(m["not_applicable"]), "not claimed")


if __name__ == "__main__":
    main()
