#!/bin/bash
# usage: engine/sweep_mutants.sh [tier] [name-glob]   - runs every stored seeded change against the check(s) of its
# property (meta.json "property" may list several, comma separated): applies the patch to /repo, runs the check, reverts,
# and records the outcome in seeded/<name>/meta.json (detected_by).
TIER=${1:-quick}; GLOB=${2:-*}
cd /verif
for d in seeded/$GLOB/; do
  n=$(basename $d); props=$(jq -r .property $d/meta.json | tr ',' ' ')
  rm -f /tmp/sweep-db.json; echo "[]" > /tmp/sweep-db.json
  for prop in $props; do
    out=$(engine/try_mutant.sh $d/patch.diff $prop $TIER 2>&1)
    verdict=$(grep -E "^(OK|FAIL|INCONCLUSIVE)" /tmp/mutant-$prop.log | tail -1)
    echo "$out" | grep -q "patch does not apply\|is dirty" && verdict="NOT RUN: $(echo "$out" | head -1)"
    first=$(grep -A1 "^VIOLATION" /tmp/mutant-$prop.log | grep "what:" | head -1 | cut -c1-300)
    python3 - "$prop" "$TIER" "$verdict" "$first" <<'PY'
import json,sys
prop,tier,verdict,first=sys.argv[1:]
db=json.load(open("/tmp/sweep-db.json"))
db.append({"check":f"python3 engine/check.py {prop} --tier {tier}","verdict":verdict.strip(),"first_violation":first.strip()})
json.dump(db,open("/tmp/sweep-db.json","w"))
PY
    echo "$n [$prop]: $verdict"
  done
  python3 - "$d/meta.json" <<'PY'
import json,sys
m=json.load(open(sys.argv[1])); db=json.load(open("/tmp/sweep-db.json"))
m["detected_by"]=db[0] if len(db)==1 else db
json.dump(m,open(sys.argv[1],"w"),indent=1)
PY
done
