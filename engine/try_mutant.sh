#!/bin/bash
# usage: engine/try_mutant.sh <patch.diff> <Cxx> [tier]   - apply a seeded change to /repo, run the check, undo.
# (development aid for the seeded-change experiments; the evidence file of the property is restored afterwards)
P=$(realpath $1); ID=$2; TIER=${3:-quick}
cd /verif
git -C /repo diff --quiet || { echo "/repo is dirty"; exit 3; }
git -C /repo apply "$P" || { echo "patch does not apply"; exit 3; }
cp evidence/$ID.json /tmp/evidence-$ID.bak 2>/dev/null
python3 engine/check.py $ID --tier $TIER > /tmp/mutant-$ID.log 2>&1; rc=$?
git -C /repo apply -R "$P"
git -C /repo diff --quiet || echo "WARNING: /repo still dirty"
cp /tmp/evidence-$ID.bak evidence/$ID.json 2>/dev/null
grep -E "^(VIOLATION|KNOWN-FINDING|INCONCLUSIVE|OK|FAIL|  what)" /tmp/mutant-$ID.log | head -8
echo "exit=$rc"
