"""C12 - parsers of external data return errors, never crash, on arbitrary bytes.
R1+R2 ParserFaults.tla: the fields through which a file controls its parser (length, count, slice bound, offset, minimum
length, difference) for every index / CAR format; a fully guarded parser never panics and never allocates beyond the cap
for any (format, field, value class); the same model without guards must violate both (negative control); every
(format, field, class) is printed as a replay case.  R3 the real parsers (child process, address-space limit, heartbeat)
on those cases applied to the valid files of a fixture epoch, plus seeded byte-level mutations (truncations, byte sets,
CBOR heads, chunk operations, random strings); R4 Trace_FileFaults (kind "fault")."""
from core import Inconclusive, sha
from props.c10 import gsfa_fast_overlay


def site_of(detail):
    d = detail or ""
    if " @ " in d:
        return d.rsplit(" @ ", 1)[1].strip()[:80]
    return ""


def run(ctx):
    q = ctx.quick
    cfg = "SPECIFICATION Spec\nCONSTANTS\n Guarded = %s\nINVARIANT NeverCrashes\nINVARIANT BoundedAlloc\n%sCHECK_DEADLOCK FALSE\n"
    cases = ctx.r2_generate(["ParserFaults"], "ParserFaults", cfg % ("TRUE", "INVARIANT Emit\n"), name="MC_ParserFaults", timeout_s=1200, workers=1)
    ctx.r1.append(ctx.r2[-1])
    neg = ctx.r1_check(["ParserFaults"], "ParserFaults", cfg % ("FALSE", ""), name="MC_ParserFaults_unguarded_negative", timeout_s=600, expect_violation=True)
    if not neg.violations:
        raise Inconclusive("negative control: the unguarded parser model must violate NeverCrashes / BoundedAlloc")
    if len(cases) < 500:
        raise Inconclusive(f"only {len(cases)} structured cases")
    casep = ctx.write_ndjson("cases.ndjson", cases)
    ov = ctx.overlay(main_files=["helpers_test.go", "arch_test.go", "c10_test.go", "c12_test.go"], replace=gsfa_fast_overlay(ctx))
    b = ctx.go_build(".", ov, name="main_c12")
    env = {}
    if ctx.replay:
        o = ctx.replay["observation"]
        env = {"VERIF_C12_ONLY": f"{o['mut']}|{o['parser']}|{o['seed']}"}
    obs = ctx.go_run(b, "^TestVerifC12$", cases=casep, env=env, timeout_s=3400 if q else 20000)
    if not obs:
        raise Inconclusive("no observations")
    notrun = [o for o in obs if o["outcome"] == "notrun"]
    rejected = ctx.r4_judge(["Trace_FileFaults"], "Trace_FileFaults", obs, chunk=20000, timeout_s=2400)
    per = {}
    for o in obs:
        ctx.count(sha([o["parser"], o["seed"], o["mut"]]), o["class"] not in ("valid",))
        p = per.setdefault(o["parser"], {"jobs": 0, "ok": 0, "error": 0, "bad": 0})
        p["jobs"] += 1
        p[o["outcome"] if o["outcome"] in ("ok", "error") else "bad"] += 1
        if o["role"] != "bytes" and o["expect"] == "error" and o["outcome"] == "ok":
            ctx.drift += 1
    seen = set()
    for i in rejected:
        o = obs[i]
        if o["outcome"] == "notrun":
            continue
        sig = {"op": "parse", "parser": o["parser"].split(":")[0], "outcome": o["outcome"], "site": site_of(o["detail"])}
        key = sha(sig)
        # one violation per (parser, outcome, site): the first input that reaches it
        if key in seen:
            ctx.extra.setdefault("more_inputs_per_site", {}).setdefault(sig["site"] or sig["outcome"], 0)
            ctx.extra["more_inputs_per_site"][sig["site"] or sig["outcome"]] += 1
            continue
        seen.add(key)
        ctx.violation(sig, f"{o['parser']} on {o['seed']} with {o['mut']} ({o['size']} bytes): {o['outcome']} - {o['detail'][:400]}", obs=o)
    if notrun and not ctx.violations:
        raise Inconclusive(f"{len(notrun)} jobs not executed")
    ctx.extra["parsers"] = per
    ctx.extra["structured_cases"] = len(cases)
    ctx.assumptions += ["allocation out of proportion = more than 64 MiB + 100 x input size allocated during one open+query sequence (+ 256 MiB, the repository's decompression cap, for parsers that decompress; the repository's other caps: 32 MiB CAR section, 16 MiB record)",
                        "hang = no progress for 30 s; inputs are mutations of valid files and short random strings, not a coverage-guided corpus (Go's native fuzzer writes crashers into the package directory, i.e. into /repo, so it is not used)",
                        "linkedlog.Read (unused by the readers, 256 MiB cap by design) is not an entry point here"]
    return ctx.finish("fault_enumeration", "distinct = (parser, seed file, mutation); non-trivial = any mutation other than the valid file", exhaustive=False)
