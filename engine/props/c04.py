"""C04 - compact hash index: every inserted key is found with its value, in every format.
R1 HashIndex.tla (abstract hash oracles: every bucket assignment x in-bucket hash function x insertion sequence,
mining incl. failure, eytzinger layout and walk) + MC_Eytz (layout/search for every population <= N);
R2 Gen_HashIndex (format x value size x population x declared count x order x key shape x error class x metadata shape);
R3 real builders of the three formats (built twice, byte compare, every key looked up through the file and through an
io.ReaderAt with the other legal end-of-data behaviour, metadata read back, independent file parser);
R4 Trace_HashIndex (BuildAllowed + on-disk eytzinger layout)."""
from core import Inconclusive, sha

MC = "SPECIFICATION Spec\nCONSTANTS\n Keys = {keys}\n NBuckets = 2\n HashRange = {hr}\n MaxDomain = {md}\n MaxInserts = {mi}\nINVARIANT Sound\nINVARIANT LossyOnlyByCollision\nCHECK_DEADLOCK FALSE\n"


def run(ctx):
    q = ctx.quick
    ctx.r1_check(["Util", "HashIndex"], "HashIndex", MC.format(keys="{1, 2, 3}", hr=2, md=1, mi=3), name="MC_HashIndex_3keys", timeout_s=2400)
    if not q:
        ctx.r1_check(["Util", "HashIndex"], "HashIndex", MC.format(keys="{1, 2, 3, 4}", hr=3, md=1, mi=4), name="MC_HashIndex_4keys", timeout_s=3000)
    ctx.r1_check(["Util", "MC_Eytz"], "MC_Eytz", "SPECIFICATION Spec\nCONSTANT N = %d\nINVARIANT Correct\n" % (33 if q else 70), name="MC_Eytz", timeout_s=2400)
    cases = ctx.r2_generate(["Gen_HashIndex"], "Gen_HashIndex", "SPECIFICATION Spec\nINVARIANT Emit\nCHECK_DEADLOCK FALSE\n", name="Gen_HashIndex", timeout_s=1200)
    if ctx.replay:
        cases = [ctx.replay["case"]]
    elif q:
        big = {"9999", "10001", "20001", "60000"}
        metas = [c for c in cases if c["meta"] != "none"]
        cases = [c for c in cases if c["meta"] == "none"]
        special = [c for c in cases if c["special"] != "none"]
        large = [c for c in cases if c["n"] in big and c["special"] == "none" and c["n"] != "60000"]
        lengths = [c for c in cases if c["keys"] in ("lengths", "65535") and c["special"] == "none"]
        rest = [c for c in cases if c["special"] == "none" and c["n"] not in big and c["keys"] not in ("lengths", "65535")]
        ctx.rng.shuffle(rest)
        ctx.rng.shuffle(large)
        cases = special + metas + lengths + large[:6] + rest[:1150]
    casep = ctx.write_ndjson("cases.ndjson", cases)
    ov = ctx.overlay(pkg_files={"compactindexsized": ["c04_test.go"]})
    b = ctx.go_build("./compactindexsized", ov, name="ci")
    obs = ctx.go_run(b, "^TestVerifC04$", cases=casep, timeout_s=3400)
    if len(obs) != len(cases):
        raise Inconclusive(f"{len(obs)} observations for {len(cases)} cases")
    rejected = ctx.r4_judge(["Util", "HashIndexAbs", "Trace_HashIndex"], "Trace_HashIndex", obs, chunk=1500, timeout_s=3000)
    for o in obs:
        c = o["class"]
        ctx.count(sha(c), o["nkeys"] >= 2)
    for i in rejected:
        o = obs[i]
        c = o["class"]
        lost = sum(1 for f in o["found"] if not f)
        sig = {"op": c["fmt"], "special": c["special"], "outcome": o["outcome"]}
        ctx.violation(sig, f"{c['fmt']} index, value size {o['vsize']}, {o['nkeys']} inserts (keys {c['keys']}, declared {c['declared']}, order {c['order']}, special {c['special']}): "
                           f"outcome={o['outcome']} {o['detail'][:150]}; lookups lost or wrong: {lost}; deterministic={o['deterministic']}; entries on disk={o['total']}",
                      case=cases[i], obs={k: v for k, v in o.items() if k not in ("layout", "keys", "klens", "vlens", "found")})
    ctx.samples += cases[:2]
    ctx.extra["outcomes"] = {k: sum(1 for o in obs if o["outcome"] == k) for k in sorted({o["outcome"] for o in obs})}
    ctx.assumptions += ["xxhash is an uninterpreted oracle in the model; real hashes only occur in the replay (the judge checks the on-disk layout against them)",
                        "for builds with > 400 keys the judge receives the conjunction of all lookups and the on-disk entry count; bucket layouts are dumped for buckets of <= 300 entries"]
    return ctx.finish("model_checking", "distinct = case class (format, value size, population, declared count, order, key shape, special); non-trivial = >= 2 inserts", exhaustive=not q)
