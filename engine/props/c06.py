"""C06 - address index returns every indexed transaction of an address, newest first.
R1 GsfaWriter (code-shaped, exhaustive) + LinkedLog framing; R2 -simulate schedules; R3 gated replay on the
real writer (hooks `vh`, literals shrunk by go/ast rewrite of the current file) + real-constant runs +
record-length directed search; R4 Trace_Gsfa judges every recorded execution against GsfaAbs."""
import json
from core import Inconclusive, sha

RULES = [
    {"kind": "const", "name": "itemsPerBatch", "new": "2"},
    {"kind": "literal", "func": "NewGsfaWriter", "old": "50", "new": "1"},
    {"kind": "literal", "func": "NewGsfaWriter", "old": "1_000_000", "new": "16"},
    {"kind": "literal", "func": "fullBufferWriter", "old": "256", "new": "2"},
    {"kind": "binary", "func": "fullBufferWriter", "old": "1 * time.Second", "new": "20 * time.Millisecond"},
    {"kind": "literal", "func": "Push", "old": "100_000", "new": "1"},
    {"kind": "literal", "func": "Push", "old": "100", "new": "2"},
    # popRank list size: kept larger than the number of distinct batch counts any replayed history reaches
    # (<= 5), so the purge of the unchanged code stays as unreachable as it is with the real constant
    {"kind": "literal", "func": "NewGsfaWriter", "old": "10_000", "new": "8"},
]

MC = """SPECIFICATION Spec
CONSTANTS
  a0 = a0
  a1 = a1
  a2 = a2
  Addr = {addr}
  Ord <- MCOrd
  ZeroKey = a0
  B = {B}
  K = {K}
  Cap = {Cap}
  T = {T}
  F = {F}
  MaxTx = {MaxTx}
  Fixed = {Fixed}
INVARIANT ClosedReadBack
INVARIANT LogNewestFirst
INVARIANT LogSound
CHECK_DEADLOCK FALSE
"""

GEN = """SPECIFICATION SimSpec
CONSTANTS
  a0 = a0
  a1 = a1
  Addr = {a0, a1}
  Ord <- MCOrd
  ZeroKey = a0
  B = 2
  K = 2
  Cap = 1
  T = 1
  F = 2
  MaxTx = %d
  Fixed = TRUE
INVARIANT Emit
CHECK_DEADLOCK FALSE
"""


def mc(addr="{a0, a1}", B=2, K=2, Cap=1, T=1, F=2, MaxTx=4, Fixed="TRUE"):
    return (MC.replace("{addr}", addr).replace("{B}", str(B)).replace("{K}", str(K)).replace("{Cap}", str(Cap))
            .replace("{T}", str(T)).replace("{F}", str(F)).replace("{MaxTx}", str(MaxTx)).replace("{Fixed}", Fixed))


def nontrivial(pushed):
    per = {}
    for p in pushed:
        for a in p["addrs"]:
            per[a] = per.get(a, 0) + 1
    return any(v >= 2 for v in per.values())


def sig_of(o):
    """canonical signature of a violating observation (for known-findings matching)"""
    if o["kind"] == "framing":
        return {"op": "framing", "payloadLen": o["payloadLen"]}
    return {"op": o["kind"], "err": (o.get("err") or "")[:40]}


def run(ctx):
    q = ctx.quick
    mods = ["Util", "GsfaAbs", "GsfaWriter", "MC_GsfaWriter"]
    # ---- R1: exhaustive design check of the code-shaped model (current design: Fixed = TRUE)
    ctx.r1_check(mods, "MC_GsfaWriter", mc(MaxTx=4), name="MC_Gsfa_2addr_B2")
    if not q:
        ctx.r1_check(mods, "MC_GsfaWriter", mc(MaxTx=5), name="MC_Gsfa_2addr_B2_tx5", timeout_s=1500)
        ctx.r1_check(mods, "MC_GsfaWriter", mc(addr="{a0, a1, a2}", MaxTx=3), name="MC_Gsfa_3addr", timeout_s=1500)
        ctx.r1_check(mods, "MC_GsfaWriter", mc(B=3, K=1, Cap=2, MaxTx=4, F=3), name="MC_Gsfa_B3K1", timeout_s=1500)
        # sensitivity self-test: the pinned design (Fixed = FALSE) must violate ClosedReadBack
        neg = ctx.r1_check(mods, "MC_GsfaWriter", mc(MaxTx=4, Fixed="FALSE"), name="MC_Gsfa_pinned_negative",
                           expect_violation=True)
        if "ClosedReadBack" not in neg.violations:
            raise Inconclusive("negative configuration (pinned close ordering) no longer violates ClosedReadBack: vacuous model")
        ctx.extra["negative_config"] = "pinned close/exit ordering violates ClosedReadBack in the model, as expected"
    fr = ctx.r1_check(["Util", "LinkedLog"], "LinkedLog",
                      "SPECIFICATION Spec\nCONSTANTS MaxP = %d\n FromTotal = FALSE\nINVARIANT FramingAgrees\n" % (20000 if q else 70000),
                      name="MC_LinkedLog")
    # ---- R2: schedules + histories
    if ctx.replay:
        cases = [ctx.replay["case"]] if ctx.replay.get("case") else []
    else:
        cases = ctx.r2_generate(["Util", "GsfaAbs", "GsfaWriter", "Gen_GsfaWriter"], "Gen_GsfaWriter", GEN % 6,
                                simulate=(200 if q else 8000), depth=160)
    casep = ctx.write_ndjson("cases.ndjson", cases)
    # ---- build from the current tree: shrunk copy of the current gsfa-write.go + injected replayer
    shrunk, hits = ctx.rewrite("gsfa/gsfa-write.go", RULES, "gsfa-write.shrunk.go")
    shrink_ok = shrunk is not None and all(h > 0 for h in hits) and len(hits) == len(RULES)
    ctx.extra["rewrite_hits"] = hits
    obs = []
    pkg = {"gsfa": ["replay_test.go"]}
    if shrink_ok and cases:
        ov = ctx.overlay(pkg_files=pkg, replace={"gsfa/gsfa-write.go": shrunk})
        b = ctx.go_build("./gsfa", ov, name="gsfa_shrunk")
        obs += ctx.go_run(b, "^TestVerifC06Schedules$", cases=casep, out="obs_sched.ndjson", timeout_s=3000)
        # shrunk constants, free-running scheduler, long random histories over many addresses
        for i in range(6 if q else 40):
            env = {"VERIF_C06_RUN": str(i)}
            if i % 3 != 0:
                env["VERIF_C06_PERIODIC"] = "2"   # periodic partial flushes at the shrunk threshold
            obs += ctx.go_run(b, "^TestVerifC06Real$", env=env, out=f"obs_sreal{i}.ndjson")
    else:
        ctx.assumptions.append("literal rewrite did not find all its sites: schedules not replayed, real constants only")
    # ---- real constants (unmodified file)
    ov2 = ctx.overlay(pkg_files={"gsfa": ["replay_test.go"], "gsfa/linkedlog": ["framing_test.go"]})
    b2 = ctx.go_build("./gsfa", ov2, name="gsfa_real")
    nreal = 2 if q else 12
    for i in range(nreal):
        env = {"VERIF_C06_RUN": str(100 + i)}
        if i == nreal - 1:
            env["VERIF_C06_PERIODIC"] = "1"
        obs += ctx.go_run(b2, "^TestVerifC06Real$", env=env, out=f"obs_real{i}.ndjson", timeout_s=1200)
    b3 = ctx.go_build("./gsfa/linkedlog", ov2, name="linkedlog")
    obs += ctx.go_run(b3, "^TestVerifC06Framing$", out="obs_framing.ndjson", timeout_s=1200)
    # ---- R4: TLC judges every recorded execution
    rejected = ctx.r4_judge(["GsfaAbs", "Trace_Gsfa"], "Trace_Gsfa", obs, chunk=400)
    for i, o in enumerate(obs):
        key = sha([o["kind"], o.get("pushed"), o.get("diverged", ""), o.get("payloadLen")])
        nt = o["kind"] == "framing" or nontrivial(o["pushed"])
        ctx.count(key, nt)
        if o["kind"] == "schedule" and not o["conform"]:
            ctx.drift += 1
    for i in rejected:
        o = obs[i]
        small = {k: (v if k != "pushed" or len(v) < 40 else f"<{len(v)} pushes>") for k, v in o.items()}
        what = (f"record framing: payload length {o['payloadLen']} (total {o['total']}) not read back ({o['err'] or 'wrong entries'})"
                if o["kind"] == "framing" else
                f"{o['kind']} run: read-back differs from the pushed history ({o.get('err') or 'lost/reordered entries'}; {o.get('note','')})")
        case = cases[o["case"] - 1] if o["kind"] == "schedule" and not ctx.replay else None
        ctx.violation(sig_of(o), what, case=case, obs=small)
    if cases:
        ctx.samples.append({"schedule_case": cases[0]})
    ctx.samples.append({"framing_lengths": sorted(o["payloadLen"] for o in obs if o["kind"] == "framing")})
    ctx.extra["schedules_replayed"] = sum(1 for o in obs if o["kind"] == "schedule")
    ctx.extra["schedules_diverged"] = sum(1 for o in obs if o["kind"] == "schedule" and o["diverged"])
    ctx.extra["real_constant_runs"] = sum(1 for o in obs if o["kind"] == "real")
    ctx.assumptions += ["schedule replay uses a copy of the current gsfa-write.go with literals shrunk to B=2,K=2,Cap=1,T=1,F=2",
                        "entries are identified by their CAR offset (= push index)"]
    return ctx.finish("model_checking",
                      "distinct = sha1(kind, push history, schedule divergence, record length); non-trivial = some address "
                      "receives >= 2 entries (or a framing record at a varint boundary)")
