"""C16 - split CARs read back as the exact concatenation of their pieces.
R1 MultiReaderAt.tla (loop transcription, every piece-size vector x (off,len)) and SplitCar.tla (piece writer);
R3 the same space on the real MultiReaderAt, the real SplitCarReader over synthetic pieces (local-file and
remote-like readers, padded pieces), and the real split-car command on generated epoch CARs at target sizes
forcing 1..N pieces; R4 Trace_MultiReader judges every read / every split against MultiReaderAbs / SplitAbs."""
from core import Inconclusive, sha


def run(ctx):
    q = ctx.quick
    pieces, size = (3, 3) if q else (4, 3)
    ctx.r1_check(["MultiReaderAbs", "MultiReaderAt"], "MultiReaderAt",
                 f"SPECIFICATION Spec\nCONSTANTS\n MaxPieces = {pieces}\n MaxSize = {size}\nINVARIANT Correct\n", name="MC_MultiReaderAt", timeout_s=3000)
    if not q:
        ctx.r1_check(["MultiReaderAbs", "MultiReaderAt"], "MultiReaderAt",
                     "SPECIFICATION Spec\nCONSTANTS\n MaxPieces = 3\n MaxSize = 6\nINVARIANT Correct\n", name="MC_MultiReaderAt_3x6", timeout_s=3000)
    ctx.r1_check(["SplitCar"], "SplitCar",
                 "SPECIFICATION Spec\nCONSTANTS\n MaxFam = %d\n MaxFamSize = 3\n HdrSize = 2\n Limits = {3,4,5,6,8}\n MaxLinksSet = {1, 2, 100}\n"
                 "INVARIANT EachOnceInOrder\nINVARIANT NoEmptyPiece\nINVARIANT SizeRespected\n" % (5 if q else 7), name="MC_SplitCar", timeout_s=3000)
    ov = ctx.overlay(main_files=["c16_test.go"], pkg_files={"split-car-fetcher": ["c16_test.go"]})
    b = ctx.go_build("./split-car-fetcher", ov, name="scf")
    obs = ctx.go_run(b, "^TestVerifC16Vectors$", env={"VERIF_C16_PIECES": str(pieces), "VERIF_C16_SIZE": str(size)}, out="obs_v.ndjson", timeout_s=3000)
    obs += ctx.go_run(b, "^TestVerifC16Pieces$", out="obs_p.ndjson", timeout_s=3000)
    bm = ctx.go_build(".", ov, name="main_c16")
    obs += ctx.go_run(bm, "^TestVerifC16Split$", out="obs_s.ndjson", timeout_s=3000)
    rejected = ctx.r4_judge(["MultiReaderAbs", "Trace_MultiReader"], "Trace_MultiReader", obs, chunk=400, timeout_s=3000)
    nreads = 0
    for o in obs:
        if o["kind"] == "split":
            ctx.count(sha(["split", o["target"], o["orig"], len(o["pieces"])]), len(o["pieces"]) >= 2)
        elif o["kind"] == "splitfault":
            ctx.count(sha(["splitfault", o["target"], o["orig"]]), True)
        else:
            nreads += len(o["reads"])
            ctx.count(sha([o["via"], o["sizes"], [(r["off"], r["ln"]) for r in o["reads"]]]), o["span"])
    for i in rejected:
        o = obs[i]
        if "merge" in ctx.reject_detail.get(i, ""):
            # growth: merge-cars is not part of C16's statement
            ctx.drift += 1
            ctx.extra.setdefault("merge_cars_drift", []).append(f"merge-cars over {len(o['pieces'])} pieces wrote {o['mergedlen']} bytes, the pieces hold {o['mergewant']}")
            continue
        if o["kind"] == "splitfault":
            ctx.violation({"op": "split-car", "why": "output fault"}, f"split-car target={o['target']} ({o['blocks']} blocks) with one piece file impossible to create: {o['err']}",
                          obs={k: v for k, v in o.items() if k not in ("orig", "families", "readback", "pieces")})
            continue
        if o["kind"] == "split":
            why = o["err"] or "pieces / readback differ from the original block families"
            ctx.violation({"op": "split-car", "why": why[:40]}, f"split-car target={o['target']} ({o['blocks']} blocks, {len(o['pieces'])} pieces): {why}",
                          obs={k: v for k, v in o.items() if k not in ("orig", "families", "readback")} | {"pieces": o["pieces"][:6]})
        else:
            bad = None
            total = len(o["concat"])
            for r in o["reads"]:
                w = 0 if r["off"] >= total else min(r["ln"], total - r["off"])
                if r["n"] != w or r["bytes"] != o["concat"][r["off"]:r["off"] + w] or (w < r["ln"] and r["err"] != "eof") or r["err"] == "other" or (r["err"] == "eof" and not (w < r["ln"] or r["off"] + w == total)):
                    bad = r
                    break
            ctx.violation({"op": o["via"], "why": (o["err"] or "read")[:40]},
                          f"{o['via']} sizes={o['sizes']}: {o['err'] or ('read not allowed: ' + str(bad))}", obs={"via": o["via"], "sizes": o["sizes"], "bad_read": bad, "err": o["err"]})
    ctx.samples.append({"reads_case": {"via": obs[0]["via"], "sizes": obs[0]["sizes"], "first_reads": obs[0]["reads"][:3]}})
    sp = [o for o in obs if o["kind"] == "split"]
    ctx.extra["split_output_faults"] = {"runs": sum(1 for o in obs if o["kind"] == "splitfault"), "loud": sum(1 for o in obs if o["kind"] == "splitfault" and o["loud"])}
    if sp:
        ctx.samples.append({"split_case": {"target": sp[0]["target"], "blocks": sp[0]["blocks"], "pieces": [(p["hdr"], p["content"], p["file"], len(p["secs"])) for p in sp[0]["pieces"]]}})
    ctx.extra["reads_judged"] = nreads
    ctx.extra["splits_judged"] = len(sp)
    ctx.extra["piece_counts"] = sorted({len(o["pieces"]) for o in sp})
    ctx.assumptions += ["the content region of a piece is [HeaderSize, HeaderSize+ContentSize): the subset node the splitter appends after it is outside the property (DESIGN C16)",
                        "split pieces are projected to original section ids by an independent go-car framing walker (byte-identity decided per section)"]
    return ctx.finish("model_checking", "distinct = (reader kind, piece sizes, reads) / (target size, CAR, piece count); non-trivial = spans >= 2 pieces or a zero-length piece / >= 2 pieces written",
                      exhaustive=True)
