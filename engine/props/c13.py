"""C13 - truncated index or CAR files fail loudly.
R1 FileFaults.tla: every program of <= MaxReads ReadAt steps x every cut over a Size-byte file; a reader that checks
every short read never answers from bytes it did not get (NeverSilentlyWrong, OnlyFromBytesRead); the same model with
CheckShort = FALSE must violate NeverSilentlyWrong (negative control: the invariant is not vacuous).
R3 the real files of a fixture epoch (cid->offset-and-size, slot->cid, sig->cid, sig-exists, slot->blocktime, gsfa
linked log / pubkey index / manifest, CAR) cut at every offset (small files) or region boundaries +-2 plus a seeded sample,
every stored key looked up through a truncated copy on disk (opened as the server does) and through a truncating
io.ReaderAt in four short-read flavours; R4 Trace_FileFaults."""
from core import Inconclusive, sha
from props.c10 import gsfa_fast_overlay


def run(ctx):
    q = ctx.quick
    cfg = "SPECIFICATION Spec\nCONSTANTS\n Size = %d\n MaxReads = %d\n CheckShort = %s\nINVARIANT NeverSilentlyWrong\nINVARIANT OnlyFromBytesRead\n"
    ctx.r1_check(["FileFaults"], "FileFaults", cfg % ((5, 3, "TRUE") if q else (6, 4, "TRUE")), name="MC_FileFaults", timeout_s=2400)
    neg = ctx.r1_check(["FileFaults"], "FileFaults", cfg % (4, 2, "FALSE"), name="MC_FileFaults_neg", timeout_s=600, expect_violation=True)
    if not neg.violations:
        raise Inconclusive("negative control: FileFaults with CheckShort=FALSE must violate NeverSilentlyWrong")
    ov = ctx.overlay(main_files=["helpers_test.go", "arch_test.go", "c01_test.go", "c10_test.go", "c13_test.go"], replace=gsfa_fast_overlay(ctx))
    b = ctx.go_build(".", ov, name="main_c13")
    env = {}
    if ctx.replay:
        env = {"VERIF_C13_FILE": ctx.replay["observation"]["file"], "VERIF_C13_CUT": str(ctx.replay["observation"]["cut"])}
    obs = ctx.go_run(b, "^TestVerifC13$", env=env, timeout_s=3400)
    if not obs:
        raise Inconclusive("no observations")
    rejected = ctx.r4_judge(["Trace_FileFaults"], "Trace_FileFaults", obs, chunk=20000, timeout_s=2400)
    files = {}
    for o in obs:
        ctx.count(sha([o["file"], o["cut"], o["reader"], o["flavour"]]), o["error"] > 0 or o["openerr"])
        f = files.setdefault(o["file"], {"size": o["size"], "cuts": set(), "runs": 0, "same": 0, "error": 0, "openerr": 0})
        f["cuts"].add(o["cut"])
        f["runs"] += 1
        f["same"] += o["same"]
        f["error"] += o["error"]
        f["openerr"] += 1 if o["openerr"] else 0
        if o["reader"] == "readerat" and o["same"] > 0 and o["maxread"] > o["cut"] and o["error"] == 0:
            ctx.drift += 1
    for i in rejected:
        o = obs[i]
        bad = "panic" if o["panic"] else ("different" if o["different"] else "notfound")
        region = "tail" if o["size"] - o["cut"] <= 8 else ("head" if o["cut"] < 64 else "body")
        ctx.violation({"op": "trunc", "file": o["file"], "outcome": bad, "reader": o["reader"], "region": region},
                      f"{o['file']} ({o['size']} bytes) cut to {o['cut']} bytes, {o['reader']} {o['flavour']}: of {o['keys']} stored keys {o['same']} same, {o['error']} error, "
                      f"{o['notfound']} silently not found, {o['different']} different answer, {o['panic']} panic ({o['example']})", obs=o)
    ctx.extra["files"] = {k: {"size": v["size"], "cuts": len(v["cuts"]), "runs": v["runs"], "same_answers": v["same"], "error_answers": v["error"], "open_errors": v["openerr"]} for k, v in files.items()}
    ctx.assumptions += ["truncation = prefix of the valid file (os-level short file, or ReaderAt returning a short read in one of four flavours)",
                        "deprecated index formats are covered by C12's parser enumeration, not here",
                        "remote (HTTP) files: the range reader's short reads are modelled by the truncating ReaderAt flavours"]
    return ctx.finish("fault_enumeration", "distinct = (file kind, cut offset, reader kind, short-read flavour); non-trivial = at least one lookup or the open had to fail", exhaustive=False)
