"""C15 - block-by-block CAR traversal delivers each object once with its true offset.
R1 Accum.tla (PlusCal; every layout up to MaxLen x every reader/flusher interleaving, offsets, aliasing, termination);
R2 Gen_Accum (-simulate: layouts + gated schedules); R3 real ObjectAccumulator with a gated io.Reader and a gated
callback (queue capacity shrunk by go/ast rewrite of the current accum/block.go) + free-running real-scale runs;
R4 Trace_Accum judges the delivered groups against AccumAbs with the true offsets measured by the CAR writer."""
from core import Inconclusive, sha

MC = """SPECIFICATION {spec}
CONSTANTS
  MaxLen = {n}
  BodySet = {bodies}
  Hdr = 59
  Cap = {cap}
INVARIANT PrefixAlways
INVARIANT Complete
INVARIANT NoStuck
INVARIANT NoAliasing
{prop}
CHECK_DEADLOCK FALSE
"""
GEN = """SPECIFICATION GSpec
CONSTANTS
  MaxLen = {n}
  BodySet = {{127, 128}}
  Hdr = 59
  Cap = {cap}
INVARIANT Emit
CHECK_DEADLOCK FALSE
"""
MODS = ["Util", "AccumAbs", "Accum"]
RULES = [{"kind": "literal", "func": "NewObjectAccumulator", "old": "1000", "new": "2"}]


def run(ctx):
    q = ctx.quick
    ctx.r1_check(MODS, "Accum", MC.format(spec="Spec", n=4 if q else 6, bodies="{127, 128}", cap=1, prop=""), name="MC_Accum_cap1", timeout_s=2400)
    ctx.r1_check(MODS, "Accum", MC.format(spec="Spec", n=4 if q else 5, bodies="{127, 16384}", cap=2, prop=""), name="MC_Accum_cap2", timeout_s=2400)
    ctx.r1_check(MODS, "Accum", MC.format(spec="FairSpec", n=3 if q else 4, bodies="{127}", cap=1, prop="PROPERTY Terminates"), name="MC_Accum_live", timeout_s=2400)
    shrunk, hits = ctx.rewrite("accum/block.go", RULES, "block.shrunk.go")
    ok = shrunk is not None and hits == [1]
    cap = 2 if ok else 1000
    ctx.extra["rewrite_hits"] = hits
    if ctx.replay:
        cases = [ctx.replay["case"]]
    else:
        cases = ctx.r2_generate(MODS + ["Gen_Accum"], "Gen_Accum", GEN.format(n=7, cap=cap), simulate=250 if q else 12000, depth=80)
    casep = ctx.write_ndjson("cases.ndjson", cases)
    pk = {"accum": ["c15_test.go"]}
    ov = ctx.overlay(pkg_files=pk, replace={"accum/block.go": shrunk} if ok else None)
    b = ctx.go_build("./accum", ov, name="accum_gated")
    obs = ctx.go_run(b, "^TestVerifC15$", cases=casep, out="obs_g.ndjson", timeout_s=3000)
    if not ctx.replay:
        ov2 = ctx.overlay(pkg_files=pk)
        b2 = ctx.go_build("./accum", ov2, name="accum_real")
        obs += ctx.go_run(b2, "^TestVerifC15Free$", out="obs_f.ndjson", timeout_s=3000)
    rejected = ctx.r4_judge(["Util", "AccumAbs", "Trace_Accum"], "Trace_Accum", obs, chunk=300, timeout_s=2400)
    for o in obs:
        kinds = [s["kind"] for s in o["car"]]
        nt = kinds.count("F") + (1 if kinds and kinds[-1] != "F" else 0) >= 2 and "I" in kinds
        ctx.count(sha([o["kind"], o["mode"], [(s["kind"], s["body"]) for s in o["car"]][:200], len(o["car"]), o.get("diverged", "")]), nt)
        if o.get("diverged"):
            ctx.drift += 1
    for i in rejected:
        o = obs[i]
        small = dict(o)
        if len(o["car"]) > 60:
            small["car"] = f"<{len(o['car'])} sections>"
            small["delivered"] = f"<{len(o['delivered'])} groups>"
        why = o["err"] or ("a delivered slice was modified after delivery" if o["late"] else "delivered groups / offsets differ from the CAR")
        case = cases[o["case"] - 1] if o["kind"] == "gated" and not ctx.replay else None
        ctx.violation({"op": o["kind"], "why": why[:40]}, f"{o['kind']} traversal ({o['mode']}, {len(o['car'])} sections, ignore={o['ignore']}): {why}", case=case, obs=small)
    ctx.samples += cases[:2]
    ctx.extra["gated_runs"] = sum(1 for o in obs if o["kind"] == "gated")
    ctx.extra["gated_diverged"] = sum(1 for o in obs if o["kind"] == "gated" and o["diverged"])
    ctx.extra["free_runs"] = sum(1 for o in obs if o["kind"] == "free")
    ctx.assumptions += ["sections are synthetic CBOR arrays [kind, bytes] (the accumulator only inspects the kind byte); true offsets are measured by the CAR writer of the harness",
                        "gated schedules run on a copy of accum/block.go with the queue capacity literal shrunk to 2" if ok else "queue capacity literal not found: gated schedules run at the real capacity"]
    return ctx.finish("model_checking", "distinct = (mode, layout, divergence); non-trivial = >= 2 groups and an ignored object present")
