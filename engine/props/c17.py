"""C17 - remote-file range cache is transparent.
R1 RangeCache.tla exhaustive (1 reader = all sequential histories; 2 readers = all interleavings of lookup/miss);
R2 Gen_RangeCache (all short histories, -simulate long ones); R3 real RangeCache with a byte-function remote,
internal-timestamp expiry, concurrent readers in a child process under -race, ReadAt wrapper;
R4 Trace_RangeCache judges every recorded call against RangeCacheAbs."""
from core import Inconclusive, sha

MC = """SPECIFICATION Spec
CONSTANTS
  Size = {size}
  MaxOps = {ops}
  Readers = {readers}
INVARIANT ValuesRight
INVARIANT Antichain
INVARIANT OccupiedRight
INVARIANT Transparent
CHECK_DEADLOCK FALSE
"""
GEN = """SPECIFICATION GSpec
CONSTANTS
  Size = {size}
  MaxOps = {ops}
  Readers = {{1}}
INVARIANT Emit
CHECK_DEADLOCK FALSE
"""
MODS = ["RangeCacheAbs", "RangeCache"]


def run(ctx):
    q = ctx.quick
    ctx.r1_check(MODS, "RangeCache", MC.format(size=4, ops=4 if q else 5, readers="{1}"), name="MC_RC_seq", timeout_s=2400)
    ctx.r1_check(MODS, "RangeCache", MC.format(size=3 if q else 4, ops=4, readers="{1, 2}"), name="MC_RC_2readers", timeout_s=2400)
    if not q:
        ctx.r1_check(MODS, "RangeCache", MC.format(size=3, ops=4, readers="{1, 2, 3}"), name="MC_RC_3readers", timeout_s=2400)
    if ctx.replay:
        cases = [ctx.replay["case"]]
    else:
        cases = ctx.r2_generate(MODS + ["Gen_RangeCache"], "Gen_RangeCache", GEN.format(size=3, ops=2 if q else 3),
                                name="Gen_RC_exhaustive", timeout_s=2400)
        # long random behaviours of the same model
        cases += ctx.r2_generate(MODS + ["Gen_RangeCache"], "Gen_RangeCache", GEN.format(size=6, ops=10),
                                 name="Gen_RC_sim", simulate=300 if q else 15000, depth=40)
    casep = ctx.write_ndjson("cases.ndjson", cases)
    ov = ctx.overlay(pkg_files={"range-cache": ["c17_test.go"], "split-car-fetcher": ["c17_test.go"]})
    b = ctx.go_build("./range-cache", ov, name="rc")
    obs = ctx.go_run(b, "^TestVerifC17Histories$", cases=casep, out="obs_h.ndjson")
    if not ctx.replay:
        br = ctx.go_build("./range-cache", ov, name="rc_race", race=True)
        obs += ctx.go_run(br, "^TestVerifC17Concurrent$", out="obs_c.ndjson", timeout_s=2400)
        bs = ctx.go_build("./split-car-fetcher", ov, name="scf")
        obs += ctx.go_run(bs, "^TestVerifC17ReadAt$", out="obs_r.ndjson")
        obs += ctx.go_run(bs, "^TestVerifC17HTTP$", out="obs_http.ndjson")
    rejected = ctx.r4_judge(["RangeCacheAbs", "Trace_RangeCache"], "Trace_RangeCache", obs, chunk=5000)
    for o in obs:
        key = sha([o["kind"], o["size"], [(c["op"], c["s"], c["l"], c["up"]) for c in o["calls"]]])
        ctx.count(key, o["nontrivial"])
    for i in rejected:
        o = obs[i]
        if o["fatal"]:
            ctx.violation({"op": "concurrent", "fatal": o["fatal"].split(":")[0][:40]}, f"concurrent readers: {o['fatal']}", obs=o)
            continue
        bad = None
        for c in o["calls"]:
            if c["op"] in ("get", "readat"):
                valid = c["s"] >= 0 and c["l"] >= 0 and c["s"] + c["l"] <= o["size"]
                exp = [((((x % 251) * 7) + ((x // 251) % 13)) % 256) for x in range(c["s"], c["s"] + c["l"])] if valid else None
                if (c["res"] == "ok" and (not valid or c["bytes"] != exp)) or (c["res"] in ("err", "panic") and valid and c["up"] and not (c["op"] == "readat" and c["s"] >= o["size"])) or c["res"] == "panic":
                    bad = c
                    break
        # (the scan above only picks a call to *describe*; the verdict is TLC's)
        case = cases[o["case"] - 1] if o["kind"] == "history" and 0 < o["case"] <= len(cases) and not ctx.replay else None
        ctx.violation({"op": o["kind"], "res": (bad or {}).get("res", "?")},
                      f"{o['kind']} run (size {o['size']}): call {bad} is not allowed by RangeCacheAbs", case=case,
                      obs={"kind": o["kind"], "size": o["size"], "bad_call": bad, "calls": o["calls"][:60]})
    ctx.samples += cases[:2]
    ctx.extra["concurrent_runs"] = sum(1 for o in obs if o["kind"] == "concurrent")
    ctx.assumptions += ["remote content is the byte function ByteAt(i); the remote is toggled only while no call is in flight",
                        "partial expiry is produced by ageing chosen entries' LastRead (package-internal) before the real DeleteOldEntries pass"]
    return ctx.finish("model_checking", "distinct = (kind, size, call sequence); non-trivial = history with a superset/cached hit "
                      "or a failed fetch, every concurrent and ReadAt run")
