"""C02 - RPC answers for archived slots and signatures reproduce the archive exactly.
R1 Rpc.tla (routing, lossy index with key check, errgroup fetch orders, assembly, parent lookup) over a 3-epoch
model archive x every loaded set; R2 Gen_Ledger archives; R3 real CAR + indexes + MultiEpoch, every loaded-epoch
combination x encodings x concurrencies, JSON-RPC and gRPC; R4 Trace_Rpc judges every projected response."""
import re
from core import Inconclusive, sha
from props.c01 import gen_archives

MC = """SPECIFICATION Spec
CONSTANTS
  EpochLen = 10
  Arch <- MCArch
  LoadedSets <- MCLoaded
  CheckKey = {ck}
  AbsentSlots = {{11, 14, 22, 35}}
  AbsentSigs = {{101, 102}}
INVARIANT ReplyAllowed
CHECK_DEADLOCK FALSE
"""
MODS = ["Ledger", "RpcAbs", "Rpc", "MC_Rpc"]


def bad_calls(ctx, idx, o):
    m = re.search(r"\{([0-9, ]*)\}", ctx.reject_detail.get(idx, ""))
    ids = [int(x) for x in m.group(1).split(",") if x.strip()] if m else []
    return [o["calls"][i - 1] for i in ids]


def run_rpc(ctx, prop, test, cases, nontrivial, out="obs.ndjson"):
    casep = ctx.write_ndjson("cases.ndjson", cases)
    ov = ctx.overlay(main_files=["helpers_test.go", "arch_test.go", "rpc_test.go"])
    b = ctx.go_build(".", ov, name="main_rpc")
    obs = ctx.go_run(b, test, cases=casep, timeout_s=3400, out=out)
    rejected = ctx.r4_judge(["Ledger", "RpcAbs", "Trace_Rpc"], "Trace_Rpc", obs, chunk=40, timeout_s=3000, constants="CONSTANT EpochLen = 432000\n")
    ncalls = 0
    for o in obs:
        for c in o["calls"]:
            ncalls += 1
            ctx.count(sha([o["case"], o["loaded"], o["conc"], c["op"], c["proto"], c["enc"], c["slot"] if c["op"] != "getTransaction" else c["sig"]]),
                      nontrivial(o, c))
    ctx.evaluations = ncalls
    for i in rejected:
        o = obs[i]
        for c in bad_calls(ctx, i, o)[:50]:
            key = c["slot"] if c["op"] != "getTransaction" else c["sig"]
            sig = {"op": c["op"], "proto": c["proto"], "status": c["status"], "alias": c["alias"]}
            ctx.violation(sig, f"{c['op']}/{c['proto']} key={key} enc={c['enc']} with epochs {o['loaded']} loaded (search concurrency {o['conc']}): "
                               f"status={c['status']} {c['detail']} -> {dict((k, v) for k, v in c.items() if k not in ('detail',))}"[:900],
                          case=cases[o["case"] - 1] if cases else None, obs={"loaded": o["loaded"], "conc": o["conc"], "call": c})
    ctx.validated = ncalls - sum(len(bad_calls(ctx, i, obs[i])) for i in rejected)
    ctx.extra["calls_judged"] = ncalls
    gen = {st: sum(1 for o in obs for c in o["calls"] if c["op"] == "getGenesisHash" and c["status"] == st)
                                   for st in sorted({c["status"] for o in obs for c in o["calls"] if c["op"] == "getGenesisHash"})}
    if gen:
        ctx.extra["getGenesisHash"] = gen
    ctx.extra["configurations"] = len(obs)
    return obs


def run(ctx):
    q = ctx.quick
    ctx.r1_check(MODS, "MC_Rpc", MC.format(ck="TRUE"), name="MC_Rpc", timeout_s=1200)
    if ctx.replay:
        cases = [ctx.replay["case"]]
    else:
        cases = gen_archives(ctx, 10 if q else 40, name="Gen_Ledger_3ep", mine=3, mintx=6, depth=110) \
            + gen_archives(ctx, 8 if q else 40, name="Gen_Ledger_2ep", mine=2, mintx=5) \
            + gen_archives(ctx, 4 if q else 20, name="Gen_Ledger_ep0", eps="{0, 1}", me=2, mine=2, mintx=4)
    cases = [c for c in cases if len(c["arch"]) <= 3]

    def nontrivial(o, c):
        return c["status"] == "ok" and (len(c["sigs"]) >= 2 or c["op"] == "getTransaction")
    run_rpc(ctx, "C02", "^TestVerifC02$", cases, nontrivial)
    if not ctx.replay:
        # directed: a block whose CAR span exceeds the 10 MiB prefetch window of the getBlock handlers
        keep = (ctx.evaluations, ctx.validated)
        run_rpc(ctx, "C02", "^TestVerifC02Big$", [], nontrivial, out="obs_big.ndjson")
        ctx.evaluations += keep[0]
        ctx.validated += keep[1]
    ctx.samples += cases[:1]
    ctx.assumptions += ["archives are well-formed: every block has >= 1 entry; parent_slot = 0 only for slots 0 and 1; epoch 0 contains slot 0",
                        "slot 0 is exempt from the block-time / height comparison (the server answers with the genesis creation time, as Solana's RPC does)",
                        "JSON metadata is compared on err / fee / loaded addresses (the JSON form is a re-encoding); gRPC metadata and all transaction payloads byte for byte"]
    return ctx.finish("model_checking", "distinct = (archive, loaded epochs, concurrency, method, protocol, encoding, key); non-trivial = getTransaction, or getBlock with >= 2 transactions")
