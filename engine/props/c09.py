"""C09 - queries and epoch reloads never deadlock and see a consistent epoch set.
R3a record the lock programs of every operation from the CURRENT code (mutex field retyped to a tracing wrapper in an
overlay copy of multiepoch.go); R1 EpochSet.tla: Go RWMutex semantics x every multiset of 3 recorded programs with a
writer x every interleaving: mutual exclusion, balance, and every deadlock state reported with its schedule (R2);
R3b each reported schedule is forced on the real MultiEpoch through the wrapper's gates - a confirmed hang is the
violation; R3c stress run; R4 Trace_EpochSet judges replays and the stress run."""
import json, os, re
from core import Inconclusive, sha, REPO
from props.epochops import run_epochops
from props.watcher import run_watcher

RULES = [{"kind": "fieldtype", "struct": "MultiEpoch", "field": "mu", "new": "verifRWMutex", "keepImport": "sync"}]


def canon(prog):
    """collapse consecutive repetitions of a balanced segment (after which the thread holds nothing) to at most two:
    a thread between two balanced segments is indistinguishable from a fresh thread, so no deadlock is lost"""
    segs, cur, depth = [], [], 0
    for op in prog:
        cur.append(op)
        depth += 1 if op in ("RLock", "Lock") else -1
        if depth == 0:
            segs.append(tuple(cur))
            cur = []
    if cur:
        segs.append(tuple(cur))
    out = []
    for s in segs:
        if len(out) >= 2 and out[-1] == s and out[-2] == s:
            continue
        out.append(s)
    return [op for s in out for op in s]


def lock_users():
    """names of the functions of package main whose body touches `.mu.` (textual scan of the current tree)"""
    users = set()
    for fn in os.listdir(REPO):
        if not fn.endswith(".go") or fn.endswith("_test.go"):
            continue
        src = open(os.path.join(REPO, fn), errors="replace").read()
        for m in re.finditer(r"^func (?:\([^)]*\) )?(\w+)\(", src, re.M):
            start = m.end()
            nxt = re.search(r"^func ", src[start:], re.M)
            body = src[start:start + nxt.start()] if nxt else src[start:]
            if re.search(r"\.mu\.(R?Lock|R?Unlock)\(", body):
                users.add(m.group(1))
    return users


def run(ctx):
    q = ctx.quick
    rewritten, hits = ctx.rewrite("multiepoch.go", RULES, "multiepoch.retyped.go")
    if rewritten is None or hits != [1]:
        raise Inconclusive(f"cannot retype MultiEpoch.mu in a copy of multiepoch.go (hits={hits}): the epoch-set lock is no longer a field `mu` of MultiEpoch")
    from props.c10 import gsfa_fast_overlay
    rep = {"multiepoch.go": rewritten}
    rep.update(gsfa_fast_overlay(ctx))
    ov = ctx.overlay(main_files=["helpers_test.go", "arch_test.go", "rpc_test.go", "c10_test.go", "c09_test.go", "c09_mutex.go"], replace=rep)
    b = ctx.go_build(".", ov, name="main_c09")
    # ---- R3a: record the lock programs from the current code
    progs = ctx.go_run(b, "^TestVerifC09Record$", out="programs_raw.ndjson", timeout_s=1200)
    if not progs:
        raise Inconclusive("recorder produced no programs")
    shapes = {}
    for p in progs:
        c = tuple(canon(p["prog"]))
        if not c:
            continue
        shapes.setdefault(c, []).append(p["name"])
    # representative name per shape: prefer an operation's own goroutine (replayable)
    lines = []
    for c, names in sorted(shapes.items()):
        own = [n for n in names if "#" not in n]
        lines.append({"name": (own or names)[0], "prog": list(c), "all": names[:12]})
    recorded_callers = {c for p in progs for c in p["callers"]}
    uncovered = sorted(lock_users() - recorded_callers)
    ctx.extra["lock_program_shapes"] = [{"prog": l["prog"], "operations": l["all"]} for l in lines]
    ctx.extra["lock_users_not_recorded"] = uncovered
    unbalanced = [l for l in lines if sum(1 if o in ("RLock", "Lock") else -1 for o in l["prog"]) != 0]
    # a lock that is still held after the operation returned blocks every later reload for good ("every operation completes")
    for p in progs:
        if p.get("leaked"):
            ctx.violation({"op": "lock-leak", "operation": p["name"].split("@")[0].split("#")[0], "state": "empty" if "@empty" in p["name"] else "loaded"},
                          f"after {p['name']} returned, a writer (AddEpoch / ReplaceOrAddEpoch / RemoveEpoch) can no longer take the epoch-set lock: "
                          f"the operation's lock program is {p['prog']} (lock leaked); every later reload and, behind it, every query blocks", obs=p)
    if not any("Lock" in l["prog"] for l in lines):
        raise Inconclusive("no writer program recorded")
    progfile = ctx.write_ndjson("programs.ndjson", [{"name": l["name"], "prog": l["prog"]} for l in lines])
    # ---- R1 + R2: every multiset of recorded programs, every interleaving; deadlock states reported as cases
    cfg = "SPECIFICATION Spec\nCONSTANT NThreads = %d\nINVARIANT Exclusion\nINVARIANT Balanced\nINVARIANT DeadlockReport\nVIEW View\nCHECK_DEADLOCK FALSE\n"
    import core as _core
    from tlc import run_tlc
    cfgp = ctx.cfg("MC_EpochSet.cfg", cfg % 3)
    r = run_tlc(ctx._spec_files(["EpochSet"]) + [cfgp], "EpochSet", cfgp, workers=8, timeout_s=1800, extra_files=[progfile])
    ctx.log("R1", "MC_EpochSet", r.summary())
    if r.errors or r.timed_out or r.generated == 0:
        raise Inconclusive(f"R1 EpochSet: {r.errors[:2]} timeout={r.timed_out}\n{r.stdout[-1500:]}")
    ctx.states += r.distinct
    ctx.transitions += r.generated
    ctx.r1.append(dict(config="MC_EpochSet_3threads", generated=r.generated, distinct=r.distinct, violated=r.violations, deadlock_states=len(r.cases)))
    model_viol = [v for v in r.violations]
    cands, seen = [], set()
    for c in r.cases:
        k = sha([c["ops"], [(e["t"], e["op"]) for e in c["sched"]][:6]])
        k2 = sha(sorted(c["ops"]))
        if k2 in seen and len(cands) >= 4:
            continue
        seen.add(k2)
        cands.append(c)
    cands = cands[:12 if q else 60]
    obs = []
    if ctx.replay and ctx.replay.get("case"):
        cands = [ctx.replay["case"]]
    if cands:
        casep = ctx.write_ndjson("cases.ndjson", cands)
        obs += ctx.go_run(b, "^TestVerifC09Replay$", cases=casep, out="obs_replay.ndjson", timeout_s=2400)
    # ---- R3c: stress
    if not ctx.replay:
        obs += ctx.go_run(b, "^TestVerifC09Stress$", out="obs_stress.ndjson", timeout_s=2400, death_ok=True)
        if ctx.last_death is not None:
            # the server process dying under concurrent queries and reloads is the strongest form of "an operation does not
            # complete": a Go runtime fatal error (concurrent map access, all goroutines asleep) raised in repository code
            import re
            dead = ctx.last_death
            m = re.search(r"^fatal error: (.*)$", dead, re.M)
            frames = [f for f in re.findall(r"^\s+(/\S+\.go):\d+", dead, re.M) if "zz_verif" not in f and "/harness/" not in f and "/go/src/" not in f and "/usr/lib/go" not in f and "/pkg/mod/" not in f and "/zzverif/" not in f]
            if m and frames:
                ctx.violation({"op": "stress", "outcome": "process-death"},
                              f"stress run: the process died with `fatal error: {m.group(1)}` in {os.path.basename(frames[0])} while queries ran concurrently with epoch-set changes",
                              obs={"fatal": m.group(1), "first_repo_frame": frames[0]})
            else:
                raise Inconclusive("R3 driver ^TestVerifC09Stress$ died:\n" + "\n".join(dead.splitlines()[-25:]))
    if not ctx.replay:
        obs += ctx.go_run(b, "^TestVerifC09Atomic$", out="obs_atomic.ndjson", timeout_s=1200)
    rejected = ctx.r4_judge(["Trace_EpochSet"], "Trace_EpochSet", obs, timeout_s=1800)
    for o in obs:
        if o["kind"] == "linpair":
            ctx.count(sha(["linpair", o["op1"], o["op2"], o["gateAt"]]), o["gateAt"] > 0)
            continue
        if o["kind"] == "replay":
            ctx.count(sha(["replay", o["ops"], o["case"]]), True)
            if o["outcome"] in ("diverged", "unreplayable", "completed"):
                ctx.drift += 1   # the model deadlock could not be confirmed on the real code
        else:
            ctx.evaluations += len(o["pairs"])
            for p in o["pairs"]:
                c = p["idle"]
                ctx.nontrivial.add(sha(["stress", c["op"], c["proto"], c["slot"], c["sig"]]))
            ctx.nontrivial.add(sha(["stress-listings", len(o["listings"])]))
    for i in rejected:
        o = obs[i]
        if o["kind"] == "linpair" and o["outcome"] == "hang" and o["gateAt"] == 0:
            ctx.violation({"op": "deadlock", "ops": sorted([o["op1"].split("(")[0], o["op2"].split("(")[0]])},
                          f"{o['op1']} then {o['op2']}: {o['detail']}", obs=o)
            continue
        if o["kind"] == "linpair":
            ctx.violation({"op": "atomicity", "op1": o["op1"].split("(")[0], "op2": o["op2"].split("(")[0]},
                          f"{o['op1']} parked before its lock acquisition #{o['gateAt']} while {o['op2']} ran: outcome {o['inter']} equals neither sequential order "
                          f"({o['seq12']} / {o['seq21']}) {o['detail']}"[:900], obs=o)
            continue
        if o["kind"] == "replay":
            ctx.violation({"op": "deadlock", "ops": sorted(o["ops"])},
                          f"operations {o['ops']} deadlock on the real MultiEpoch when interleaved as TLC's schedule prescribes: {o['detail']}; goroutine states {o['blocked']}",
                          case=cands[o["case"] - 1], obs=o)
        else:
            bad = [p for p in o["pairs"] if p["idle"] != p["stress"]][:2]
            badl = [l for l in o["listings"] if any(l[i] <= l[i + 1] for i in range(len(l) - 1)) or not set(o["stable"]) <= set(l)][:2]
            ctx.violation({"op": "stress", "outcome": o["outcome"]},
                          f"stress run: outcome={o['outcome']} {o['detail']}; answers differing from the idle server: {bad}; bad listings: {badl}"[:900],
                          obs={k: v for k, v in o.items() if k not in ("pairs", "listings")})
    # ---- growth: sequential meaning of the epoch set + the --watch handler (EpochOps.tla)
    if not ctx.replay or ctx.replay.get("sig", {}).get("op") == "epochops":
        ctx.growth(run_epochops, q)
    # ---- the --watch dispatch loop (Watcher.tla) on the real onFileChanged
    if not ctx.replay or ctx.replay.get("sig", {}).get("op") == "watch":
        ctx.growth(run_watcher, q)
    if model_viol:
        ctx.extra["model_invariants_violated"] = model_viol
    if unbalanced:
        ctx.extra["unbalanced_programs"] = unbalanced
    ctx.samples += [{"programs": [{"name": l["name"], "prog": l["prog"]} for l in lines][:4]}] + cands[:1]
    ctx.extra["deadlock_candidates_from_model"] = len(r.cases)
    ctx.extra["candidates_replayed"] = len([o for o in obs if o["kind"] == "replay"])
    ctx.assumptions += ["lock programs are those of the operations the recorder executes (functions touching the lock that were not reached are listed in coverage.lock_users_not_recorded)",
                        "repeated balanced segments of a program are collapsed to two", "only an operation's own goroutine is gated in a replay; goroutines it spawns run free"]
    return ctx.finish("model_checking", "distinct = deadlock candidate replayed / stress run; non-trivial = a candidate with a writer, the stress run's answer pairs and listings")
