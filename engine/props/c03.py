"""C03 - a request is never answered with an object that belongs to a different key.
R1 Rpc.tla with the lossy index (an absent key may alias any stored key): holds with the key check, and the
negative configuration (no key check = pinned tree) must produce the wrong-object counterexample;
R3 absent keys on the real server: every skipped slot, unloaded epochs, random signatures, and absent slots /
signatures whose 24-bit in-bucket hash collides with a stored key (found by searching with the index's own hash),
with 1 and several epochs loaded; foreign-CAR CID fetches; R4 Trace_Rpc (absent => not-found / unavailable)."""
from core import Inconclusive, sha
from props.c01 import gen_archives
from props.c02 import MC, MODS, run_rpc


def run(ctx):
    q = ctx.quick
    ctx.r1_check(MODS, "MC_Rpc", MC.format(ck="TRUE"), name="MC_Rpc_keycheck", timeout_s=1200)
    neg = ctx.r1_check(MODS, "MC_Rpc", MC.format(ck="FALSE"), name="MC_Rpc_nocheck_negative", timeout_s=1200, expect_violation=True)
    if "ReplyAllowed" not in neg.violations:
        raise Inconclusive("negative configuration (no key check) no longer violates ReplyAllowed: vacuous model")
    ctx.extra["negative_config"] = "without the slot/signature comparison the model answers an aliasing absent key with another object, as expected"
    if ctx.replay:
        cases = [ctx.replay["case"]]
    else:
        # many blocks per epoch make an aliasing absent slot likely (432 000 candidates x n / 2^24)
        cases = gen_archives(ctx, 2 if q else 25, name="Gen_Ledger_manyblocks", eps="{1, 2, 5}", me=2, mine=2, mintx=40, depth=700, mb=70)
        cases += gen_archives(ctx, 2 if q else 25, name="Gen_Ledger_1ep", mine=1, mintx=6)
    cases = [c for c in cases if len(c["arch"]) <= 3]

    def nontrivial(o, c):
        return c["alias"]
    obs = run_rpc(ctx, "C03", "^TestVerifC03$", cases, nontrivial)
    # last clause: getSignaturesForAddress for addresses without history, incl. ones aliasing a stored address in the
    # pubkey-to-offset index (epoch with thousands of addresses; address index built by the real `index gsfa`)
    if not ctx.replay:
        from props.c10 import gsfa_fast_overlay
        ov = ctx.overlay(main_files=["helpers_test.go", "arch_test.go", "rpc_test.go", "c07_test.go", "c10_test.go"], replace=gsfa_fast_overlay(ctx))
        bm = ctx.go_build(".", ov, name="main_c03addr")
        aobs = ctx.go_run(bm, "^TestVerifC03Address$", out="obs_addr.ndjson", timeout_s=3400)
        arej = ctx.r4_judge(["GsfaPagingAbs", "Trace_GsfaPaging"], "Trace_GsfaPaging", aobs, timeout_s=1200)
        for o in aobs:
            ctx.count(sha(["addr", o["alias"], o["result"], len(ctx.nontrivial)]), o["alias"])
        for i in arej:
            o = aobs[i]
            ctx.violation({"op": "getSignaturesForAddress", "alias": o["alias"]},
                          f"getSignaturesForAddress for an address without history (aliasing={o['alias']}) returned signatures {o['result'][:5]} {o['err']}", obs=o)
        ctx.extra["aliasing_addresses_requested"] = sum(1 for o in aobs if o["alias"])
    ctx.extra["aliasing_keys_requested"] = sum(1 for o in obs for c in o["calls"] if c["alias"])
    ctx.samples += [{"loaded": o["loaded"], "alias_calls": [c for c in o["calls"] if c["alias"]][:2]} for o in obs[:2]]
    ctx.assumptions += ["sig-exists (64-bit hashes) is treated as exact"]
    return ctx.finish("model_checking", "distinct = (archive, loaded epochs, method, protocol, key); non-trivial = absent key whose 24-bit in-bucket hash equals a stored key's (a real alias)")
