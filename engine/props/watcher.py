"""Part of C09 ("every operation completes" under --watch reloads): the dispatch loop of cmd-rpc.go:onFileChanged.
R1 Watcher.tla: events x dispatcher (blocks in wg.Go while every slot is taken) x workers x tracker; Bounded, OneLoadPerFile,
TrackerExact, refinement of WatcherAbs, and under fairness Drains (the queue empties, the dispatcher is idle, every slot is
free once fsnotify stops delivering). Negative control: the variant that re-submits a parked event with wg.Go from inside a
worker must violate Drains. Design observation: NoLostUpdate fails (an event arriving while its file is loaded is dropped).
R1' WatcherInd.tla (Apalache): TrackerExact / OneLoadPerFile as an inductive invariant - any number of events, 3 files, 3 slots.
R2 -simulate: schedules of touches and callback completions; R3 the real onFileChanged on a temporary directory (real
fsnotify, real errgroup, real tracker) with a gated callback that mutates a real MultiEpoch; R4 Trace_Watcher.
Verdict: a callback that never returns or a lost probe is a violation (the watcher is wedged: no reload completes any more);
a callback log that is not a behaviour of WatcherAbs is drift."""
from core import Inconclusive, sha

CFG = 'SPECIFICATION {spec}\nCONSTANTS\n Files = {files}\n Slots = {slots}\n MaxEvents = {me}\n Variant = "{variant}"\n{checks}CHECK_DEADLOCK FALSE\n'
SAFETY = "INVARIANT Bounded\nINVARIANT OneLoadPerFile\nINVARIANT TrackerExact\nPROPERTY Refines\nPROPERTY Drains\n"
MODS = ["WatcherAbs", "Watcher"]


def run_watcher(ctx, q):
    ctx.r1_check(MODS, "Watcher", CFG.format(spec="FairSpec", files='{"a", "b"}', slots=2, me=4 if q else 5, variant="drop", checks=SAFETY), name="MC_Watcher", timeout_s=2400)
    ctx.r1_check(MODS, "Watcher", CFG.format(spec="FairSpec", files='{"a", "b"}', slots=1, me=4, variant="drop", checks=SAFETY), name="MC_Watcher_1slot", timeout_s=2400)
    neg = ctx.r1_check(MODS, "Watcher", CFG.format(spec="FairSpec", files='{"a", "b"}', slots=1, me=4, variant="replay", checks="PROPERTY Drains\n"),
                       name="MC_Watcher_resubmit_negative", timeout_s=900, expect_violation=True)
    if not neg.violations:
        raise Inconclusive("negative control: the re-submitting watcher variant must violate Drains")
    lost = ctx.r1_check(MODS, "Watcher", CFG.format(spec="FairSpec", files='{"a", "b"}', slots=2, me=3, variant="drop", checks="PROPERTY NoLostUpdate\n"),
                        name="MC_Watcher_lost_update", timeout_s=900, expect_violation=True)
    ctx.extra["watch_lost_update_observation"] = ("an fsnotify event that arrives while its file is being loaded is dropped by the fileProcessingTracker: the content written last "
                                                  "may never be loaded (TLC counterexample to NoLostUpdate; design observation, not claimed)" if lost.violations else "NoLostUpdate held in the bounded model")
    # unbounded in the number of events: TrackerExact / OneLoadPerFile as an inductive invariant (Apalache, typed companion module)
    ctx.apalache_inductive("WatcherInd", cinit="CInit", name="WatcherInd", timeout_s=600)
    cases = []
    per = 20 if q else 400
    for slots in (1, 2, 3):
        cases += ctx.r2_generate(MODS, "Watcher", CFG.format(spec="Spec", files='{"a", "b", "c"}', slots=slots, me=7, variant="drop", checks="INVARIANT Emit\n"),
                                 name=f"Gen_Watcher_{slots}", simulate=per * 3, depth=80, timeout_s=600, workers=1)[:per * 3]
    seen, uniq = set(), []
    for c in cases:
        k = sha(c)
        if k not in seen:
            seen.add(k)
            uniq.append(c)
    ctx.rng.shuffle(uniq)
    uniq = uniq[:3 * per]
    if len(uniq) < 10:
        raise Inconclusive(f"Watcher: only {len(uniq)} schedules")
    casep = ctx.write_ndjson("watcher_cases.ndjson", uniq)
    ov = ctx.overlay(main_files=["helpers_test.go", "watcher_test.go"])
    b = ctx.go_build(".", ov, name="main_watcher")
    obs = ctx.go_run(b, "^TestVerifWatcher$", cases=casep, out="watcher_obs.ndjson", timeout_s=1800)
    if len(obs) != len(uniq):
        raise Inconclusive(f"Watcher: {len(obs)} observations for {len(uniq)} schedules")
    unavailable = [o for o in obs if o["probe"] == "unavailable"]
    if unavailable:
        raise Inconclusive("Watcher: the file watcher could not be started in this environment: " + unavailable[0]["detail"])
    ctx.reject_detail = {}
    rejected = ctx.r4_judge(["WatcherAbs", "Trace_Watcher"], "Trace_Watcher", obs, chunk=2000, timeout_s=1200)
    for o in obs:
        ctx.count(sha(["watch", o["slots"], o["steps"]]), len({e["file"] for e in o["events"]}) >= 2)
    for i in rejected:
        o = obs[i]
        why = ctx.reject_detail.get(i, "")
        if "wedged" in why:
            files = sorted({s["file"] for s in o["steps"]})
            ctx.violation({"op": "watch", "slots": o["slots"], "what": "wedged"},
                          f"--watch with {o['slots']} load slot(s), config files {files} touched {sum(1 for s in o['steps'] if s['step'] == 'touch')} times: "
                          f"{o['stuck']} callback(s) never returned, probe {o['probe']}: {o['detail']}", case=uniq[i], obs=o)
        else:
            ctx.drift += 1
            ctx.extra.setdefault("watcher_drift", []).append(f"{why}: slots={o['slots']} events={o['events'][:12]} listing={o['listing']}"[:300])
    ctx.extra["watcher_runs"] = len(obs)
    ctx.extra["watcher_callbacks"] = sum(1 for o in obs for e in o["events"] if e["ev"] == "cbStart")
