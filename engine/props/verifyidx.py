"""Growth attached to C01: the index verifiers (`index all --verify`, `verify-index all | cid-to-offset | slot-to-cid |
sig-to-cid | sig-exists`) - the repository's own oracle for what C01 states.
R1 VerifyIdx.tla: every car of <= MaxLen objects x header x single deviation of one index x tool; the one-pass verifier
with a running offset ends with the verdict VerifyIdxAbs defines (Sound), a deviation is reported by exactly the tools that
read the deviated index (Labelled), RunningOffset; negative control: the pass without the length comparison violates Sound.
R2 the 44 deviation classes (index x what x position class) printed by the same module.
R3 real archives, real `index all`, index files rebuilt with one deviation through the real index writers (sig-exists:
one stored hash patched in place; "foreign": the file of another archive), all six real verifier entry points.
R4 Trace_VerifyIdx recomputes every tool's verdict from what the deviated files answer (read back through the real readers)
and checks that the recorded content is the labelled deviation.
Verdict policy: nothing here is stated by C01, so a wrong verdict or a panic of a verifier is DRIFT (reported in the
evidence, exit code unaffected); a vacuous deviation is an engine fault (inconclusive)."""
from core import Inconclusive, sha

MC = "SPECIFICATION Spec\nCONSTANTS\n MaxLen = %d\n LenSet = {1, 2}\n HdrSet = {5, 6}\n CompareSize = %s\nINVARIANT Sound\nINVARIANT Labelled\nINVARIANT RunningOffset\nCHECK_DEADLOCK FALSE\n"
GEN = "SPECIFICATION Spec\nCONSTANTS\n MaxLen = 1\n LenSet = {1}\n HdrSet = {5}\n CompareSize = TRUE\nINVARIANT Emit\nCHECK_DEADLOCK FALSE\n"
MODS = ["VerifyIdxAbs", "VerifyIdx"]


def run_verifyidx(ctx, archives):
    q = ctx.quick
    ctx.r1_check(MODS, "VerifyIdx", MC % (3 if q else 4, "TRUE"), name="MC_VerifyIdx", timeout_s=2400)
    neg = ctx.r1_check(MODS, "VerifyIdx", MC % (2, "FALSE"), name="MC_VerifyIdx_neg", timeout_s=600, expect_violation=True)
    if not neg.violations:
        raise Inconclusive("negative control: VerifyIdx without the length comparison must violate Sound")
    classes = ctx.r2_generate(MODS, "VerifyIdx", GEN, name="Gen_VerifyIdx", workers=1, timeout_s=300)
    seen, uniq = set(), []
    for c in classes:
        k = sha(c)
        if k not in seen:
            seen.add(k)
            uniq.append(c)
    if len(uniq) < 40:
        raise Inconclusive(f"VerifyIdx: only {len(uniq)} deviation classes")
    cases = [{"arch": a["arch"][:1], "classes": uniq} for a in archives]
    casep = ctx.write_ndjson("verifyidx_cases.ndjson", cases)
    ov = ctx.overlay(main_files=["helpers_test.go", "arch_test.go", "verifyidx_test.go"])
    b = ctx.go_build(".", ov, name="main_verifyidx")
    obs = ctx.go_run(b, "^TestVerifVerifyIdx$", cases=casep, out="verifyidx_obs.ndjson", timeout_s=3000)
    judged = [o for o in obs if not o["inconclusive"]]
    if len(judged) < len(obs) * 0.8 or not judged:
        bad = [o["inconclusive"] for o in obs if o["inconclusive"]]
        raise Inconclusive(f"VerifyIdx: {len(obs) - len(judged)} of {len(obs)} runs could not be set up: {bad[:1]}")
    rejected = ctx.r4_judge(["VerifyIdxAbs", "Trace_VerifyIdx"], "Trace_VerifyIdx", judged, chunk=400, timeout_s=2400)
    drift = []
    for o in judged:
        ctx.count(sha(["verifyidx", o["case"], o["dev"]["index"], o["dev"]["what"], o["pos"]]), o["dev"]["what"] not in ("none", "extra"))
    for i in rejected:
        o = judged[i]
        why = ctx.reject_detail.get(i, "")
        line = f"archive {o['case']} ({len(o['car'])} objects), {o['dev']['index']} {o['dev']['what']} at object {o['dev']['at']} ({o['pos']}): verdicts {o['verdicts']} {o['panic']}"[:300]
        if "vacuous" in why:
            raise Inconclusive("VerifyIdx: the recorded index content is not the labelled deviation: " + line)
        ctx.drift += 1
        drift.append(why + ": " + line)
    ctx.extra["verifyidx"] = {"archives": len(cases), "classes": len(uniq), "runs": len(judged), "tools_per_run": 6, "drift": drift[:20]}
