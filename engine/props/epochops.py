"""Growth attached to C09 (engine "epochset"): the sequential meaning of MultiEpoch's mutable epoch set and of the
--watch reload handler (EpochOps.tla).
R1: the handler transcription converges to the set of epochs the config files describe under the deployment assumption
(one config file per epoch, a file keeps its epoch number; 775 857 distinct states for 2 epochs x 2 files x 2 versions x
8 steps), never serves a closed Epoch object and never serves an object under another epoch's number; without the
assumption convergence fails (design observation, DESIGN.md 11.7).
R2 -> R3 -> R4: TLC-simulated sequences of file-system steps and MultiEpoch methods are executed on the real MultiEpoch
(real config files, Epoch objects with close tracking) and every reply / epoch list / closed set is validated by TLC
against the model (Trace_EpochOps, true trace validation with ENABLED-based skip).
Verdict policy: only what C09 states is a violation - an operation that panics or does not return within 5 s, or an epoch list that is not duplicate-free
and sorted newest first; any other deviation from the model is DRIFT (reported, exit code unaffected)."""
from core import Inconclusive, sha

CONST = "CONSTANTS\n Epochs = {%s}\n Files = {%s}\n Versions = {1, 2}\n MaxOps = %d\n MaxObjs = %d\n WithHandler = %s\n"


def run_epochops(ctx, q):
    two = ("1, 2", '"a", "b"')
    ctx.r1_check(["EpochOps"], "EpochOps", "SPECIFICATION Spec\n" + CONST % (two + ((7 if q else 8), 5, "TRUE")) +
                 "CONSTRAINT OneFilePerEpoch\nCONSTRAINT StableEpochs\nINVARIANT ServedNotClosed\nINVARIANT ServedRightEpoch\nINVARIANT WatchConverges\nCHECK_DEADLOCK FALSE\n",
                 name="MC_EpochOps_watch", timeout_s=1800)
    neg = ctx.r1_check(["EpochOps"], "EpochOps", "SPECIFICATION Spec\n" + CONST % (two + (6, 4, "TRUE")) +
                       "INVARIANT WatchConverges\nCHECK_DEADLOCK FALSE\n", name="MC_EpochOps_watch_unrestricted", timeout_s=600, expect_violation=True)
    ctx.extra["watch_design_observation"] = ("without the one-file-per-epoch / stable-epoch-number assumption the reload handler does not converge to the epochs the files describe "
                                             "(TLC counterexample: a config file whose epoch number is edited keeps the old epoch served)" if neg.violations else "unrestricted convergence held in the bounded model")
    three = ("1, 2, 3", '"a", "b", "c"')
    cases = ctx.r2_generate(["EpochOps"], "EpochOps", "SPECIFICATION Spec\n" + CONST % (three + (14, 6, "FALSE")) + "INVARIANT ServedRightEpoch\nINVARIANT Emit\nCHECK_DEADLOCK FALSE\n",
                            name="Gen_EpochOps", simulate=(400 if q else 12000), depth=16, timeout_s=900, workers=1)
    seen, uniq = set(), []
    for c in cases:
        k = sha([[o["op"], o["args"]] for o in c["ops"]])
        if k not in seen:
            seen.add(k)
            uniq.append(c)
    uniq = uniq[:(400 if q else 12000)]
    if len(uniq) < 50:
        raise Inconclusive(f"EpochOps: only {len(uniq)} simulated sequences")
    casep = ctx.write_ndjson("epochops_cases.ndjson", uniq)
    ov = ctx.overlay(main_files=["helpers_test.go", "epochops_test.go"])
    b = ctx.go_build(".", ov, name="main_epochops")
    obs = ctx.go_run(b, "^TestVerifEpochOps$", cases=casep, out="epochops_obs.ndjson", timeout_s=1200)
    cfg = "SPECIFICATION TSpec\n" + CONST % (three + (1000, 1000, "FALSE")) + "CONSTRAINT HW\nPOSTCONDITION Done\nCHECK_DEADLOCK FALSE\n"
    # (a panic / hang text in place of an integer reply would be a type error in the judge: it gets an integer no step produces)
    jobs = [dict(o, reply=-99) if o["op"] in ("new", "removeByFile") and isinstance(o["reply"], str) else o for o in obs]
    rejected = ctx.r4_judge(["EpochOps", "Trace_EpochOps"], "Trace_EpochOps", jobs, cfg_text=cfg, chunk=10 ** 9, timeout_s=2400)
    for o in obs:
        if o["op"] != "reset":
            ctx.count(sha([o["op"], o["args"], o["numbers"], o["closed"]]), o["op"] not in ("has", "hasSameHash"))
    # a served Epoch object that has been closed cannot answer a query as on an idle server (EpochOps.ServedNotClosed on the
    # real code), whatever else the trace validation says about the step
    seen_closed = set()
    for i, o in enumerate(obs):
        both = sorted(set(o.get("served", [])) & set(o["closed"]) - {0})
        if both and (o["op"], tuple(both)) not in seen_closed:
            seen_closed.add((o["op"], tuple(both)))
            if len(seen_closed) <= 5:
                ctx.violation({"op": "epochops", "what": "closed object served"},
                              f"sequential replay on the real MultiEpoch: after {o['op']}{o['args']} (reply {o['reply']}) the epoch set serves object(s) {both} that have been closed "
                              f"(epochs {o['numbers']} <- objects {o['served']}, closed {o['closed']})", obs=o)
    for i in rejected:
        o = obs[i]
        nums = o["numbers"]
        bad_list = any(nums[k] <= nums[k + 1] for k in range(len(nums) - 1))
        panicked = isinstance(o["reply"], str) and (o["reply"].startswith("panic") or o["reply"] == "hang")
        if bad_list or panicked:
            ctx.violation({"op": "epochops", "what": ("hang" if o["reply"] == "hang" else "panic") if panicked else "epoch list"},
                          f"sequential replay on the real MultiEpoch: {o['op']}{o['args']} -> reply {o['reply']}, epoch list {nums}", obs=o)
        else:
            ctx.drift += 1
            ctx.extra.setdefault("epochops_drift", []).append(f"{o['op']}{o['args']} -> reply {o['reply']}, epochs {nums}, closed {o['closed']}"[:200])
    ctx.extra["epochops_sequences"] = len(uniq)
