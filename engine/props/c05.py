"""C05 - signature-existence index has no false negatives.
R1 SigExists.tla (dedupe, sort, eytzinger, offsets; every assignment of hashes with repetition to prefixes) + MC_Eytz;
R3 real writer (one per process) with bucket populations 0..4097 (2^k-1, 2^k, 2^k+1), 16 001 / 40 000 next to a populated
prefix, duplicates, empty prefixes, random fill; current and deprecated formats; mmap Open and plain ReaderAt; independent
dump of the stored arrays; concurrent lookups; R4 Trace_SigExists."""
from core import Inconclusive, sha


def run(ctx):
    q = ctx.quick
    ctx.r1_check(["Util", "SigExists"], "SigExists",
                 "SPECIFICATION Spec\nCONSTANTS\n NPrefix = 2\n Hashes = {1,2,3,4%s}\n MaxPer = %d\nINVARIANT NoFalseNegative\nINVARIANT NoFalsePositive\nINVARIANT WriterAgrees\nINVARIANT Contiguous\n"
                 % ("", 3 if q else 4), name="MC_SigExists", timeout_s=3000)
    ctx.r1_check(["Util", "MC_Eytz"], "MC_Eytz", "SPECIFICATION Spec\nCONSTANT N = %d\nINVARIANT Correct\n" % (33 if q else 70), name="MC_Eytz", timeout_s=2400)
    ov = ctx.overlay(pkg_files={"bucketteer": ["c05_test.go"]})
    b = ctx.go_build("./bucketteer", ov, name="bk")
    obs = []
    for k in range(1 if q else 4):
        o = ctx.go_run(b, "^TestVerifC05$", env={"VERIF_SEED": str(ctx.seed * 100 + k)}, out=f"obs{k}.ndjson", timeout_s=3000)
        for x in o:
            x["run"] = k
        obs += o
    rejected = ctx.r4_judge(["Util", "Trace_SigExists"], "Trace_SigExists", obs, timeout_s=2400)
    for o in obs:
        for bk in o["buckets"]:
            ctx.count(sha([o["format"], o["reader"], o["run"], bk["prefix"], bk["pop"]]), bk["pop"] >= 2)
    for i in rejected:
        o = obs[i]
        bad = [b for b in o["buckets"] if not (b["found"] and b["writer"] and b["absentok"])][:3]
        n = len(o["buckets"])
        import math
        def eytz_ok(b):
            return True
        ctx.violation({"op": o["format"], "reader": o["reader"], "why": (o["err"] or ("concurrent" if not o["concurrent"] else "bucket"))[:30]},
                      f"sig-exists ({o['format']} format, reader {o['reader']}, {o['added']} signatures added): {o['err']} concurrent-lookups-ok={o['concurrent']}; "
                      f"buckets with a false negative / disagreement / unexplained positive: {[(b['prefix'], b['pop'], b['found'], b['writer'], b['absentok']) for b in bad]} (of {n} judged buckets; on-disk order also judged)",
                      obs={k: v for k, v in o.items() if k != "buckets"} | {"bad_buckets": bad})
    ctx.samples.append({"format": obs[0]["format"], "reader": obs[0]["reader"], "populations": sorted({b["pop"] for b in obs[0]["buckets"]})[:40]})
    ctx.assumptions += ["64-bit hashes are reported to the judge as order-preserving ranks inside their bucket", "xxhash is not modelled (abstract hashes in the model)"]
    return ctx.finish("model_checking", "distinct = (format, reader kind, run, prefix, population); non-trivial = bucket with >= 2 distinct hashes")
