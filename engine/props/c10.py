"""C10 - an epoch is served only from indexes built for that epoch and CAR.
R1+R2 EpochLoad.tla: the chain of kind / epoch / root checks over every configuration with <= 2 deviating roles x
config epoch x CAR (sound and complete w.r.t. the abstract consistency); every configuration is printed as a case;
R3 the real NewEpochFromConfig over files of three fixture epochs (incl. real gsfa directories), identity read-back and
CID fetches; R4 Trace_EpochLoad."""
from core import Inconclusive, sha

GSFA_FAST = [
    {"kind": "literal", "func": "NewGsfaWriter", "old": "1_000_000", "new": "4096"},
    {"kind": "binary", "func": "fullBufferWriter", "old": "1 * time.Second", "new": "5 * time.Millisecond"},
]


def gsfa_fast_overlay(ctx):
    """a copy of the current gsfa-write.go with the map capacities / poll interval shrunk (thresholds untouched),
    so that building an address index for a tiny fixture epoch takes milliseconds instead of ~9 s"""
    p, hits = ctx.rewrite("gsfa/gsfa-write.go", GSFA_FAST, "gsfa-write.fast.go")
    if p is None or len(hits) != len(GSFA_FAST) or not all(h > 0 for h in hits):
        ctx.assumptions.append("gsfa literal rewrite found no site: address indexes built with the unmodified writer (slower)")
        return {}
    return {"gsfa/gsfa-write.go": p}


def run(ctx):
    q = ctx.quick
    cfg = "SPECIFICATION Spec\nINVARIANT Sound\nINVARIANT Complete\nINVARIANT Emit\nCHECK_DEADLOCK FALSE\n"
    cases = ctx.r2_generate(["EpochLoadAbs", "EpochLoad"], "EpochLoad", cfg, name="MC_EpochLoad", timeout_s=1200)
    ctx.r1.append(ctx.r2[-1])
    if ctx.replay:
        cases = [ctx.replay["case"]]
    elif q:
        # quick: every single-mismatch configuration + a seeded sample of the pairs
        singles = [c for c in cases if c["mismatches"] <= 1]
        pairs = [c for c in cases if c["mismatches"] > 1]
        ctx.rng.shuffle(pairs)
        cases = singles + pairs[:450]
    casep = ctx.write_ndjson("cases.ndjson", cases)
    ov = ctx.overlay(main_files=["helpers_test.go", "arch_test.go", "c10_test.go"], replace=gsfa_fast_overlay(ctx))
    b = ctx.go_build(".", ov, name="main_c10")
    obs = ctx.go_run(b, "^TestVerifC10$", cases=casep, timeout_s=3400)
    remote_obs = [o for o in obs if o.get("remote")]
    obs = [o for o in obs if not o.get("remote")]
    if len(obs) != len(cases):
        raise Inconclusive(f"{len(obs)} observations for {len(cases)} configurations")
    if not ctx.replay:
        # the same configurations with other concrete epoch numbers behind the model's two epoch labels (incl. epoch 0)
        extra = [c for c in cases if c["mismatches"] <= (1 if q else 2)]
        extrap = ctx.write_ndjson("cases_extra.ndjson", extra)
        for k, (e1, e2) in enumerate([(0, 3), (700, 0)]):
            o2 = ctx.go_run(b, "^TestVerifC10$", cases=extrap, env={"VERIF_C10_E1": str(e1), "VERIF_C10_E2": str(e2)}, out=f"obs_e{k}.ndjson", timeout_s=3400)
            for o in o2:
                o["epochs"] = [e1, e2]
            obs += o2
            cases = cases + extra
    # the configurations with at most one deviating role again, index files opened over loopback HTTP mirrors
    obs += remote_obs
    cases = cases + [None] * len(remote_obs)
    rejected = ctx.r4_judge(["EpochLoadAbs", "Trace_EpochLoad"], "Trace_EpochLoad", obs, chunk=6000, timeout_s=3000,
                            cfg_text="SPECIFICATION TSpec\nCONSTRAINT HW\nPOSTCONDITION Done\nCHECK_DEADLOCK FALSE\n")
    for o in obs:
        ctx.count(sha([o.get("epochs"), o.get("remote"), o["cfgEpoch"], o["car"], o["assign"]]), o["mismatches"] >= 1)
        if o["consistent"] and o["outcome"] == "rejected":
            ctx.drift += 1
    for i in rejected:
        o = obs[i]
        dev = {r: f for r, f in o["assign"].items() if f != {"kind": r, "src": "A"}}
        sig = {"op": "load" if not o.get("remote") else "load-remote", "outcome": o["outcome"], "deviating": sorted(dev)}
        ctx.violation(sig, f"epoch labels -> {o.get('epochs', [1, 2])}: config epoch label {o['cfgEpoch']}, CAR {o['car']}, deviating files {dev}: outcome={o['outcome']} metaok={o['metaok']} "
                           f"fetch={sorted(set(o['fetch']))} {o['detail']}"[:700], case=cases[i], obs={k: v for k, v in o.items() if k != "fetch"})
    ctx.samples += [c for c in cases if c and c["mismatches"] == 2][:2]
    ctx.extra["loaded_ok"] = sum(1 for o in obs if o["outcome"] == "ok")
    ctx.extra["rejected"] = sum(1 for o in obs if o["outcome"] == "rejected")
    ctx.assumptions += ["current index formats only (the deprecated formats carry no identity fields to check)", "Filecoin (lassie) mode is not exercised"]
    return ctx.finish("model_checking", "distinct = configuration (config epoch, CAR, file per role); non-trivial = >= 1 mismatching field", exhaustive=not q)
