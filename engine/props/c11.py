"""C11 - fast IPLD node decoders agree with the schema-driven reference decoder.
R1+R2 LedgerCodec.tla: every node shape (7 kinds x every combination of present / null / omitted optional fields x list
length classes x nested frame shapes): the transcription of the positional decoder recovers the shape's presence flags
and rejects other kinds; every shape is a replay case; R3 seeded concrete values encoded by the reference encoder, decoded
by the fast and the schema-driven decoder; R4 Trace_LedgerCodec."""
from core import Inconclusive, sha


def run(ctx):
    q = ctx.quick
    cases = ctx.r2_generate(["LedgerCodec"], "LedgerCodec", "SPECIFICATION Spec\nINVARIANT AgreesOnPresence\nINVARIANT NoCrossKind\nINVARIANT Emit\n",
                            name="MC_LedgerCodec", timeout_s=2400, workers=8)
    ctx.r1.append(ctx.r2[-1])
    if ctx.replay:
        cases = [ctx.replay["case"]]
    elif q:
        tx = [c for c in cases if c["kind"] == "transaction"]
        other = [c for c in cases if c["kind"] != "transaction"]
        ctx.rng.shuffle(tx)
        cases = other + tx[:12000]
    casep = ctx.write_ndjson("cases.ndjson", cases)
    ov = ctx.overlay(pkg_files={"iplddecoders": ["c11_test.go"]})
    b = ctx.go_build("./iplddecoders", ov, name="dec")
    obs = ctx.go_run(b, "^TestVerifC11$", cases=casep, cwd=None, timeout_s=3400, env={})
    rejected = ctx.r4_judge(["Trace_LedgerCodec"], "Trace_LedgerCodec", obs, chunk=30000, timeout_s=3000)
    ninst = 0
    for o in obs:
        nondefault = any(o[f][k] != "present" for f in ("frame", "frame2") if isinstance(o.get(f), dict) for k in ("hash", "index", "total")) or o.get("nlist", 0) >= 2 or o.get("opt") != "present"
        ctx.count(sha([o["kind"], o.get("frame"), o.get("frame2"), o.get("opt"), o.get("nlist"), o["case"]]), bool(nondefault))
        ninst += len(o["instances"])
    ctx.evaluations = ninst
    for i in rejected:
        o = obs[i]
        bad = [x for x in o["instances"] if x["encoded"] and not (x["fastok"] and x["classicok"] and x["same"] and x["presence"] and not x["cross"])][:1]
        x = bad[0] if bad else {}
        why = ("cross-kind" if x.get("cross") else "reject" if not (x.get("fastok") and x.get("classicok")) else "values" if not x.get("same") else "presence")
        ctx.violation({"op": o["kind"].split(":")[0], "why": why},
                      f"{o['kind']} node, shape frame={o.get('frame')} frame2={o.get('frame2')} opt={o.get('opt')} nlist={o.get('nlist')}: fast decoder and reference decoder disagree ({why}): {x.get('detail', '')[:400]}",
                      case=cases[o["case"] - 1] if o["case"] > 0 and not ctx.replay else None, obs={k: v for k, v in o.items() if k != "instances"} | {"instance": x})
    ctx.samples += cases[:2]
    ctx.extra["instances_decoded"] = ninst
    ctx.extra["not_encodable"] = sum(1 for o in obs for x in o["instances"] if not x["encoded"])
    ctx.assumptions += ["agreement is defined on what the accessors expose (kind, fields, presence flags, link lists as sequences: absent = null = empty)",
                        "shapes are exhaustive; values inside a shape are seeded samples"]
    return ctx.finish("model_checking", "distinct = node shape (kind, optional-field states, list length classes, nested frame shapes); non-trivial = some optional field not present or a list of >= 2 elements", exhaustive=not q)
