"""C18 - parallel epoch search returns a hit whenever one exists.
R1 FirstSuccess.tla (PlusCal, all outcome vectors x limits x interleavings, safety + termination under fairness);
R2 Gen_FirstSuccess enumerates every (outcomes, limit, feasible completion order); R3 gated jobs on the real
FirstSuccess / JobGroup; R4 Trace_FirstSuccess judges each returned value against FirstSuccessAbs."""
from core import Inconclusive, sha

MC = """SPECIFICATION {spec}
CONSTANTS
  N = {n}
INVARIANT Sound
INVARIANT Complete
INVARIANT NoStuck
{prop}
CHECK_DEADLOCK FALSE
"""


def run(ctx):
    q = ctx.quick
    for n in ([1, 2, 3] if q else [1, 2, 3, 4, 5]):
        ctx.r1_check(["FirstSuccess"], "FirstSuccess", MC.format(spec="Spec", n=n, prop=""), name=f"MC_FS_N{n}", timeout_s=1800)
    # liveness: the call always returns (weak fairness on every process)
    ctx.r1_check(["FirstSuccess"], "FirstSuccess", MC.format(spec="FairSpec", n=2 if q else 3, prop="PROPERTY Returns"),
                 name="MC_FS_live", timeout_s=1800)
    maxn = 4 if q else 5
    if ctx.replay:
        cases = [ctx.replay["case"]]
    else:
        cases = ctx.r2_generate(["Gen_FirstSuccess"], "Gen_FirstSuccess",
                                f"SPECIFICATION Spec\nCONSTANT MaxN = {maxn}\nINVARIANT Emit\nCHECK_DEADLOCK FALSE\n", timeout_s=1800)
        ctx.rng.shuffle(cases)
    casep = ctx.write_ndjson("cases.ndjson", cases)
    ov = ctx.overlay(main_files=["helpers_test.go", "arch_test.go", "c10_test.go", "c18_test.go"])
    b = ctx.go_build(".", ov, name="main_c18")
    obs = ctx.go_run(b, "^TestVerifC18$", cases=casep, timeout_s=3000)
    if len(obs) != len(cases):
        raise Inconclusive(f"replayer returned {len(obs)} observations for {len(cases)} cases")
    if not ctx.replay:
        # free-running calls with simultaneous completions, and the real per-epoch search with failing sig-exists indexes
        obs += ctx.go_run(b, "^TestVerifC18Stress$", out="obs_stress.ndjson", timeout_s=3000)
        obs += ctx.go_run(b, "^TestVerifC18Search$", out="obs_search.ndjson", timeout_s=3000)
    rejected = ctx.r4_judge(["FirstSuccessAbs", "Trace_FirstSuccess"], "Trace_FirstSuccess", obs)
    for o in obs:
        mixed = len(set(o["outcome"])) > 1 and o["n"] >= 2
        ctx.count(sha([o["via"], o["n"], o["limit"], o["outcome"], o["order"]]), mixed)
        if o["notStarted"] or (o["kind"] == "ok" and not o["via"].startswith(("stress", "find")) and o["expect"] != o["val"]):
            ctx.drift += 1
    for i in rejected:
        o = obs[i]
        sig = {"op": o["via"], "kind": o["kind"], "n": o["n"] if not o["via"].startswith("stress") else 0, "limit": o["limit"] if not o["via"].startswith("stress") else 0}
        ctx.violation(sig, f"{o['via']}(n={o['n']}, limit={o['limit']}, outcomes={o['outcome']}, completion order={o['order']}) "
                           f"returned kind={o['kind']} val={o['val']} errjobs={o['errjobs']} {o['detail']}", case=cases[o["case"] - 1] if o["via"] in ("FirstSuccess", "JobGroup") else None, obs=o)
    ctx.samples += cases[:3]
    ctx.assumptions.append("the request context stays live (the property's proviso); jobs are gated closures, one per modelled worker")
    return ctx.finish("model_checking", "distinct = (entry point, n, limit, outcome vector, completion order); non-trivial = >= 2 jobs with mixed outcomes",
                      exhaustive=True)
