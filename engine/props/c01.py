"""C01 - every archived object, slot and signature resolves through the generated indexes.
R1 CarIndex.tla (build loop + serving, every layout x header size); R2 Gen_Ledger (-simulate archives);
R3 real CAR (reference encoder) -> real `index all` -> real Epoch, CAR served locally and over loopback HTTP;
R4 Trace_CarIndex judges every lookup against the ground truth written by the CAR builder."""
from core import Inconclusive, sha
from props.verifyidx import run_verifyidx

MC = "SPECIFICATION Spec\nCONSTANTS\n MaxLen = {n}\n BodySet = {{127, 128, 16384}}\n HdrSet = {{59, 60}}\nINVARIANT AllResolve\nINVARIANT RunningOffset\nCHECK_DEADLOCK FALSE\n"
GEN = """SPECIFICATION GSpec
CONSTANTS
  EpochLen = 432000
  EpochSet = {eps}
  MaxEpochs = {me}
  MaxBlocks = {mb}
  MaxEntries = 3
  MaxTxs = 3
  Accts = {{1, 2, 3}}
  MinEpochs = {mine}
  MinTx = {mintx}
INVARIANT Emit
CHECK_DEADLOCK FALSE
"""
LEDGER = ["Ledger", "Gen_Ledger"]


def gen_archives(ctx, n, name="Gen_Ledger", eps="{0, 1, 2, 5, 700}", me=3, mine=1, mintx=4, depth=90, mb=4):
    cases = ctx.r2_generate(LEDGER, "Gen_Ledger", GEN.format(eps=eps, me=me, mine=mine, mintx=mintx, mb=mb), name=name, simulate=n, depth=depth)
    seen, out = set(), []
    for c in cases:
        k = sha(c)
        if k not in seen:
            seen.add(k)
            out.append(c)
    return out


def run(ctx):
    q = ctx.quick
    ctx.r1_check(["Util", "CarIndexAbs", "CarIndex"], "CarIndex", MC.format(n=3 if q else 4), name="MC_CarIndex", timeout_s=3000)
    if ctx.replay:
        cases = [ctx.replay["case"]]
    else:
        cases = gen_archives(ctx, 6 if q else 60, mine=1, mintx=3) + gen_archives(ctx, 4 if q else 40, name="Gen_Ledger_2ep", mine=2, mintx=6)
    casep = ctx.write_ndjson("cases.ndjson", cases)
    ov = ctx.overlay(main_files=["helpers_test.go", "arch_test.go", "c01_test.go"])
    b = ctx.go_build(".", ov, name="main_c01")
    obs = ctx.go_run(b, "^TestVerifC01$", cases=casep, timeout_s=3400)
    incon = [o for o in obs if o["inconclusive"]]
    judged = [o for o in obs if not o["inconclusive"]]
    if not judged:
        raise Inconclusive("index generation failed for every generated CAR: " + incon[0]["inconclusive"][-400:])
    rejected = ctx.r4_judge(["Util", "CarIndexAbs", "Ledger", "Trace_CarIndex"], "Trace_CarIndex", judged, chunk=40, timeout_s=3000,
                            constants="CONSTANT EpochLen = 432000\n")
    for o in judged:
        nt = len(o["blocks"]) >= 1 and len(o["txs"]) >= 1 and len(o["widths"]) >= 2
        ctx.count(sha([o["via"], o["epoch"], o["note"]]) if len(o["secs"]) < 3000 else sha([o["via"], o["note"], len(o["secs"])]), nt)
    for i in rejected:
        o = judged[i]
        bad = [f for f in o["fetch"] if not f["same"] or f["err"]][:2] + [s for s in o["slots"] if s["err"]][:2] + [s for s in o["sigs"] if s["err"] or not s["exists"]][:2]
        why = o["err"] or f"lookups wrong, e.g. {bad}"
        small = {k: v for k, v in o.items() if k not in ("secs", "fetch", "slots", "sigs", "blocks", "txs", "epoch")}
        small["sections"] = len(o["secs"])
        case = cases[0] if ctx.replay else None
        ctx.violation({"op": "index-all", "via": o["via"], "note": o["note"]},
                      f"epoch {o['epoch']['epoch']} ({o['note']}, {len(o['secs'])} sections, CAR via {o['via']}): {why}"[:900], case=case, obs=small)
    if not ctx.replay:
        ctx.reject_detail = {}
        ctx.growth(run_verifyidx, cases[:(3 if q else 24)])
    ctx.samples += cases[:1]
    ctx.extra["epochs_indexed"] = len({(o["case"]) for o in obs})
    ctx.extra["index_generation_failed"] = [o["inconclusive"][-200:] for o in incon][:3]
    ctx.assumptions += ["well-formed CARs only (distinct CIDs / slots / first signatures, >= 1 block and >= 1 transaction per epoch)",
                        "an `index all` run that itself reports an error is not a violation of C01 as worded (counted, not judged)"]
    return ctx.finish("model_checking", "distinct = (serving path, abstract epoch); non-trivial = >= 1 block, >= 1 transaction and >= 2 different section-length varint widths")
