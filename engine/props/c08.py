"""C08 - no request can crash the server.
R1+R2 RpcGrammar.tla / GrpcGrammar.tla: the request grammar as a cross product of finite dimensions (totality of the
decision table; every class printed as a case); R3 every class concretised and sent to the real HTTP handler / gRPC
methods with 0, 1, 2 epochs loaded, in a child process (a panic in a spawned goroutine kills the process and is
attributed to the case in progress), with a canary request after each; R4 Trace_RpcGrammar judges totality."""
from core import Inconclusive, sha


def run(ctx):
    q = ctx.quick
    jcases = ctx.r2_generate(["RpcGrammar"], "RpcGrammar", "SPECIFICATION Spec\nINVARIANT Total\nINVARIANT Emit\nCHECK_DEADLOCK FALSE\n", name="MC_RpcGrammar", timeout_s=1200)
    ctx.r1.append(ctx.r2[-1])
    gcases = ctx.r2_generate(["GrpcGrammar"], "GrpcGrammar", "SPECIFICATION Spec\nINVARIANT Emit\nCHECK_DEADLOCK FALSE\n", name="MC_GrpcGrammar", timeout_s=1200)
    ctx.r1.append(ctx.r2[-1])
    if ctx.replay:
        cases = [ctx.replay["case"]]
    else:
        ctx.rng.shuffle(gcases)
        # StreamTransactions dominates the gRPC space: quick replays every other RPC class and a seeded sample of it
        other = [c for c in gcases if c["rpc"] != "StreamTransactions"]
        st = [c for c in gcases if c["rpc"] == "StreamTransactions"]
        cases = jcases + other + (st[:8000] if q else st)
    casep = ctx.write_ndjson("cases.ndjson", cases)
    from props.c10 import gsfa_fast_overlay
    ov = ctx.overlay(main_files=["helpers_test.go", "arch_test.go", "c10_test.go", "c08_test.go"], replace=gsfa_fast_overlay(ctx))
    b = ctx.go_build(".", ov, name="main_c08")
    obs = ctx.go_run(b, "^TestVerifC08$", cases=casep, timeout_s=3400)
    crashes = sum(1 for o in obs if o["outcome"] == "crash")
    if len(obs) < len(cases) and crashes < 25:
        raise Inconclusive(f"{len(obs)} observations for {len(cases)} request classes")
    if len(obs) < len(cases):
        ctx.extra["replay_truncated"] = f"the replay stopped after {crashes} process deaths; {len(obs)} of {len(cases)} classes were sent"
    rejected = ctx.r4_judge(["Trace_RpcGrammar"], "Trace_RpcGrammar", obs, chunk=30000, timeout_s=1800)
    for o in obs:
        ctx.count(sha([o["proto"], o["class"], o["epochs"]]), o["reached"])
        if o["expect"] == "handled" and o["outcome"] == "error" and o["epochs"] == 2 and False:
            ctx.drift += 1
    sites = {}
    for i in rejected:
        o = obs[i]
        site = o["site"] or "?"
        sites.setdefault((o["outcome"], site), []).append(o)
    for (outcome, site), lst in sorted(sites.items()):
        o = lst[0]
        ctx.violation({"op": o["proto"], "outcome": outcome, "site": site},
                      f"{o['proto']} request [{o['class']}] with {o['epochs']} epoch(s): {outcome} at {site} ({o['detail'][:160]}); canary answered={o['canary']}; {len(lst)} request classes hit this site",
                      case=cases[o["case"] - 1] if not ctx.replay else None, obs=o)
    ctx.samples += cases[:2] + [c for c in cases if c.get("kind") == "grpc"][:1]
    ctx.extra["json_rpc_classes"] = len(jcases)
    ctx.extra["grpc_classes_total"] = len(gcases)
    ctx.extra["requests_sent"] = len(obs)
    slow = {}
    for o in obs:
        k = o["class"].split(" ")[0] if o["proto"] == "grpc" else "http"
        slow[k] = slow.get(k, 0) + o.get("ms", 0)
    ctx.extra["time_ms_by_rpc"] = slow
    ctx.extra["outcomes"] = {k: sum(1 for o in obs if o["outcome"] == k) for k in sorted({o["outcome"] for o in obs})}
    ctx.assumptions += ["structured request shapes from the grammar only; unstructured byte mutation guided by coverage is outside this technique (DESIGN section 8)",
                        "requests reach the handler through an in-memory fasthttp context / direct gRPC method calls (no sockets)"]
    return ctx.finish("model_checking", "distinct = (protocol, request class, epochs loaded); non-trivial = passes the transport-level checks (reaches JSON-RPC dispatch or a gRPC method)", exhaustive=not q)
