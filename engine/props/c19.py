"""C19 - streaming a slot range returns exactly the archived items matching the filter.
R1 Stream.tla (slot loop with NotFound branch, filter predicate and its use, index path with per-account window queries,
buffer and ordered flush) over a model archive x every loaded set x ranges x filters x index on/off; negative
configurations (pinned predicate polarity / early return; per-account cap); R2 Gen_Ledger archives; R3 real
StreamBlocks / StreamTransactions with a recording server-stream, with and without the real address index;
R4 Trace_Stream judges every streamed sequence against StreamAbs."""
from core import Inconclusive, sha
from props.c01 import gen_archives
from props.c10 import gsfa_fast_overlay

MC = """SPECIFICATION Spec
CONSTANTS
  EpochLen = 10
  Arch <- MCArch
  LoadedSets <- MCLoaded
  Ranges <- MCRanges
  IncSets <- MCInc
  ExcSets <- MCExc
  ReqSets <- MCReq
  Cap = {cap}
  Grow = {grow}
  Pinned = {pinned}
INVARIANT Correct
INVARIANT QueriesBounded
INVARIANT BlocksCorrect
CHECK_DEADLOCK FALSE
"""
MODS = ["Ledger", "StreamAbs", "Stream", "MC_Stream"]
BATCH = 100   # per-account batch of the index-accelerated path (grpc-server.go `const batchSize = 100`)


def prep(c):
    """loaded accounts get their own ids (10 + id: never a static key) and transaction data stays in one frame"""
    for ep in c["arch"]:
        for b in ep["blocks"]:
            for e in b["entries"]:
                for t in e["txs"]:
                    t["loaded"] = [10 + x for x in t["loaded"]]
                    t["dframes"] = 1
    return c


def twin_epochs_case():
    """two consecutive epochs with the same shape (same block / transaction layout, same accounts, signature ids that differ
    by 100): their CARs place corresponding objects at the same offset with the same size, so an object location does not
    identify the epoch.  One block has block time 0 (early ledger history recorded none)."""
    arch = []
    for e, base in ((8, 100), (9, 200)):
        blocks = []
        slot, parent, sig = 432000 * e + 3, 432000 * e - 1, base
        for b in range(4):
            txs = []
            for k in range(3):
                sig += 1
                txs.append({"sig": sig, "accts": [1, 2 + k % 2], "loaded": [], "vote": k == 2 and b % 2 == 0, "failed": k == 1 and b == 1, "nometa": False,
                            "dframes": 1, "mframes": 1, "pad": 0, "mpad": 0})
            blocks.append({"slot": slot, "parent": parent, "blocktime": 0 if b == 2 else 1600000000 + b, "height": 1000 + b,
                           "entries": [{"txs": txs}], "rframes": 0})
            parent, slot = slot, slot + 2
        arch.append({"epoch": e, "blocks": blocks})
    return {"arch": arch}


def big_account_case(nblocks=6, epochs=(7,), mod=5):
    """epochs in which account 1 is mentioned by more transactions than the index path's first per-account query (100):
    mod 5: 20 per block (sub-ranges of 5 blocks hold exactly 100, of 10 blocks exactly 200, 11 blocks 220: two enlargements of the
    query); mod 4: 18 per block, so the 100th / 200th newest match lies inside a block (a limit boundary inside a slot)"""
    arch, sig = [], 0
    for ep in epochs:
        blocks = []
        slot = 432000 * ep + 2
        parent = 432000 * ep - 1
        for b in range(nblocks):
            txs = []
            for k in range(25):
                sig += 1
                txs.append({"sig": sig, "accts": [1] if k % mod else [2], "loaded": [], "vote": False, "failed": False, "nometa": False,
                            "dframes": 1, "mframes": 1, "pad": 0, "mpad": 0})
            blocks.append({"slot": slot, "parent": parent, "blocktime": 1600000000 + slot % 100000, "height": slot + 7, "entries": [{"txs": txs}], "rframes": 0})
            parent, slot = slot, slot + 2
        arch.append({"epoch": ep, "blocks": blocks})
    return {"arch": arch}


def run(ctx):
    q = ctx.quick
    ctx.r1_check(MODS, "MC_Stream", MC.format(cap=100, grow="TRUE", pinned="FALSE"), name="MC_Stream", timeout_s=1200)
    # first limit 1: every account with two or more matches goes through the enlargement loop (1, 2, 4, ...)
    ctx.r1_check(MODS, "MC_Stream", MC.format(cap=1, grow="TRUE", pinned="FALSE"), name="MC_Stream_enlarge", timeout_s=1200)
    if not q:
        neg = ctx.r1_check(MODS, "MC_Stream", MC.format(cap=100, grow="TRUE", pinned="TRUE"), name="MC_Stream_pinned_negative", expect_violation=True)
        neg2 = ctx.r1_check(MODS, "MC_Stream", MC.format(cap=1, grow="FALSE", pinned="FALSE"), name="MC_Stream_cap_negative", expect_violation=True)
        if "Correct" not in neg.violations or "Correct" not in neg2.violations:
            raise Inconclusive("negative configurations no longer violate Correct: vacuous model")
        ctx.extra["negative_configs"] = "pinned predicate use / early return violates Correct; a single per-account query (no enlargement) with a limit below the number of matches violates Correct"
    if ctx.replay:
        cases = [ctx.replay["case"]]
    else:
        cases = [prep(c) for c in gen_archives(ctx, 3 if q else 20, name="Gen_Ledger_stream", eps="{1, 2, 5}", me=2, mine=2, mintx=10, depth=160)]
        cases += [prep(c) for c in gen_archives(ctx, 2 if q else 10, name="Gen_Ledger_stream1", eps="{0, 3}", me=1, mine=1, mintx=8, depth=120)]
        cases.append(big_account_case())
        cases.append(big_account_case(11))
        cases.append(big_account_case(3, (7, 8)))
        cases.append(big_account_case(12, (7,), 4))
        cases.append(big_account_case(4, (7, 8), 4))
        cases.append(twin_epochs_case())
    casep = ctx.write_ndjson("cases.ndjson", cases)
    ov = ctx.overlay(main_files=["helpers_test.go", "arch_test.go", "c19_test.go"], replace=gsfa_fast_overlay(ctx))
    b = ctx.go_build(".", ov, name="main_c19")
    obs = ctx.go_run(b, "^TestVerifC19$", cases=casep, timeout_s=3400)
    # which observations exceed the per-account batch of the index path (needed to recognise the known finding)
    for o in obs:
        o["overcap"] = False
        if o["op"] == "txs" and o["index"] and "nil" not in o["f"] and o["f"]["inc"]:
            for a in o["f"]["inc"]:
                n = 0
                for ep in o["arch"]:
                    if ep["epoch"] not in o["loaded"]:
                        continue
                    for bl in ep["blocks"]:
                        if o["start"] <= bl["slot"] <= o["end"]:
                            n += sum(1 for e in bl["entries"] for t in e["txs"] if a in t["accts"] or a in t["loaded"])
                if n > BATCH:
                    o["overcap"] = True
    rejected = ctx.r4_judge(["Ledger", "StreamAbs", "Trace_Stream"], "Trace_Stream", obs, chunk=400, timeout_s=3000, constants="CONSTANT EpochLen = 432000\n")
    for o in obs:
        ctx.count(sha([o["case"], o["op"], o["start"], o["end"], o["f"], o["index"]]), len(o["result"]) > 0)
        if not o["fieldsok"]:
            ctx.drift += 1
    for i in rejected:
        o = obs[i]
        sig = {"op": "Stream" + ("Transactions" if o["op"] == "txs" else "Blocks"), "index": o["index"], "overcap": o["overcap"]}
        ctx.violation(sig, f"{sig['op']}(slots {o['start']}..{o['end']}, filter {o['f']}, address index {'loaded' if o['index'] else 'not loaded'}, epochs {o['loaded']}) "
                           f"streamed {o['result'][:30]}{'...' if len(o['result']) > 30 else ''} ({len(o['result'])} items, {o['markers']} empty markers) {o['err']}"[:800],
                      case=cases[o["case"] - 1] if not ctx.replay else None, obs={k: v for k, v in o.items() if k != "arch"})
    ctx.samples += [{"range": [o["start"], o["end"]], "filter": o["f"], "index": o["index"], "result": o["result"][:10]} for o in obs[:3]]
    ctx.extra["streams_judged"] = len(obs)
    ctx.extra["streams_beyond_first_index_query"] = sum(1 for o in obs if o["overcap"])
    ctx.extra["field_drift"] = "slot/index fields of streamed transactions differ from the archive in %d streams" % ctx.drift
    ctx.assumptions += ["filters always carry vote and failed (their absence is C08's domain)", "exclude / required accounts are drawn from accounts that never occur as address-table loaded accounts",
                        "messages without a transaction payload (the index path's empty marker) are not transactions", "the address index is loaded for all epochs or for none"]
    return ctx.finish("model_checking", "distinct = (archive, stream kind, range, filter, index on/off); non-trivial = a non-empty stream")
