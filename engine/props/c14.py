"""C14 - multi-frame payloads reassemble to the original bytes or are rejected.
R1+R2 DataFrames.tla (recursive collection, sort by index, count and checksum checks; every frame count x fan-out x
single fault is an initial state and a replay case); R3 real frames (reference encoder), seeded payloads up to 200 KiB,
CRC64 / FNV / no checksum, chain on the metadata or the transaction-data side, through tooling.LoadDataFromDataFrames,
storage.go, accum.ObjectsToTransactionsAndMetadata and the getBlock handlers (gRPC / JSON-RPC, rewards payload of a loaded
epoch with and without a missing frame), with a late-mutation check; R4 Trace_DataFrames."""
from core import Inconclusive, sha


def run(ctx):
    q = ctx.quick
    cfg = "SPECIFICATION Spec\nCONSTANTS\n MaxN = %d\n MaxFan = %d\nINVARIANT NoFaultOk\nINVARIANT NeverWrong\nINVARIANT FaultDetected\nINVARIANT Emit\n"
    cases = ctx.r2_generate(["DataFrames"], "DataFrames", cfg % ((6, 3) if q else (8, 4)), name="MC_DataFrames", timeout_s=2400)
    ctx.r1.append(ctx.r2[-1])
    if ctx.replay:
        cases = [ctx.replay["case"]]
    else:
        # larger frame counts / fan-outs of the property's quantifier (1..60 frames, fan-out 1..10), seeded faults
        for k in range(60 if q else 3000):
            n = ctx.rng.choice([1, 2, 3, 5, 9, 10, 11, 17, 30, 59, 60])
            fan = ctx.rng.randint(1, 10)
            kind = ctx.rng.choice(["none", "drop", "flip", "swap", "dup", "renumber"])
            i = ctx.rng.randint(0 if kind in ("flip", "swap") else 1, max(n - 1, 1)) if n > 1 else 0
            j = ctx.rng.randint(1, max(n - 1, 1))
            if n == 1 and kind in ("drop", "dup", "renumber"):
                kind = "flip"
            if kind == "renumber" and (i == j or n < 3):
                kind = "none"
            if kind == "none":
                i = j = 0
            if kind != "renumber":
                j = 0
            cases.append({"n": n, "fan": fan, "fault": {"kind": kind, "i": min(i, n - 1), "j": min(j, n - 1)}})
    if not ctx.replay:
        # directed: deep chains and wide trees at the ends of the property's ranges (1..60 frames, fan-out 1..10)
        for n in (31, 32, 33, 34, 35, 59, 60):
            for fan in (1, 2, 10):
                cases.append({"n": n, "fan": fan, "fault": {"kind": "none", "i": 0, "j": 0}})
                cases.append({"n": n, "fan": fan, "fault": {"kind": "drop", "i": n - 1, "j": 0}})
    casep = ctx.write_ndjson("cases.ndjson", cases)
    ov = ctx.overlay(main_files=["helpers_test.go", "c14_test.go"])
    b = ctx.go_build(".", ov, name="main_c14")
    obs = ctx.go_run(b, "^TestVerifC14$", cases=casep, timeout_s=3000)
    if not ctx.replay:
        # the rewards payload through the real getBlock handlers of a loaded epoch (complete payloads and payloads missing a frame)
        obs += ctx.go_run(b, "^TestVerifC14Server$", out="obs_server.ndjson", timeout_s=900)
        # several goroutines reassembling different intact payloads at once
        obs += ctx.go_run(b, "^TestVerifC14Concurrent$", out="obs_conc.ndjson", timeout_s=900)
    rejected = ctx.r4_judge(["Trace_DataFrames"], "Trace_DataFrames", obs, chunk=20000, timeout_s=2400)
    for o in obs:
        ctx.count(sha([o["n"], o["fan"], o["fault"], o["checksum"], o["side"], o["via"], o["size"] > 1000]), o["n"] >= 2)
    for i in rejected:
        o = obs[i]
        ctx.violation({"op": o["via"], "fault": o["fault"]["kind"], "outcome": "late" if o["late"] else o["outcome"], "single": o["n"] == 1},
                      f"{o['via']}: payload of {o['size']} bytes in {o['n']} frame(s) (fan-out {o['fan']}, checksum {o['checksum']}, chain on the {o['side']} side), fault {o['fault']}: "
                      f"outcome={o['outcome']} late-mutation={o['late']} {o['detail']}", case=cases[o["case"] - 1] if not ctx.replay else None, obs=o)
    ctx.samples += cases[:2]
    ctx.extra["outcomes"] = {k: sum(1 for o in obs if o["outcome"] == k) for k in sorted({o["outcome"] for o in obs})}
    ctx.assumptions += ["the checksum is idealised as injective in the model", "legacy frames without checksum / total are only required to reassemble when nothing is faulted"]
    return ctx.finish("model_checking", "distinct = (frames, fan-out, fault, checksum kind, side, entry point, size class); non-trivial = >= 2 frames")
