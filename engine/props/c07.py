"""C07 - getSignaturesForAddress paging slices the newest-first history correctly.
R1 GsfaPaging.tla (transcription of iterBeforeUntil + response assembly; negative config = map-order assembly of the
pinned tree) and GsfaSlotWindow.tla (transcription of iterBeforeUntilSlot; negative config = no `before` comparison);
both enumerate their initial states as replay cases (R2); R3 the real multi-epoch reader over directories written with
the real record writer, and the real JSON-RPC handler over real CAR + `index gsfa` epochs; R4 Trace_GsfaPaging."""
from core import Inconclusive, sha
from props.c01 import gen_archives
from props.c06 import RULES as GSFA_SHRINK

PAGE = "SPECIFICATION Spec\nCONSTANTS\n MaxPerEpoch = {m}\n NEpochs = {n}\n MapOrder = {mo}\nINVARIANT Correct\nINVARIANT ResponseOrdered\nINVARIANT Emit\nCHECK_DEADLOCK FALSE\n"
WIN = "SPECIFICATION Spec\nCONSTANTS\n L = 3\n MaxPerEpoch = {m}\n CheckBefore = {cb}\nINVARIANT Sound\nINVARIANT Exact\nINVARIANT Emit\nCHECK_DEADLOCK FALSE\n"


def busy_slots_case():
    """three epochs in which account 1 has several transactions in the same slot and more than a dozen entries per epoch:
    the order inside a slot is part of the newest-first order, and long responses leave the small-input regime of sorts"""
    arch, sig = [], 0
    for e in (3, 4, 6):
        blocks, slot, parent = [], 432000 * e + 7, 432000 * e - 1
        for b in range(4):
            txs = []
            for k in range(5):
                sig += 1
                txs.append({"sig": sig, "accts": [1, 2] if k % 4 else [2, 3], "loaded": [], "vote": False, "failed": False, "nometa": False,
                            "dframes": 1, "mframes": 1, "pad": 0, "mpad": 0})
            blocks.append({"slot": slot, "parent": parent, "blocktime": 1600000000 + b, "height": 50 + b, "entries": [{"txs": txs[:3]}, {"txs": txs[3:]}], "rframes": 0})
            parent, slot = slot, slot + 3
        arch.append({"epoch": e, "blocks": blocks})
    return {"arch": arch}


def run(ctx):
    q = ctx.quick
    pm = ["GsfaPagingAbs", "GsfaPaging"]
    wm = ["GsfaPagingAbs", "GsfaSlotWindow"]
    page_cases = ctx.r2_generate(pm, "GsfaPaging", PAGE.format(m=2 if q else 3, n=2, mo="FALSE"), name="MC_GsfaPaging_2ep", timeout_s=3000)
    ctx.r1.append(ctx.r2[-1])
    page3 = ctx.r2_generate(pm, "GsfaPaging", PAGE.format(m=1 if q else 3, n=3, mo="FALSE"), name="MC_GsfaPaging_3ep", timeout_s=3400, workers=16)
    ctx.r1.append(ctx.r2[-1])
    win_cases = ctx.r2_generate(wm, "GsfaSlotWindow", WIN.format(m=2, cb="TRUE"), name="MC_GsfaSlotWindow", timeout_s=3000)
    ctx.r1.append(ctx.r2[-1])
    if not q:
        neg = ctx.r1_check(pm, "GsfaPaging", PAGE.format(m=2, n=2, mo="TRUE").replace("INVARIANT Emit\n", ""), name="MC_GsfaPaging_maporder_negative", expect_violation=True)
        neg2 = ctx.r1_check(wm, "GsfaSlotWindow", WIN.format(m=2, cb="FALSE").replace("INVARIANT Emit\n", ""), name="MC_GsfaSlotWindow_nocheck_negative", expect_violation=True)
        if "ResponseOrdered" not in neg.violations or "Sound" not in neg2.violations:
            raise Inconclusive("negative configurations no longer violate their invariants: vacuous model")
        ctx.extra["negative_configs"] = "map-order assembly violates ResponseOrdered; iterating without the `before` comparison violates Sound - as expected"
    if ctx.replay and ctx.replay.get("case"):
        rc = ctx.replay["case"]
        page_cases, page3, win_cases, arch_cases = ([rc] if "sizes" in rc else []), [], ([rc] if rc.get("kind") == "window" else []), ([rc] if "arch" in rc else [])
    else:
        # group the window cases by history (one set of index directories per history)
        groups = {}
        for c in win_cases:
            groups.setdefault(sha(c["hist"]), []).append(c)
        keys = sorted(groups)
        ctx.rng.shuffle(keys)
        if q:
            keys = keys[:24]
        win_cases = [c for k in keys for c in groups[k]]
        arch_cases = gen_archives(ctx, 3 if q else 20, name="Gen_Ledger_gsfa", eps="{1, 2, 5}", me=3, mine=2, mintx=8, depth=150)
        arch_cases.append(busy_slots_case())
    reader_cases = page_cases + page3 + win_cases
    obs = []
    if reader_cases:
        casep = ctx.write_ndjson("cases.ndjson", reader_cases)
        from props.c10 import gsfa_fast_overlay
        ov = ctx.overlay(pkg_files={"gsfa": ["replay_test.go", "c07_test.go"]}, replace=gsfa_fast_overlay(ctx))
        b = ctx.go_build("./gsfa", ov, name="gsfa_c07")
        obs += ctx.go_run(b, "^TestVerifC07Reader$", cases=casep, out="obs_reader.ndjson", timeout_s=3400)
        if len(obs) != len(reader_cases):
            raise Inconclusive(f"{len(obs)} observations for {len(reader_cases)} reader cases")
    # handler level: real epochs; the address index is built by the real command with the batch size shrunk to 2
    if arch_cases:
        shrunk, hits = ctx.rewrite("gsfa/gsfa-write.go", GSFA_SHRINK, "gsfa-write.shrunk.go")
        rep = {"gsfa/gsfa-write.go": shrunk} if shrunk and all(h > 0 for h in hits) else {}
        if not rep:
            ctx.assumptions.append("literal rewrite found no site: handler-level histories are single-record")
        archp = ctx.write_ndjson("arch.ndjson", arch_cases)
        ov2 = ctx.overlay(main_files=["helpers_test.go", "arch_test.go", "rpc_test.go", "c07_test.go", "c10_test.go"], replace=rep)
        bm = ctx.go_build(".", ov2, name="main_c07")
        hobs = ctx.go_run(bm, "^TestVerifC07Handler$", cases=archp, out="obs_handler.ndjson", timeout_s=3400)
        obs += hobs
    rejected = ctx.r4_judge(["GsfaPagingAbs", "Trace_GsfaPaging"], "Trace_GsfaPaging", obs, chunk=20000, timeout_s=3000)
    for o in obs:
        h = o["hist"] if o["kind"] != "window" else o["whist"]
        ctx.count(sha([o["kind"], h, o["limit"], o["before"], o["until"], o.get("acct"), o.get("case")]), o["multi"] or o.get("alias", False))
    for i in rejected:
        o = obs[i]
        if o["kind"] == "window":
            sig = {"op": "GetBeforeUntilSlot", "why": (o["err"] or "out-of-window or invented entry")[:40]}
            what = f"GetBeforeUntilSlot(limit={o['limit']}, before={o['before']}, until={o['until']}) over {o['whist']} returned {o['wresult']} {o['err']}"
        elif o["kind"] == "page":
            sig = {"op": "GetBeforeUntil", "why": (o["err"] or "wrong page")[:40]}
            what = f"GetBeforeUntil(limit={o['limit']}, before={o['before']}, until={o['until']}) over {o['hist']} returned {o['result']} {o['err']}"
        else:
            sig = {"op": "getSignaturesForAddress", "why": (o["err"] or ("alias" if o["alias"] else "wrong page / order"))[:40], "alias": o["alias"]}
            what = (f"getSignaturesForAddress(account {o['acct']}, limit={o['limit']}, before={o['before']}, until={o['until']}) with epochs {o['loaded']}: "
                    f"history {o['hist']} -> response {o['result']} {o['err']}")
        case = None
        if o["kind"] == "json" and not ctx.replay:
            case = arch_cases[o["case"] - 1]
        elif not ctx.replay and i < len(reader_cases):
            case = reader_cases[i]
        ctx.violation(sig, what[:800], case=case, obs=o)
    ctx.samples += page_cases[:1] + win_cases[:1]
    ctx.extra["reader_cases"] = len(reader_cases)
    ctx.extra["handler_requests"] = sum(1 for o in obs if o["kind"] == "json")
    ctx.extra["aliasing_addresses_requested"] = sum(1 for o in obs if o.get("alias"))
    ctx.assumptions += ["`before` that is not part of the history yields an empty page; `until` that is not part of it is ignored",
                        "slot-window results are judged for soundness (inside the window, history order, <= limit); exactness is C19's"]
    return ctx.finish("model_checking", "distinct = (kind, history, limit, before, until); non-trivial = >= 2 epochs contribute (or an aliasing absent address)", exhaustive=not q)
