#!/bin/bash
# usage: engine/try_mutant_wt.sh <seeded name> [tier]   - like try_mutant.sh, but against a scratch git worktree of /repo's HEAD
# with the seeded change applied (VERIF_REPO), so that /repo itself is not touched and several experiments can run at once.
# Outputs (evidence, replay files) go to a scratch directory. Records nothing; prints the verdict lines.
N=$1; TIER=${2:-quick}
D=/verif/seeded/$N
WT=$(mktemp -d /tmp/mutwt-$N.XXXX); rmdir $WT
git -C /repo worktree add --detach $WT HEAD >/dev/null 2>&1 || { echo "$N: worktree failed"; exit 3; }
OUT=$(mktemp -d /tmp/mutout-$N.XXXX)
cd $WT && git apply $D/patch.diff || { echo "$N: patch does not apply"; git -C /repo worktree remove --force $WT; exit 3; }
cd /verif
for prop in $(jq -r .property $D/meta.json | tr ',' ' '); do
  VERIF_REPO=$WT VERIF_OUT_DIR=$OUT python3 engine/check.py $prop --tier $TIER > $OUT/$prop.log 2>&1
  echo "$N [$prop]: $(grep -E '^(OK|FAIL|INCONCLUSIVE)' $OUT/$prop.log | tail -1 | cut -c1-140)"
  grep -A1 "^VIOLATION" $OUT/$prop.log | grep "what:" | head -1 | cut -c1-260
done
git -C /repo worktree remove --force $WT >/dev/null 2>&1
rm -rf $OUT
