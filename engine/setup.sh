#!/bin/bash
# MANIFEST.setup_cmd: build the framework from files on disk only (offline).
set -e
cd "$(dirname "$0")/.."
export GOFLAGS=-mod=mod GOPROXY=off GOSUMDB=off GOTOOLCHAIN=local
(cd harness/rewrite && GOFLAGS= go build -o rewrite . )
# parse every specification module
tmp=$(mktemp -d)
cp spec/*.tla "$tmp"/
fail=0
for f in "$tmp"/*.tla; do
  if ! (cd "$tmp" && tla-sany "$(basename "$f")" > "$tmp/sany.log" 2>&1); then
    if grep -qiE "error|abort" "$tmp/sany.log"; then echo "SANY FAILED: $f"; tail -5 "$tmp/sany.log"; fail=1; fi
  fi
done
rm -rf "$tmp"
# warm the Go build cache for the harness packages (errors here are reported by the checks themselves)
python3 engine/warm.py || true
mkdir -p evidence
exit $fail
