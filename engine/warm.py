#!/usr/bin/env python3
"""Warm the Go build cache: compile the test binaries of the packages the checks inject into."""
import os, sys
sys.path.insert(0, os.path.dirname(os.path.abspath(__file__)))
import core
ctx = core.Ctx("warm", "quick", 1)
try:
    import glob
    mains = sorted(os.path.basename(f) for f in glob.glob(os.path.join(core.HARNESS, "main", "*.go")))
    pk = {}
    for d, _, files in os.walk(os.path.join(core.HARNESS, "pkg")):
        gos = sorted(f for f in files if f.endswith(".go"))
        if gos:
            pk[os.path.relpath(d, os.path.join(core.HARNESS, "pkg"))] = gos
    ov = ctx.overlay(main_files=mains, pkg_files=pk)
    for pkg in (["."] if mains else []) + ["./" + d for d in pk]:
        try:
            ctx.go_build(pkg, ov, name="warm")
        except core.Inconclusive as e:
            print("warm: build problem in", pkg, str(e)[:300])
finally:
    ctx.cleanup()
