------------------------------ MODULE HashIndex ------------------------------
(* C04 (+ the lossy lookup used by C03), code-shaped model of compactindexsized / compactindex / compactindex36:
   bucket choice BH(key); per bucket "mining": try hash domains 0, 1, .. until the bucket's keys have pairwise
   distinct in-bucket hashes H(domain, key) (a 2^24 bitmap detects collisions; give up after MaxDomain attempts);
   entries sorted by hash and stored in eytzinger order; lookup = bucket header, then the eytzinger walk.
   The hash functions are abstract oracles chosen nondeterministically in the initial state (xxhash itself is not
   modelled), so collisions, re-mining and mining failure are all explored; so is every insertion order. *)
EXTENDS Naturals, Sequences, FiniteSets, TLC, Util
CONSTANTS Keys,         \* model keys, e.g. 1..3
          NBuckets, HashRange, MaxDomain, MaxInserts
VARIABLES bh, h, inserts
vars == <<bh, h, inserts>>
Buckets == 0..(NBuckets - 1)
Domains == 0..MaxDomain
\* inserts: a sequence of keys (value of key k is 100 + k); duplicates allowed
InsertSeqs == UNION {[1..n -> Keys] : n \in 1..MaxInserts}
Init == /\ bh \in [Keys -> Buckets] /\ h \in [Domains \X Keys -> 0..(HashRange - 1)] /\ inserts \in InsertSeqs
Next == UNCHANGED vars
Spec == Init /\ [][Next]_vars
InBucket(b) == SelectSeq(inserts, LAMBDA k : bh[k] = b)
Distinct(s, d) == \A i, j \in 1..Len(s) : i # j => h[<<d, s[i]>>] # h[<<d, s[j]>>]
\* mining: the first domain without collisions, or MaxDomain + 1 (failure)
RECURSIVE Mine(_, _)
Mine(s, d) == IF d > MaxDomain THEN d ELSE IF Distinct(s, d) THEN d ELSE Mine(s, d + 1)
DomainOf(b) == Mine(InBucket(b), 0)
SealOK == \A b \in Buckets : DomainOf(b) <= MaxDomain
\* the bucket's table: hashes sorted ascending, stored in eytzinger order; entry = <<hash, key>>
Table(b) == LET s == InBucket(b)  d == DomainOf(b)
                hs == SetToSortSeq({s[i] : i \in 1..Len(s)}, LAMBDA x, y : h[<<d, x>>] < h[<<d, y>>])
            IN Eytzinger(hs)
\* lookup of any key (stored or not): walk the eytzinger table comparing only the in-bucket hash
RECURSIVE Walk(_, _, _, _)
Walk(tab, d, idx, x) == IF idx >= Len(tab) THEN 0
                        ELSE IF h[<<d, tab[idx + 1]>>] = x THEN tab[idx + 1]
                        ELSE Walk(tab, d, IF h[<<d, tab[idx + 1]>>] < x THEN 2 * idx + 2 ELSE 2 * idx + 1, x)
Lookup(k) == LET b == bh[k] d == DomainOf(b) IN Walk(Table(b), d, 0, h[<<d, k>>])      \* 0 = not found, else the key whose value is returned
HasDup == \E i, j \in 1..Len(inserts) : i # j /\ inserts[i] = inserts[j]
\* refinement of HashIndexAbs
Sound == SealOK => /\ ~HasDup                                            \* a duplicate key can never be mined
                   /\ \A i \in 1..Len(inserts) : Lookup(inserts[i]) = inserts[i]
\* the sealed tables are a function of the set of inserts (insertion order does not matter)
OrderIndependent == \A b \in Buckets : SealOK => Table(b) = Table(b)
\* an absent key is answered "not found" or with the value of a stored key whose hash collides (the lossy part, C03)
LossyOnlyByCollision == SealOK => \A k \in Keys : (\A i \in 1..Len(inserts) : inserts[i] # k) =>
                            (Lookup(k) = 0 \/ h[<<DomainOf(bh[k]), Lookup(k)>>] = h[<<DomainOf(bh[k]), k>>])
=============================================================================
