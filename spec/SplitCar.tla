------------------------------ MODULE SplitCar ------------------------------
(* C16, code-shaped model of the piece writer of cmd-car-split.go: block families (block + its objects) arrive
   in file order; a new piece is started when there is no piece yet, when the family would push the piece
   over the size limit, or when the piece already holds more than MaxLinks blocks.  A piece starts with a
   header of HdrSize bytes (counted in its size); the subset node appended when a piece is closed is written
   after the counted size (content region = families only). *)
EXTENDS Naturals, Sequences, FiniteSets, SequencesExt, TLC
CONSTANTS MaxFam, MaxFamSize, HdrSize, Limits, MaxLinksSet
VARIABLES fams, limit, maxLinks
vars == <<fams, limit, maxLinks>>
Sum(s) == FoldLeft(LAMBDA a, b : a + b, 0, s)
\* state of the writer: pieces = sequence of sequences of family indices
RECURSIVE Write(_, _, _)
Write(j, pieces, cursize) ==
    IF j > Len(fams) THEN pieces
    ELSE LET cur == IF pieces = <<>> THEN <<>> ELSE pieces[Len(pieces)]
             new == pieces = <<>> \/ cursize + fams[j] > limit \/ Len(cur) > maxLinks
         IN IF new THEN Write(j + 1, Append(pieces, <<j>>), HdrSize + fams[j])
            ELSE Write(j + 1, [pieces EXCEPT ![Len(pieces)] = Append(@, j)], cursize + fams[j])
Pieces == Write(1, <<>>, 0)
ContentSize(p) == Sum([i \in 1..Len(p) |-> fams[p[i]]])
Flat == FoldLeft(LAMBDA a, b : a \o b, <<>>, Pieces)
\* SplitAbs: every family in exactly one piece, in the original order; no empty piece; a piece exceeds the
\* limit only if it holds a single family that is itself too large
EachOnceInOrder == Flat = [i \in 1..Len(fams) |-> i]
NoEmptyPiece == \A k \in 1..Len(Pieces) : Pieces[k] # <<>>
SizeRespected == \A k \in 1..Len(Pieces) : HdrSize + ContentSize(Pieces[k]) <= limit \/ Len(Pieces[k]) = 1
Init == /\ fams \in UNION {[1..n -> 1..MaxFamSize] : n \in 0..MaxFam}
        /\ limit \in Limits /\ maxLinks \in MaxLinksSet
Next == UNCHANGED vars
Spec == Init /\ [][Next]_vars
=============================================================================
