---- MODULE Trace_Accum ----
(* R4 judge for C15. Record: [hdr, car |-> <<[kind, body, off]>> (off = true offset measured by the CAR writer),
   delivered |-> <<[parent |-> <<i,off,len>>, kids |-> << <<i,off,len>> >>]>>, err, late] .
   The true offsets must be consistent with the layout arithmetic (checked here, pairwise) and the delivered
   groups must equal the abstract grouping with those offsets. *)
EXTENDS AccumAbs, TLC, Json
Trace == ndJsonDeserialize("obs.ndjson")
VARIABLE l
LayoutConsistent(r) == /\ Len(r.car) > 0 => r.car[1].off = r.hdr
                       /\ \A j \in 1..(Len(r.car) - 1) : r.car[j + 1].off = r.car[j].off + SecLen(r.car, j)
Accept(r) == /\ r.err = "" /\ ~r.late
             /\ LayoutConsistent(r)
             /\ r.delivered = GroupsWith(r.car, LAMBDA j : r.car[j].off)
Init == l = 1
Next == /\ l <= Len(Trace) /\ l' = l + 1
        /\ IF Accept(Trace[l]) THEN TRUE ELSE PrintT("@@REJECT@@ " \o ToString(l))
Spec == Init /\ [][Next]_l
HW == TLCSet(1, l)
Done == PrintT("@@CONSUMED@@ " \o ToString(TLCGet(1) - 1))
====
