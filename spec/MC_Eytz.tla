---- MODULE MC_Eytz ----
(* C04 / C05: the eytzinger layout and search transcribed from build.go / bucketteer.go (spec/Util.tla) are correct
   for every population 0..N: layout is a permutation, every present key is found, no absent key is. *)
EXTENDS Util
CONSTANT N
VARIABLE n
Init == n \in 0..N
Next == UNCHANGED n
Spec == Init /\ [][Next]_n
Keys == {2 * i : i \in 1..n}
Arr == Eytzinger(SortedSeq(Keys))
Correct == /\ Len(Arr) = n
           /\ {Arr[i] : i \in 1..n} = Keys
           /\ \A x \in 1..(2 * n + 1) : EyFound(Arr, x) <=> x \in Keys
====
