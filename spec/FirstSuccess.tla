---------------------------- MODULE FirstSuccess ----------------------------
(* C18, code-shaped model of first-success.go (PlusCal).
   Processes: main (launch loop: `wg.Go` blocks the *caller* while the errgroup limit is reached; then the
   read loop over the result channel), worker[j] (runs fn, sends its result on the buffered channel of
   capacity N), closer (`wg.Wait(); close(results)`).
   outcome and limit are chosen nondeterministically in the initial state, so one TLC run covers every
   outcome vector and every limit 0..N (0 = unlimited, i.e. concurrency <= 0) for a given N.
   Binding: a worker's `Run` step <-> the gated job closure of the replayer returning; `Start` enabled <->
   the closure reported "started". *)
EXTENDS Naturals, Sequences, FiniteSets, TLC
CONSTANTS N        \* number of jobs
Jobs == 1..N

(* --algorithm FirstSuccess
variables outcome \in [Jobs -> {"ok", "err"}],
          limit \in 0..N,
          results = <<>>,      \* buffered channel, capacity N
          closed = FALSE,
          running = 0,         \* errgroup semaphore
          launched = 0,
          finished = 0,        \* completed goroutines (wg counter)
          ret = <<"none", 0>>, \* <<"ok", j>> | <<"errs", n>>
          errs = 0;

process main = 0
begin
Launch:
  while launched < N do
    await limit = 0 \/ running < limit;      \* wg.Go blocks in the caller when the limit is reached
    running := running + 1;
    launched := launched + 1;
  end while;
StartCloser:
  skip;
Read:
  while TRUE do
    await results # <<>> \/ closed;
    if results # <<>> then
      if Head(results).err = FALSE then
        ret := <<"ok", Head(results).job>>;
        goto Done;
      else
        errs := errs + 1;
        results := Tail(results);
        if errs = N then
          ret := <<"errs", errs>>;
          goto Done;
        end if;
      end if;
    else
      ret := <<"errs", errs>>;
      goto Done;
    end if;
  end while;
end process;

process worker \in Jobs
begin
Start:
  await launched >= self;          \* started by main in index order
Run:
  \* fn(ctx) runs for an arbitrary time; completion order is the interleaving of these steps
  await Len(results) < N;
  results := Append(results, [job |-> self, err |-> (outcome[self] = "err")]);
Finish:
  running := running - 1;
  finished := finished + 1;
end process;

process closer = N + 1
begin
Wait:
  await launched = N /\ finished = N;
  closed := TRUE;
end process;
end algorithm; *)
\* BEGIN TRANSLATION
VARIABLES pc, outcome, limit, results, closed, running, launched, finished, 
          ret, errs

vars == << pc, outcome, limit, results, closed, running, launched, finished, 
           ret, errs >>

ProcSet == {0} \cup (Jobs) \cup {N + 1}

Init == (* Global variables *)
        /\ outcome \in [Jobs -> {"ok", "err"}]
        /\ limit \in 0..N
        /\ results = <<>>
        /\ closed = FALSE
        /\ running = 0
        /\ launched = 0
        /\ finished = 0
        /\ ret = <<"none", 0>>
        /\ errs = 0
        /\ pc = [self \in ProcSet |-> CASE self = 0 -> "Launch"
                                        [] self \in Jobs -> "Start"
                                        [] self = N + 1 -> "Wait"]

Launch == /\ pc[0] = "Launch"
          /\ IF launched < N
                THEN /\ limit = 0 \/ running < limit
                     /\ running' = running + 1
                     /\ launched' = launched + 1
                     /\ pc' = [pc EXCEPT ![0] = "Launch"]
                ELSE /\ pc' = [pc EXCEPT ![0] = "StartCloser"]
                     /\ UNCHANGED << running, launched >>
          /\ UNCHANGED << outcome, limit, results, closed, finished, ret, errs >>

StartCloser == /\ pc[0] = "StartCloser"
               /\ TRUE
               /\ pc' = [pc EXCEPT ![0] = "Read"]
               /\ UNCHANGED << outcome, limit, results, closed, running, 
                               launched, finished, ret, errs >>

Read == /\ pc[0] = "Read"
        /\ results # <<>> \/ closed
        /\ IF results # <<>>
              THEN /\ IF Head(results).err = FALSE
                         THEN /\ ret' = <<"ok", Head(results).job>>
                              /\ pc' = [pc EXCEPT ![0] = "Done"]
                              /\ UNCHANGED << results, errs >>
                         ELSE /\ errs' = errs + 1
                              /\ results' = Tail(results)
                              /\ IF errs' = N
                                    THEN /\ ret' = <<"errs", errs'>>
                                         /\ pc' = [pc EXCEPT ![0] = "Done"]
                                    ELSE /\ pc' = [pc EXCEPT ![0] = "Read"]
                                         /\ ret' = ret
              ELSE /\ ret' = <<"errs", errs>>
                   /\ pc' = [pc EXCEPT ![0] = "Done"]
                   /\ UNCHANGED << results, errs >>
        /\ UNCHANGED << outcome, limit, closed, running, launched, finished >>

main == Launch \/ StartCloser \/ Read

Start(self) == /\ pc[self] = "Start"
               /\ launched >= self
               /\ pc' = [pc EXCEPT ![self] = "Run"]
               /\ UNCHANGED << outcome, limit, results, closed, running, 
                               launched, finished, ret, errs >>

Run(self) == /\ pc[self] = "Run"
             /\ Len(results) < N
             /\ results' = Append(results, [job |-> self, err |-> (outcome[self] = "err")])
             /\ pc' = [pc EXCEPT ![self] = "Finish"]
             /\ UNCHANGED << outcome, limit, closed, running, launched, 
                             finished, ret, errs >>

Finish(self) == /\ pc[self] = "Finish"
                /\ running' = running - 1
                /\ finished' = finished + 1
                /\ pc' = [pc EXCEPT ![self] = "Done"]
                /\ UNCHANGED << outcome, limit, results, closed, launched, ret, 
                                errs >>

worker(self) == Start(self) \/ Run(self) \/ Finish(self)

Wait == /\ pc[N + 1] = "Wait"
        /\ launched = N /\ finished = N
        /\ closed' = TRUE
        /\ pc' = [pc EXCEPT ![N + 1] = "Done"]
        /\ UNCHANGED << outcome, limit, results, running, launched, finished, 
                        ret, errs >>

closer == Wait

(* Allow infinite stuttering to prevent deadlock on termination. *)
Terminating == /\ \A self \in ProcSet: pc[self] = "Done"
               /\ UNCHANGED vars

Next == main \/ closer
           \/ (\E self \in Jobs: worker(self))
           \/ Terminating

Spec == Init /\ [][Next]_vars

Termination == <>(\A self \in ProcSet: pc[self] = "Done")

\* END TRANSLATION
\* ---------------- properties (FirstSuccessAbs instantiated on the model) ----------------
MainDone == pc[0] = "Done"
AnyOk == \E j \in Jobs : outcome[j] = "ok"
Sound == MainDone => (\/ (ret[1] = "ok" /\ outcome[ret[2]] = "ok")
                      \/ (ret[1] = "errs" /\ ~AnyOk /\ ret[2] = N))
Complete == MainDone /\ AnyOk => ret[1] = "ok"
NoStuck == (\A self \in ProcSet : pc[self] = "Done") \/ ENABLED Next
\* liveness under fairness of every process: the search always returns
FairSpec == Spec /\ WF_vars(main) /\ WF_vars(closer) /\ \A j \in Jobs : WF_vars(worker(j))
Returns == <>MainDone
====
