--------------------------------- MODULE Rpc ---------------------------------
(* C02 + C03, code-shaped model of the getBlock / getTransaction handlers (multiepoch-getBlock.go,
   multiepoch-getTransaction.go, epoch.go) over a fixed small archive.
   - routing: getBlock by slot \div EpochLen; getTransaction: one loaded epoch -> that epoch (no sig-exists
     pre-filter); several -> one FirstSuccess job per epoch (sig-exists, then sig->cid); any succeeding job wins
   - the compact indexes are LOSSY for absent keys: a lookup of a key that is not stored may return the value of a
     stored key whose 24-bit in-bucket hash collides (the alias is chosen nondeterministically with each request)
   - CheckKey: the handler compares the decoded object's slot / first signature with the request (the repair of the
     pinned tree, where a colliding absent key was answered with another object); CheckKey = FALSE is kept as
     a negative configuration
   - block assembly: entries and transactions are fetched by nested errgroups in any order into index-addressed
     cells, merged and sorted by position; blockhash = last entry; previous blockhash from the parent block when
     (parent # 0 or slot = 1) and the parent is in the same epoch *)
EXTENDS RpcAbs, TLC
CONSTANTS Arch, LoadedSets, CheckKey, AbsentSlots, AbsentSigs
VARIABLES loaded, req, pc, blk, cells, reply
vars == <<loaded, req, pc, blk, cells, reply>>
Blocks == AllBlocks(Arch)
Slots == {Blocks[i].slot : i \in 1..Len(Blocks)}
Rows == AllTxRows(Arch)
Sigs == {Rows[i].tx.sig : i \in 1..Len(Rows)}
SeqOfSet(S) == SetToSortSeq(S, LAMBDA a, b : a < b)
Init == /\ loaded \in LoadedSets
        /\ req = [op |-> "none"] /\ pc = "idle" /\ blk = NoBlock /\ cells = {} /\ reply = [op |-> "none"]
InLoaded(e) == e \in loaded
SameEpochStored(s, t) == EpochOf(s) = EpochOf(t)      \* an index only holds keys of its own epoch
Start == /\ pc = "idle"
         \* `alias`: the stored key whose in-bucket hash the requested (absent) key collides with, -1 = none
         /\ \/ \E s \in Slots : req' = [op |-> "getBlock", slot |-> s, alias |-> -1]
            \/ \E s \in AbsentSlots, a \in Slots \cup {-1} : req' = [op |-> "getBlock", slot |-> s, alias |-> a]
            \/ \E g \in Sigs : req' = [op |-> "getTransaction", sig |-> g, alias |-> -1]
            \/ \E g \in AbsentSigs, a \in Sigs \cup {-1} : req' = [op |-> "getTransaction", sig |-> g, alias |-> a]
         /\ pc' = "route" /\ blk' = NoBlock /\ cells' = {} /\ reply' = [op |-> "none"]
         /\ UNCHANGED loaded
Fail(status) == /\ reply' = (IF req.op = "getBlock"
                               THEN [op |-> "getBlock", proto |-> "json", slot |-> req.slot, status |-> status]
                               ELSE [op |-> "getTransaction", proto |-> "json", sig |-> req.sig, status |-> status])
                /\ pc' = "idle" /\ UNCHANGED <<blk, cells>>
\* ---- getBlock
RouteBlock == /\ pc = "route" /\ req.op = "getBlock"
              /\ IF ~InLoaded(EpochOf(req.slot)) THEN Fail("unavailable")
                 ELSE LET hit == IF req.slot \in Slots THEN req.slot
                                 ELSE IF req.alias # -1 /\ SameEpochStored(req.alias, req.slot)
                                        THEN req.alias ELSE -1
                      IN IF hit = -1 THEN Fail("notfound")
                         ELSE IF CheckKey /\ hit # req.slot THEN Fail("notfound")
                         ELSE /\ blk' = FindBlock(Arch, hit) /\ pc' = "fetch" /\ UNCHANGED <<cells, reply>>
              /\ UNCHANGED <<loaded, req>>
CellsOf(b) == {<<i, j>> : i \in 1..Len(b.entries), j \in 0..3} \cap
              ({<<i, 0>> : i \in 1..Len(b.entries)} \cup UNION {{<<i, j>> : j \in 1..Len(b.entries[i].txs)} : i \in 1..Len(b.entries)})
\* one errgroup worker finishes: entry i (j = 0) or transaction j of entry i, in any order
FetchCell == /\ pc = "fetch" /\ \E c \in CellsOf(blk) \ cells : cells' = cells \cup {c}
             /\ UNCHANGED <<loaded, req, pc, blk, reply>>
Assemble == /\ pc = "fetch" /\ cells = CellsOf(blk)
            /\ LET txs == FlatTxs(blk)       \* all[i][j] merged in index order = position order
                   parentOK == (blk.parent # 0 \/ blk.slot = 1) /\ EpochOf(blk.parent) = EpochOf(blk.slot)
                   pb == IF parentOK THEN FindBlock(Arch, blk.parent) ELSE NoBlock
               IN reply' = [op |-> "getBlock", proto |-> "json", slot |-> req.slot, status |-> "ok", parent |-> blk.parent,
                            blocktime |-> blk.blocktime, height |-> blk.height, blockhash |-> LastEntry(blk),
                            prev |-> IF pb = NoBlock THEN <<-2, -2>> ELSE LastEntry(pb),
                            sigs |-> [i \in 1..Len(txs) |-> txs[i].sig], txsame |-> TRUE, metasame |-> TRUE]
            /\ pc' = "idle" /\ UNCHANGED <<loaded, req, blk, cells>>
\* ---- getTransaction
SigHit(e, g) == \* result of sig->cid lookup of g in epoch e's index: a signature stored in e, or -1
    IF g \in Sigs /\ EpochOf(FindTx(Arch, g).slot) = e THEN g
    ELSE IF g \in AbsentSigs /\ req.alias # -1 /\ EpochOf(FindTx(Arch, req.alias).slot) = e THEN req.alias ELSE -1
SigExists(e, g) == g \in Sigs /\ EpochOf(FindTx(Arch, g).slot) = e     \* 64-bit hash: modelled exact
RouteTx == /\ pc = "route" /\ req.op = "getTransaction"
           /\ LET cands == IF Cardinality(loaded) = 1 THEN loaded
                           ELSE {e \in loaded : SigExists(e, req.sig) /\ SigHit(e, req.sig) # -1}
              IN IF cands = {} THEN Fail("notfound")
                 ELSE \E e \in cands :      \* FirstSuccess: any succeeding job
                        LET hit == SigHit(e, req.sig) IN
                        IF hit = -1 THEN Fail("notfound")
                        ELSE IF CheckKey /\ hit # req.sig THEN Fail("notfound")
                        ELSE LET r == FindTx(Arch, hit) IN
                             /\ reply' = [op |-> "getTransaction", proto |-> "json", sig |-> req.sig, status |-> "ok", slot |-> r.slot,
                                          blocktime |-> r.blocktime, pos |-> r.pos, rsig |-> hit, txsame |-> TRUE, metasame |-> TRUE]
                             /\ pc' = "idle" /\ UNCHANGED <<blk, cells>>
           /\ UNCHANGED <<loaded, req>>
Next == Start \/ RouteBlock \/ FetchCell \/ Assemble \/ RouteTx
Spec == Init /\ [][Next]_vars
\* refinement: every reply is allowed by RpcAbs for the loaded set
ReplyAllowed == reply.op # "none" => CallOK(Arch, SeqOfSet(loaded), reply)
=============================================================================
