----------------------------- MODULE EpochLoad -----------------------------
(* C10: NewEpochFromConfig (epoch.go, CAR mode, current index formats).
   Abs: a configuration assigns a file to each index role; every file records a kind, an epoch and - except the
   slot-to-blocktime index - a root CID.  Loading may succeed only if every role's file has the role's kind, the
   configured epoch, and all rooted roles share one root.
   Impl: the chain of checks in the order the code performs them, with `lastRoot` carried from index to index:
   cid-to-offset (kind, epoch; seeds lastRoot), slot-to-cid (epoch; root vs lastRoot unless undefined),
   sig-to-cid, gsfa, sig-exists (epoch, root vs lastRoot), slot-to-blocktime (kind, epoch only).
   The universe of files mirrors the replay fixtures: source A = epoch 1 / CAR X (the epoch being configured),
   B = epoch 2 / CAR Y, C = epoch 1 / CAR Z; a role can be given its own file from A, B or C, or the file of any
   other role; at most two roles deviate from the consistent baseline (singly and in pairs). *)
EXTENDS EpochLoadAbs, TLC, Json
VARIABLES cfgEpoch, car, assign, step, lastRoot, verdict
vars == <<cfgEpoch, car, assign, step, lastRoot, verdict>>
Own(r) == [kind |-> r, src |-> "A"]
Init == /\ cfgEpoch \in {1, 2} /\ car \in {"X", "Z"}
        /\ \E r1 \in RoleSet, r2 \in RoleSet, f1 \in Files, f2 \in Files :
             assign = [r \in RoleSet |-> IF r = r1 THEN f1 ELSE IF r = r2 THEN f2 ELSE Own(r)]
        /\ step = 1 /\ lastRoot = "undef" /\ verdict = "loading"
Check ==
    /\ verdict = "loading" /\ step <= Len(Roles)
    /\ LET r == Roles[step]
           f == assign[r] IN
       IF f.kind # r THEN verdict' = "rejected" /\ UNCHANGED lastRoot      \* kind assertion / magic mismatch
       ELSE IF FileEpoch(f) # cfgEpoch THEN verdict' = "rejected" /\ UNCHANGED lastRoot
       ELSE IF r = "cid" THEN lastRoot' = FileRoot(f) /\ UNCHANGED verdict
       ELSE IF r = "slot" THEN
              IF lastRoot # "undef" /\ lastRoot # FileRoot(f) THEN verdict' = "rejected" /\ UNCHANGED lastRoot
              ELSE lastRoot' = FileRoot(f) /\ UNCHANGED verdict
       ELSE IF r = "blocktime" THEN UNCHANGED <<verdict, lastRoot>>         \* epoch only
       ELSE IF lastRoot # FileRoot(f) THEN verdict' = "rejected" /\ UNCHANGED lastRoot
       ELSE UNCHANGED <<verdict, lastRoot>>
    /\ step' = step + 1
    /\ UNCHANGED <<cfgEpoch, car, assign>>
Finish == /\ verdict = "loading" /\ step > Len(Roles) /\ verdict' = "ok"
          /\ UNCHANGED <<cfgEpoch, car, assign, step, lastRoot>>
Next == Check \/ Finish
Spec == Init /\ [][Next]_vars

\* ---- Abs ----
Consistent == ConsistentCfg(cfgEpoch, assign)
Sound    == verdict = "ok" => Consistent
Complete == (verdict = "rejected") => ~Consistent
\* R2: every configuration (= initial state) is printed once as a replay case
Mismatches == Cardinality({r \in RoleSet : assign[r] # Own(r)}) + (IF cfgEpoch # 1 THEN 1 ELSE 0) + (IF car # "X" THEN 1 ELSE 0)
Emit == (step = 1 /\ verdict = "loading") =>
          PrintT("@@CASE@@ " \o ToJson([cfgEpoch |-> cfgEpoch, car |-> car, assign |-> assign, consistent |-> Consistent, mismatches |-> Mismatches]))
=============================================================================
