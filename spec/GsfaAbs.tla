------------------------------- MODULE GsfaAbs -------------------------------
(* C06, the property itself: after Close, reading an address returns exactly the entries that were
   pushed with it, each once, newest first.  Entries are identified by their push index 1..n
   (the harness stores the index as the entry's CAR offset, so a location *is* its index). *)
EXTENDS Naturals, Sequences, SequencesExt

\* Ment(i) == "push i mentions the address"
Expected(n, Ment(_)) == Reverse(SelectSeq([i \in 1..n |-> i], Ment))

StrictlyDescending(s) == \A i \in 1..(Len(s) - 1) : s[i] > s[i + 1]
=============================================================================
