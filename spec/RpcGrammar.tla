----------------------------- MODULE RpcGrammar -----------------------------
(* C08: the request grammar.  Abs: every request - whatever its shape - is answered with a response or an error status
   and the server keeps serving (a canary request after it is still answered); no handler panics.
   A request class is a record over finite dimensions; TLC enumerates the cross product and prints every class as a
   replay case; the harness concretises each class (several seeded instances) and sends it to the real handler /
   gRPC method.  `expect` is the outcome class read off the handlers (used for drift only, never for the verdict):
     "http"   - rejected before JSON-RPC (method / path / size),   "parse" - body is not a JSON-RPC request,
     "nomethod" - unknown method,  "params" - invalid params,  "handled" - reaches a handler with usable params. *)
EXTENDS Naturals, Sequences, FiniteSets, TLC, Json
HttpMethods == {"POST", "GET", "PUT"}
\* the REST endpoints with an argument (K = an archived key, A = an absent one, G = garbage), without argument, without the
\* trailing slash, with extra segments, with a query string, percent-encoded; prefixes of the API root
Paths == {"/", "/health", "/metrics", "/api/v1/slot-to-cid/K", "/api/v1/sig-to-cid/K", "/api/v1/unknown", "/other",
          "/api/v1/slot-to-cid", "/api/v1/slot-to-cid/", "/api/v1/sig-to-cid", "/api/v1/sig-to-cid/", "/api/v1/slot-to-cid/A", "/api/v1/sig-to-cid/A",
          "/api/v1/slot-to-cid/G", "/api/v1/sig-to-cid/G", "/api/v1/slot-to-cid/K/extra", "/api/v1/slot-to-cid/K?x=1", "/api/v1/slot-to-cid/%4B",
          "/api/v1", "/api/v1/", "/api", "/api/", "//", "/api/v1/slot-to-cidX", "/api/v1/sig-to-cid/" \o "long"}
Bodies == {"empty", "garbage", "truncated", "array", "null", "number", "string", "oversize", "object"}
\* unknown method names are echoed into error replies, logs and metric labels: length classes around the 64-byte cut of
\* the label sanitiser, non-ASCII runes (2, 3, 4 bytes wide) starting at each byte position around that cut, control bytes
LongUnknown == {"unknown:long", "unknown:nonascii", "unknown:control", "unknown:mb2@62", "unknown:mb2@63", "unknown:mb3@61", "unknown:mb3@62",
                "unknown:mb3@63", "unknown:mb4@60", "unknown:mb4@61", "unknown:mb4@62", "unknown:mb4@63", "unknown:mb2@127", "unknown:mb3@254"}
Methods == {"getBlock", "getTransaction", "getSignaturesForAddress", "getBlockTime", "getGenesisHash",
            "getFirstAvailableBlock", "getSlot", "getVersion", "unknown", "nonstring", "absent"} \cup LongUnknown
\* shape of "params"
ParamShapes == {"absent", "null", "emptyarray", "object", "string", "number", "array"}
\* first element when params is a non-empty array
Firsts == {"null", "bool", "key-archived", "key-absent", "garbage-string", "empty-string", "long-string", "int-archived", "int-first", "int-absent",
           "negative", "fraction", "huge", "array", "object"}
\* ("int-first": the first block of a loaded epoch, whose parent block lies in an epoch that is not loaded)
\* second element (options)
Seconds == {"none", "null", "number", "string", "array", "empty", "valid", "wrongtypes", "unknown-encoding", "bad-sigs", "huge-limit", "negative-limit", "null-members", "null-encoding"}
Ids == {"int", "string", "null", "object", "absent"}
Epochs == {0, 1, 2}
VARIABLES kind, http, path, body, method, pshape, first, second, id, epochs
vars == <<kind, http, path, body, method, pshape, first, second, id, epochs>>
\* three families keep the product meaningful: transport-level requests, JSON bodies that are not calls, and calls
Init == /\ epochs \in Epochs
        /\ \/ /\ kind = "transport" /\ http \in HttpMethods /\ path \in Paths /\ body \in {"empty", "object"}
              /\ (http # "POST" \/ path # "/")
              /\ method = "getSlot" /\ pshape = "absent" /\ first = "null" /\ second = "none" /\ id = "int"
           \/ /\ kind = "body" /\ http = "POST" /\ path = "/" /\ body \in Bodies \ {"object"}
              /\ method = "getSlot" /\ pshape = "absent" /\ first = "null" /\ second = "none" /\ id = "int"
           \/ /\ kind = "call" /\ http = "POST" /\ path = "/" /\ body = "object"
              /\ method \in Methods /\ pshape \in ParamShapes /\ id \in Ids
              /\ IF pshape = "array" THEN first \in Firsts /\ second \in Seconds ELSE first = "null" /\ second = "none"
              \* ids other than int are only crossed with one parameter shape (they do not interact)
              /\ (id # "int" => pshape \in {"absent", "emptyarray"})
              /\ (method \in LongUnknown => pshape = "absent" /\ id = "int")
Next == UNCHANGED vars
Spec == Init /\ [][Next]_vars
NeedsParams == {"getBlock", "getTransaction", "getSignaturesForAddress", "getBlockTime"}
Expect == IF kind = "transport" THEN "http"
          ELSE IF kind = "body" THEN (IF body = "oversize" THEN "http" ELSE "parse")
          ELSE IF method \in {"unknown", "nonstring", "absent"} \cup LongUnknown THEN "nomethod"
          ELSE IF method \notin NeedsParams THEN "handled"
          ELSE IF pshape # "array" THEN "params"
          ELSE IF method \in {"getBlock", "getBlockTime"} /\ first \notin {"int-archived", "int-first", "int-absent", "negative", "fraction", "huge"} THEN "params"
          ELSE IF method \in {"getTransaction", "getSignaturesForAddress"} /\ first \notin {"key-archived", "key-absent"} THEN "params"
          ELSE IF second \in {"number", "string", "array", "wrongtypes"} THEN "params"
          ELSE "handled"
\* totality of the decision table: every class has an outcome class
Total == Expect \in {"http", "parse", "nomethod", "params", "handled"}
Emit == PrintT("@@CASE@@ " \o ToJson([kind |-> kind, http |-> http, path |-> path, body |-> body, method |-> method, pshape |-> pshape,
                                      first |-> first, second |-> second, id |-> id, epochs |-> epochs, expect |-> Expect]))
=============================================================================
