---- MODULE Trace_VerifyIdx ----
(* R4 judge for the index verifiers: one record per (archive, deviation) run on the real code,
   [car, hdr, idx (what the real index files answered for the car's keys, read back through the real readers), dev,
    verdicts (tool -> "ok" / "fail"), panic].
   "verdict": some tool's verdict is not VerifyIdxAbs!Verdict of the recorded index content.
   "vacuous": the recorded content is not the labelled deviation of the true content (harness fault, not a verdict);
              for a foreign file only the consequence is compared (objects shared by two archives are legitimately found). *)
EXTENDS VerifyIdxAbs, TLC, Json
Trace == ndJsonDeserialize("obs.ndjson")
VARIABLE l
Why(r) == IF r.panic # "" THEN "panic"
          ELSE IF \E t \in Tools : r.verdicts[t] # Verdict(r.car, r.hdr, r.idx, t) THEN "verdict"
          ELSE IF \/ ~ValidDev(r.car, r.dev)
                  \/ (r.dev.what # "foreign" /\ r.idx # Apply(r.car, Truth(r.car, r.hdr), r.dev))
                  \/ \E t \in Tools : Verdict(r.car, r.hdr, r.idx, t) # Expected(r.dev, t) THEN "vacuous"
          ELSE ""
Init == l = 1
Next == /\ l <= Len(Trace) /\ l' = l + 1
        /\ LET w == Why(Trace[l]) IN IF w = "" THEN TRUE ELSE PrintT("@@REJECT@@ " \o ToString(l) \o " " \o w)
Spec == Init /\ [][Next]_l
HW == TLCSet(1, l)
Done == PrintT("@@CONSUMED@@ " \o ToString(TLCGet(1) - 1))
====
