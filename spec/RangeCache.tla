----------------------------- MODULE RangeCache -----------------------------
(* C17, code-shaped model of range-cache/range-cache.go.
   cache: map Range -> bytes;  GetRange = lookup under RLock (exact key, else ANY cached superset - map
   iteration order is arbitrary), on a miss the write lock is taken and the remote is fetched *under the
   lock*, setRange only on success;  setRange: return if a cached range contains the new one (after possibly
   having deleted subsets visited earlier in the iteration), delete cached subsets, insert, occupied += len;
   DeleteOldEntries: delete any set of entries (age is not modelled: any subset may be old).
   Readers: 1 = sequential histories, 2..k = concurrent readers; a reader between its lookup (RLock released)
   and its miss (Lock not yet taken) can be overtaken by another reader or by expiry.
   Binding: every Get/Set/Expire/Toggle action is one call of the public API in the replayer; the `hist`
   history variable (Gen_RangeCache) is the replayed operation list. *)
EXTENDS Naturals, Integers, Sequences, FiniteSets, TLC, RangeCacheAbs
CONSTANTS Size, MaxOps, Readers
Bytes(s, e) == FileBytes(s, e - s)
Range == {<<s, e>> \in (0..Size) \X (0..Size) : s <= e}
Contains(r, q) == r[1] <= q[1] /\ r[2] >= q[2]

VARIABLES cache,      \* function from a subset of Range to byte sequences
          occupied, remoteUp, nops,
          pend,       \* [Readers -> pending request <<s,e>> between lookup and miss, or <<>>]
          last        \* last observable result
vars == <<cache, occupied, remoteUp, nops, pend, last>>
None == [t |-> "none", v |-> <<>>, s |-> 0, e |-> 0, up |-> TRUE]

Init == /\ cache = <<>> /\ occupied = 0 /\ remoteUp = TRUE /\ nops = 0
        /\ pend = [r \in Readers |-> <<>>] /\ last = None
Dom == DOMAIN cache
Without(S) == [r \in Dom \ S |-> cache[r]]
SumLen(S) == LET RECURSIVE f(_) f(T) == IF T = {} THEN 0 ELSE LET r == CHOOSE r \in T : TRUE IN (r[2]-r[1]) + f(T \ {r}) IN f(S)

SetRangeEffect(s, e, val) ==
    IF \E r \in Dom : Contains(r, <<s, e>>)
      THEN \* the loop may have deleted any strict subsets of the new range visited before the superset was met
           \E D \in SUBSET {r \in Dom : Contains(<<s, e>>, r) /\ ~Contains(r, <<s,e>>)} :
              /\ cache' = Without(D)
              /\ occupied' = occupied - SumLen(D)
      ELSE LET D == {r \in Dom : Contains(<<s, e>>, r)} IN
           /\ cache' = [r \in (Dom \ D) \cup {<<s, e>>} |-> IF r = <<s, e>> THEN val ELSE cache[r]]
           /\ occupied' = occupied - SumLen(D) + (e - s)

Ok(s, e, v) == [t |-> "ok", v |-> v, s |-> s, e |-> e, up |-> remoteUp]
Err(kind, s, e) == [t |-> kind, v |-> <<>>, s |-> s, e |-> e, up |-> remoteUp]

\* step 1 of GetRange: bounds check + lookup under RLock
Lookup(rd, s, l) ==
    LET e == s + l IN
    /\ pend[rd] = <<>> /\ nops < MaxOps /\ nops' = nops + 1
    /\ IF s < 0 \/ e > Size \/ s > e
         THEN last' = Err("err-invalid", s, e) /\ UNCHANGED <<cache, occupied, remoteUp, pend>>
         ELSE IF <<s, e>> \in Dom
           THEN last' = Ok(s, e, cache[<<s, e>>]) /\ UNCHANGED <<cache, occupied, remoteUp, pend>>
           ELSE IF \E r \in Dom : Contains(r, <<s, e>>)
             THEN \E r \in {q \in Dom : Contains(q, <<s, e>>)} :
                    /\ last' = Ok(s, e, SubSeq(cache[r], s - r[1] + 1, e - r[1]))
                    /\ UNCHANGED <<cache, occupied, remoteUp, pend>>
             ELSE /\ pend' = [pend EXCEPT ![rd] = <<s, e>>] /\ last' = None
                  /\ UNCHANGED <<cache, occupied, remoteUp>>
\* step 2: miss path under the write lock (fetch + setRange), no second lookup
Miss(rd) ==
    /\ pend[rd] # <<>>
    /\ LET s == pend[rd][1]  e == pend[rd][2] IN
       IF remoteUp
         THEN /\ last' = Ok(s, e, Bytes(s, e)) /\ SetRangeEffect(s, e, Bytes(s, e))
         ELSE /\ last' = Err("err-remote", s, e) /\ UNCHANGED <<cache, occupied>>
    /\ pend' = [pend EXCEPT ![rd] = <<>>] /\ UNCHANGED <<remoteUp, nops>>

SetRange(s, l) ==
    /\ nops < MaxOps /\ nops' = nops + 1 /\ s >= 0 /\ l >= 0 /\ s + l <= Size
    /\ SetRangeEffect(s, s + l, Bytes(s, s + l)) /\ last' = None /\ UNCHANGED <<remoteUp, pend>>
Expire == /\ nops < MaxOps /\ nops' = nops + 1
          /\ \E D \in SUBSET Dom : cache' = Without(D) /\ occupied' = occupied - SumLen(D)
          /\ last' = None /\ UNCHANGED <<remoteUp, pend>>
\* the remote goes down / comes back only while no fetch is in flight (a fetch is atomic in Miss)
Toggle == /\ nops < MaxOps /\ nops' = nops + 1 /\ remoteUp' = ~remoteUp /\ last' = None /\ UNCHANGED <<cache, occupied, pend>>

Next == \/ \E rd \in Readers, s \in -1..Size, l \in -1..(Size+1) : Lookup(rd, s, l)
        \/ \E rd \in Readers : Miss(rd)
        \/ \E s \in 0..Size, l \in 0..Size : SetRange(s, l)
        \/ Expire \/ Toggle
Spec == Init /\ [][Next]_vars

ValuesRight == \A r \in Dom : cache[r] = Bytes(r[1], r[2])
Antichain == \A r, q \in Dom : r # q => ~Contains(r, q)
OccupiedRight == occupied = SumLen(Dom)
\* refinement of RangeCacheAbs: every observable result is allowed by the property
Transparent == last.t # "none" =>
    GetAllowed(Size, last.s, last.e - last.s, last.up, IF last.t = "ok" THEN "ok" ELSE "err", last.v)
=============================================================================
