---- MODULE Gen_GsfaWriter ----
(* R2 for C06: simulation of GsfaWriter with a history variable `ev` = the gated schedule
   (sequence of [thread, hook point]) that the replayer forces on the real writer. *)
EXTENDS GsfaWriter, Json
CONSTANTS a0, a1
VARIABLE ev
MCOrd == (a0 :> 0) @@ (a1 :> 1)
SimInit == Init /\ ev = <<>>
E(th, pt, cond) == ev' = IF cond THEN Append(ev, [th |-> th, pt |-> pt]) ELSE ev
SimNext ==
    \/ (PushBegin /\ UNCHANGED ev)
    \/ (PeriodicStep /\ E("M", "flush", log' # log))
    \/ (AppendStep /\ E("M", "send", chan' # chan))
    \/ (CloseBegin /\ UNCHANGED ev)
    \/ (FlushAccumStep /\ E("M", "flush", log' # log))
    \/ (SetExit /\ E("M", "setExit", TRUE))
    \/ (WaitBg /\ E("M", "waitBg", TRUE))
    \/ (WriteIndex /\ UNCHANGED ev)
    \/ (BgLoop /\ E("B", "bgLoop", TRUE))
    \/ (BgFlushAll /\ E("B", "flush", log' # log))
    \/ (BgPark /\ UNCHANGED ev)
    \/ (BgDone /\ E("B", "bgDone", TRUE))
SimSpec == SimInit /\ [][SimNext]_<<vars, ev>>
AddrName(a) == IF a = a0 THEN "a0" ELSE "a1"
Emit == mpc = "closed" =>
   PrintT("@@CASE@@ " \o ToJson([pushed |-> [i \in 1..Len(pushed) |-> [addrs |-> {AddrName(a) : a \in pushed[i].addrs}, periodic |-> pushed[i].periodic]],
                                  ev |-> ev,
                                  read |-> [a0 |-> Read(a0), a1 |-> Read(a1)],
                                  expected |-> [a0 |-> ExpectedFor(a0), a1 |-> ExpectedFor(a1)]]))
====
