---- MODULE Trace_EpochLoad ----
(* R4 judge for C10. Record: [cfgEpoch, car, assign |-> [role |-> [kind, src]], outcome \in {"ok","rejected","panic"},
   metaok (every identity field read back unchanged), fetch |-> <<"same"|"error"|"different">> for every CID of the
   configured epoch's own CAR] *)
EXTENDS EpochLoadAbs, TLC, Json
Trace == ndJsonDeserialize("obs.ndjson")
VARIABLE l
Accept(r) ==
    /\ r.outcome \in {"ok", "rejected"}
    /\ r.outcome = "ok" => /\ ConsistentCfg(r.cfgEpoch, r.assign)
                           /\ r.metaok
                           /\ \A i \in 1..Len(r.fetch) : r.fetch[i] # "different"
                           /\ (r.car = "X" => \A i \in 1..Len(r.fetch) : r.fetch[i] = "same")
TInit == l = 1
TNext == /\ l <= Len(Trace) /\ l' = l + 1
         /\ IF Accept(Trace[l]) THEN TRUE ELSE PrintT("@@REJECT@@ " \o ToString(l))
TSpec == TInit /\ [][TNext]_l
HW == TLCSet(1, l)
Done == PrintT("@@CONSUMED@@ " \o ToString(TLCGet(1) - 1))
====
