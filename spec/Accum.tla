------------------------------- MODULE Accum -------------------------------
(* C15, code-shaped model of accum/block.go (PlusCal): reader goroutine (one step per section: running
   offset accounting `currentOffset := totalOffset; totalOffset += sectionLength`, ignore, group on the flush
   kind, fresh children slice per group), bounded flushQueue, single flusher goroutine calling the callback.
   The CAR is chosen nondeterministically in the initial state (every layout up to MaxLen over
   {flush kind, kept, ignored} x BodySet), so one TLC run covers every layout and every interleaving.
   Binding: reader step <-> one granted Read of the gated io.Reader (one section per Read);
            flusher delivery <-> one granted callback invocation. *)
EXTENDS Naturals, Sequences, FiniteSets, TLC, SequencesExt, AccumAbs
CONSTANTS MaxLen,     \* maximal number of sections
          BodySet,    \* candidate section body lengths
          Hdr,        \* header size
          Cap         \* capacity of flushQueue (1000 in the code, shrunk)
Kinds == {"F", "K", "I"}
CarSet == UNION {[1..n -> [kind : Kinds, body : BodySet]] : n \in 0..MaxLen}

(* --algorithm Accum
variables
  car \in CarSet,
  heap = <<>>,                  \* children slices by identity: heap[b] = sequence of objects
  queue = <<>>,                 \* sequence of [parent, buf]
  delivered = <<>>,             \* what the callback saw: sequence of [parent, kids]
  readerDone = FALSE;

process reader = "reader"
variables pos = 1, cur = 0, total = Hdr;
begin
NewBuf:
  heap := Append(heap, <<>>); cur := Len(heap);
ReadLoop:
  while pos <= Len(car) do
    if car[pos].kind = "F" then
      \* sendToFlusher(&element, children): blocks while the queue is full
      await Len(queue) < Cap;
      queue := Append(queue, [parent |-> <<pos, total, VarintW(car[pos].body) + car[pos].body>>, buf |-> cur]);
      total := total + VarintW(car[pos].body) + car[pos].body;
      pos := pos + 1;
      goto NewBuf;
    elsif car[pos].kind = "I" then
      total := total + VarintW(car[pos].body) + car[pos].body;
      pos := pos + 1;
    else
      heap[cur] := Append(heap[cur], <<pos, total, VarintW(car[pos].body) + car[pos].body>>);
      total := total + VarintW(car[pos].body) + car[pos].body;
      pos := pos + 1;
    end if;
  end while;
Eof:
  await Len(queue) < Cap;
  queue := Append(queue, [parent |-> <<0, 0, 0>>, buf |-> cur]);
  readerDone := TRUE;
end process;

process flusher = "flusher"
begin
FlushLoop:
  while ~(readerDone /\ queue = <<>>) do
    await queue # <<>> \/ readerDone;
    if queue # <<>> then
      with g = Head(queue) do
        if ~(g.parent[1] = 0 /\ heap[g.buf] = <<>>) then
          delivered := Append(delivered, [parent |-> g.parent, kids |-> heap[g.buf]]);
        end if;
      end with;
      queue := Tail(queue);
    end if;
  end while;
end process;
end algorithm; *)
\* BEGIN TRANSLATION
VARIABLES pc, car, heap, queue, delivered, readerDone, pos, cur, total

vars == << pc, car, heap, queue, delivered, readerDone, pos, cur, total >>

ProcSet == {"reader"} \cup {"flusher"}

Init == (* Global variables *)
        /\ car \in CarSet
        /\ heap = <<>>
        /\ queue = <<>>
        /\ delivered = <<>>
        /\ readerDone = FALSE
        (* Process reader *)
        /\ pos = 1
        /\ cur = 0
        /\ total = Hdr
        /\ pc = [self \in ProcSet |-> CASE self = "reader" -> "NewBuf"
                                        [] self = "flusher" -> "FlushLoop"]

NewBuf == /\ pc["reader"] = "NewBuf"
          /\ heap' = Append(heap, <<>>)
          /\ cur' = Len(heap')
          /\ pc' = [pc EXCEPT !["reader"] = "ReadLoop"]
          /\ UNCHANGED << car, queue, delivered, readerDone, pos, total >>

ReadLoop == /\ pc["reader"] = "ReadLoop"
            /\ IF pos <= Len(car)
                  THEN /\ IF car[pos].kind = "F"
                             THEN /\ Len(queue) < Cap
                                  /\ queue' = Append(queue, [parent |-> <<pos, total, VarintW(car[pos].body) + car[pos].body>>, buf |-> cur])
                                  /\ total' = total + VarintW(car[pos].body) + car[pos].body
                                  /\ pos' = pos + 1
                                  /\ pc' = [pc EXCEPT !["reader"] = "NewBuf"]
                                  /\ heap' = heap
                             ELSE /\ IF car[pos].kind = "I"
                                        THEN /\ total' = total + VarintW(car[pos].body) + car[pos].body
                                             /\ pos' = pos + 1
                                             /\ heap' = heap
                                        ELSE /\ heap' = [heap EXCEPT ![cur] = Append(heap[cur], <<pos, total, VarintW(car[pos].body) + car[pos].body>>)]
                                             /\ total' = total + VarintW(car[pos].body) + car[pos].body
                                             /\ pos' = pos + 1
                                  /\ pc' = [pc EXCEPT !["reader"] = "ReadLoop"]
                                  /\ queue' = queue
                  ELSE /\ pc' = [pc EXCEPT !["reader"] = "Eof"]
                       /\ UNCHANGED << heap, queue, pos, total >>
            /\ UNCHANGED << car, delivered, readerDone, cur >>

Eof == /\ pc["reader"] = "Eof"
       /\ Len(queue) < Cap
       /\ queue' = Append(queue, [parent |-> <<0, 0, 0>>, buf |-> cur])
       /\ readerDone' = TRUE
       /\ pc' = [pc EXCEPT !["reader"] = "Done"]
       /\ UNCHANGED << car, heap, delivered, pos, cur, total >>

reader == NewBuf \/ ReadLoop \/ Eof

FlushLoop == /\ pc["flusher"] = "FlushLoop"
             /\ IF ~(readerDone /\ queue = <<>>)
                   THEN /\ queue # <<>> \/ readerDone
                        /\ IF queue # <<>>
                              THEN /\ LET g == Head(queue) IN
                                        IF ~(g.parent[1] = 0 /\ heap[g.buf] = <<>>)
                                           THEN /\ delivered' = Append(delivered, [parent |-> g.parent, kids |-> heap[g.buf]])
                                           ELSE /\ TRUE
                                                /\ UNCHANGED delivered
                                   /\ queue' = Tail(queue)
                              ELSE /\ TRUE
                                   /\ UNCHANGED << queue, delivered >>
                        /\ pc' = [pc EXCEPT !["flusher"] = "FlushLoop"]
                   ELSE /\ pc' = [pc EXCEPT !["flusher"] = "Done"]
                        /\ UNCHANGED << queue, delivered >>
             /\ UNCHANGED << car, heap, readerDone, pos, cur, total >>

flusher == FlushLoop

(* Allow infinite stuttering to prevent deadlock on termination. *)
Terminating == /\ \A self \in ProcSet: pc[self] = "Done"
               /\ UNCHANGED vars

Next == reader \/ flusher
           \/ Terminating

Spec == Init /\ [][Next]_vars

Termination == <>(\A self \in ProcSet: pc[self] = "Done")

\* END TRANSLATION
\* ---------------- refinement of AccumAbs ----------------
Expected == Groups(car, Hdr)
PrefixAlways == IsPrefix(delivered, Expected)
AllDone == \A self \in ProcSet : pc[self] = "Done"
Complete == AllDone => delivered = Expected
NoStuck == AllDone \/ ENABLED Next
\* a children slice handed to the flusher is never written by the reader again (fresh slice per group)
NoAliasing == \A i \in 1..Len(queue) : queue[i].buf # cur \/ pc["reader"] \in {"NewBuf", "Done"} \/ readerDone
FairSpec == Spec /\ WF_vars(reader) /\ WF_vars(flusher)
Terminates == <>AllDone
=============================================================================
