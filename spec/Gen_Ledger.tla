---- MODULE Gen_Ledger ----
(* R2 generator shared by C01 C02 C03 C07 C19: random walks (tlc -simulate) that grow an archive epoch by epoch,
   block by block, entry by entry, transaction by transaction, choosing every shape parameter
   nondeterministically; the finished archive is printed as one JSON case. *)
EXTENDS Ledger, TLC, Json
CONSTANTS EpochSet,      \* candidate epoch numbers, e.g. {0, 1, 2, 5}
          MaxEpochs, MaxBlocks, MaxEntries, MaxTxs, Accts,
          MinEpochs, MinTx        \* a walk may finish only with at least this many epochs / transactions
VARIABLES arch, nsig, done
gvars == <<arch, nsig, done>>
GInit == arch = <<>> /\ nsig = 0 /\ done = FALSE

CurEpoch == Last(arch)
CurBlocks == CurEpoch.blocks
LastSlotOrBase == IF CurBlocks = <<>> THEN CurEpoch.epoch * EpochLen - 1 ELSE Last(CurBlocks).slot
SetLastEpoch(ep) == arch' = [arch EXCEPT ![Len(arch)] = ep]
EpochHasTx(ep) == \E i \in 1..Len(ep.blocks) : FlatTxs(ep.blocks[i]) # <<>>
NewEpoch == /\ ~done /\ Len(arch) < MaxEpochs
            /\ (IF arch = <<>> THEN TRUE ELSE EpochHasTx(CurEpoch))
            /\ \E e \in EpochSet : (IF arch = <<>> THEN TRUE ELSE e > CurEpoch.epoch)
                 \* leave enough larger epoch numbers for the walk to reach MinEpochs
                 /\ Cardinality({x \in EpochSet : x > e}) + Len(arch) + 1 >= MinEpochs
                 /\ arch' = Append(arch, [epoch |-> e, blocks |-> <<>>])
            /\ UNCHANGED <<nsig, done>>
\* a block: slot = previous slot + gap (gap > 1 leaves skipped slots); the first block of epoch 0 is slot 0;
\* parent = previous archived block (or the slot just before the epoch for the first block: parent in another epoch)
NewBlock == /\ ~done /\ arch # <<>> /\ Len(CurBlocks) < MaxBlocks
            /\ \E gap \in 1..3, rf \in 0..2, hh \in BOOLEAN :
                 \* in epoch 0 the block after slot 0 is slot 1 (parent_slot = 0 is only meaningful there)
                 /\ ((CurEpoch.epoch = 0 /\ Len(CurBlocks) = 1) => gap = 1)
                 /\ LET slot == IF CurEpoch.epoch = 0 /\ CurBlocks = <<>> THEN 0 ELSE LastSlotOrBase + gap
                        parent == IF CurBlocks = <<>> THEN (IF slot = 0 THEN 0 ELSE CurEpoch.epoch * EpochLen - 1) ELSE Last(CurBlocks).slot
                        b == [slot |-> slot, parent |-> parent, blocktime |-> 1600000000 + (slot % 100000),
                              height |-> IF hh THEN slot + 7 ELSE -1, entries |-> <<[txs |-> <<>>]>>, rframes |-> rf]   \* every block has >= 1 entry
                    IN SetLastEpoch([CurEpoch EXCEPT !.blocks = Append(@, b)])
            /\ UNCHANGED <<nsig, done>>
NewEntry == /\ ~done /\ arch # <<>> /\ CurBlocks # <<>> /\ Len(Last(CurBlocks).entries) < MaxEntries
            /\ SetLastEpoch([CurEpoch EXCEPT !.blocks[Len(CurBlocks)].entries = Append(@, [txs |-> <<>>])])
            /\ UNCHANGED <<nsig, done>>
NewTx == /\ ~done /\ arch # <<>> /\ CurBlocks # <<>> /\ Last(CurBlocks).entries # <<>>
         /\ Len(Last(Last(CurBlocks).entries).txs) < MaxTxs
         /\ \E a1 \in Accts, a2 \in Accts \cup {0}, ld \in Accts \cup {0}, shape \in 1..8 :
              LET tx == [sig |-> nsig + 1,
                         accts |-> IF a2 = 0 \/ a2 = a1 THEN <<a1>> ELSE <<a1, a2>>,
                         loaded |-> IF ld = 0 \/ ld = a1 \/ ld = a2 \/ shape \in {5} THEN <<>> ELSE <<ld>>,
                         vote |-> shape = 1, failed |-> shape \in {2, 6}, nometa |-> shape = 5,
                         dframes |-> IF shape \in {3, 6} THEN 3 ELSE 1, mframes |-> IF shape \in {4, 6} THEN 4 ELSE 1,
                         pad |-> IF shape = 3 THEN 2 ELSE IF shape = 7 THEN 1 ELSE 0,
                         mpad |-> IF shape = 4 THEN 2 ELSE IF shape = 8 THEN 1 ELSE 0]
                  nb == Len(CurBlocks)  ne == Len(Last(CurBlocks).entries)
              IN SetLastEpoch([CurEpoch EXCEPT !.blocks[nb].entries[ne].txs = Append(@, tx)])
         /\ nsig' = nsig + 1 /\ UNCHANGED done
NTx == Len(AllTxRows(arch))
\* the walk cannot grow any further (every bound reached): finishing is allowed even below MinTx / MinEpochs
Stuck == /\ Len(CurBlocks) = MaxBlocks /\ Len(Last(CurBlocks).entries) = MaxEntries
         /\ Len(Last(Last(CurBlocks).entries).txs) = MaxTxs
         /\ (Len(arch) = MaxEpochs \/ \A e \in EpochSet : e <= CurEpoch.epoch)
Finish == /\ ~done /\ arch # <<>> /\ EpochHasTx(CurEpoch) /\ ((Len(arch) >= MinEpochs /\ NTx >= MinTx) \/ Stuck) /\ done' = TRUE /\ UNCHANGED <<arch, nsig>>
GNext == NewEpoch \/ NewBlock \/ NewEntry \/ NewTx \/ Finish
GSpec == GInit /\ [][GNext]_gvars
Emit == done => PrintT("@@CASE@@ " \o ToJson([arch |-> arch]))
====
