---- MODULE Trace_EpochOps ----
(* Trace validation of the real MultiEpoch against EpochOps (growth, attached to C09's engine).
   obs.ndjson: one record per executed operation [op, args, reply, numbers, closed] in execution order, sequences separated
   by a record with op = "reset".  A record is matched by taking a step of EpochOps.Next whose recorded reply, resulting
   epoch numbers and set of closed objects equal the observed ones (the model's nondeterminism - which epoch a
   RemoveEpochByConfigFilepath removes when several were loaded from one path - is resolved by the observation).
   When no step matches, the sequence is rejected (@@REJECT@@ line) and validation continues at the next sequence. *)
EXTENDS EpochOps, SequencesExt
Trace == ndJsonDeserialize("obs.ndjson")
VARIABLE l
tvars == <<disk, objs, served, pending, log, l>>
ToSetOf(s) == {s[i] : i \in 1..Len(s)}
Match(r) == /\ Next
            /\ LET m == log'[Len(log')] IN
               /\ m.op = r.op /\ m.args = r.args /\ m.reply = r.reply
               /\ m.numbers = r.numbers /\ m.closed = ToSetOf(r.closed)
NextReset(i) == IF \E j \in i..Len(Trace) : Trace[j].op = "reset" THEN CHOOSE j \in i..Len(Trace) : Trace[j].op = "reset" /\ \A k \in i..(j - 1) : Trace[k].op # "reset"
                ELSE Len(Trace) + 1
TInit == Init /\ l = 1
Step == /\ l <= Len(Trace) /\ Trace[l].op # "reset"
        /\ Match(Trace[l]) /\ l' = l + 1
Reset == /\ l <= Len(Trace) /\ Trace[l].op = "reset"
         /\ disk' = [f \in Files |-> NoFile] /\ objs' = <<>> /\ served' = [e \in Epochs |-> None] /\ pending' = <<>> /\ log' = <<>>
         /\ l' = l + 1
Skip == /\ l <= Len(Trace) /\ Trace[l].op # "reset"
        /\ ~ENABLED Match(Trace[l])
        /\ PrintT("@@REJECT@@ " \o ToString(l))
        /\ l' = NextReset(l)
        /\ UNCHANGED <<disk, objs, served, pending, log>>
TNext == Step \/ Reset \/ Skip
TSpec == TInit /\ [][TNext]_tvars
HW == TLCSet(1, l)
Done == PrintT("@@CONSUMED@@ " \o ToString(TLCGet(1) - 1))
====
