---- MODULE ParserFaults ----
(* C12 - parsers of external data return errors, never crash, on arbitrary bytes.

   Vocabulary: a *format* is the sequence of fields a parser consumes front to back.  Every field whose VALUE the
   parser uses as a size, a count, a slice bound or a file offset is a place where the file controls the parser:

     role      the parser does with the value v (unit u, fixed buffer / remaining input r)
     "len"     allocates v bytes and reads them fully                     -> must check v <= r (or a fixed cap)
     "count"   allocates v elements of u bytes, then reads them           -> must check v*u <= r (or a fixed cap)
     "bound"   slices a buffer of u bytes at [0:v] / [v:]                 -> must check v <= u
     "minlen"  like "len", and later reads fixed positions < u in it      -> must also check v >= u
     "ptr"     issues ReadAt at offset v (+ small constant)               -> needs no check if arithmetic cannot wrap
     "sub"     computes v - c (c >= 0 read earlier) and allocates that    -> must check v >= c
     "plain"   compares / stores the value                                -> nothing

   One run = one (format, field, value class): the field is overwritten with a value of the class, everything else is the
   valid file.  The parser walks the fields; at the mutated field its guard (if Guarded) turns the bad value into "error";
   without the guard the use of the value decides: an out-of-range slice or a negative make is "panic", an allocation
   beyond AllocCap is "alloc".  The invariants say what C12 says: no panic, no hang, no allocation out of proportion.
   With Guarded = FALSE the same model must violate them for every guarded role (negative control, and the reason each
   (field, class) pair is worth replaying on the real parser).

   TLC enumerates every (format, field, class) as an initial state and prints it (with the outcome a fully guarded
   parser gives) as a replay case: this is the property's "every length/count field set to 0, 1, max, and to values
   inconsistent with the file size". *)
EXTENDS Naturals, Integers, Sequences, FiniteSets, TLC, Json

CONSTANTS Guarded

\* abstract magnitudes: the file has Size bytes; AllocCap is the largest allocation still "in proportion"
Size == 8
AllocCap == 16
Huge == 1000                      \* stands for 2^31 .. 2^64-1 (larger than any cap; products / sums with it wrap)

F(name, base, off, w, enc, role, unit) == [name |-> name, base |-> base, off |-> off, w |-> w, enc |-> enc, role |-> role, unit |-> unit]

(* base: how the replayer finds the field in the concrete valid file
     "start"      absolute offset
     "aftermeta"  after the index metadata block (key/value pairs) that follows the fixed header
     "bucket0"    the header of the first non-empty bucket (compact index) / the first bucket (sig-exists)
     "record0"    the first record of the linked log / the first section of the CAR
     "meta"       the index metadata block itself
     "frame"      a crafted zstd frame replaces the compressed blob *)
Formats == [
  compactindexsized |-> <<
      F("magic",        "start", 0, 8, "le", "plain", 0),
      F("headerLen",    "start", 8, 4, "le", "minlen", 13),
      F("valueSize",    "start", 12, 8, "le", "bound", 252),
      F("numBuckets",   "start", 20, 4, "le", "plain", 0),
      F("version",      "start", 24, 1, "le", "plain", 0),
      F("metaCount",    "meta", 0, 1, "le", "count", 2),
      F("metaKeyLen",   "meta", 1, 1, "le", "len", 1),
      F("metaValueLen", "meta", 3, 1, "le", "len", 1),
      F("bucketHashDomain", "bucket0", 0, 4, "le", "plain", 0),
      F("bucketNumEntries", "bucket0", 4, 4, "le", "count", 1),
      F("bucketHashLen",    "bucket0", 8, 1, "le", "bound", 3),
      F("bucketFileOffset", "bucket0", 10, 6, "le", "ptr", 0) >>,
  compactindex_deprecated |-> <<
      F("magic",        "start", 0, 8, "le", "plain", 0),
      F("fileSize",     "start", 8, 8, "le", "plain", 0),
      F("numBuckets",   "start", 16, 4, "le", "plain", 0),
      F("bucketNumEntries", "bucket0", 4, 4, "le", "count", 1),
      F("bucketHashLen",    "bucket0", 8, 1, "le", "bound", 3),
      F("bucketFileOffset", "bucket0", 10, 6, "le", "ptr", 0) >>,
  compactindex36_deprecated |-> <<
      F("magic",        "start", 0, 8, "le", "plain", 0),
      F("fileSize",     "start", 8, 8, "le", "plain", 0),
      F("numBuckets",   "start", 16, 4, "le", "plain", 0),
      F("bucketNumEntries", "bucket0", 4, 4, "le", "count", 1),
      F("bucketHashLen",    "bucket0", 8, 1, "le", "bound", 3),
      F("bucketFileOffset", "bucket0", 10, 6, "le", "ptr", 0) >>,
  sigexists |-> <<
      F("headerSize",   "start", 0, 4, "le", "len", 1),
      F("magic",        "start", 4, 8, "le", "plain", 0),
      F("version",      "start", 12, 8, "le", "plain", 0),
      F("metaCount",    "meta", 0, 1, "le", "count", 2),
      F("metaKeyLen",   "meta", 1, 1, "le", "len", 1),
      F("numPrefixes",  "aftermeta", 0, 8, "le", "count", 10),
      F("prefix0",      "aftermeta", 8, 2, "le", "plain", 0),
      F("offset0",      "aftermeta", 10, 8, "le", "ptr", 0),
      F("bucketNumHashes", "bucket0", 0, 4, "le", "count", 8) >>,
  sigexists_deprecated |-> <<
      F("headerSize",   "start", 0, 4, "le", "len", 1),
      F("magic",        "start", 4, 8, "le", "plain", 0),
      F("version",      "start", 12, 8, "le", "plain", 0),
      F("numPrefixes",  "start", 20, 8, "le", "count", 10),
      F("offset0",      "start", 30, 8, "le", "ptr", 0) >>,
  blocktime |-> <<
      F("magic",        "start", 0, 14, "le", "plain", 0),
      F("start",        "start", 14, 8, "le", "plain", 0),
      F("end",          "start", 22, 8, "le", "plain", 0),
      F("epoch",        "start", 30, 8, "le", "plain", 0),
      F("capacity",     "start", 38, 8, "le", "count", 4) >>,
  gsfa_manifest |-> <<
      F("magic",        "start", 0, 8, "le", "plain", 0),
      F("version",      "start", 8, 8, "le", "plain", 0),
      F("metaCount",    "meta", 0, 1, "le", "count", 2),
      F("metaKeyLen",   "meta", 1, 1, "le", "len", 1),
      F("metaValueLen", "meta", 3, 1, "le", "len", 1) >>,
  gsfa_linkedlog |-> <<
      F("recordLen",    "record0", 0, 0, "uvarint", "sub", 9),
      F("zstdMagic",    "record0", 1, 4, "le", "plain", 0),
      F("zstdFrameHdr", "record0", 5, 1, "le", "plain", 0) >>,
  car |-> <<
      F("headerLen",    "start", 0, 0, "uvarint", "len", 1),
      F("sectionLen",   "record0", 0, 0, "uvarint", "sub", 36),
      F("cidVersion",   "record0", 1, 1, "le", "plain", 0),
      F("cidCodec",     "record0", 2, 1, "le", "plain", 0),
      F("cidHashFn",    "record0", 3, 1, "le", "plain", 0),
      F("cidHashLen",   "record0", 4, 1, "le", "len", 1) >>,
  \* a zstd frame in place of every compressed blob a parser decodes (linked-log record payload, transaction metadata):
  \* magic, frame-header descriptor announcing an 8-byte content-size field, a window descriptor (absent in a single-segment
  \* frame), the declared content size, one raw block of one byte.  A decoder may allocate the window or the declared size
  \* up front: both are lengths the file controls.
  zstd_frame |-> <<
      F("windowDescriptor", "frame", 5, 1, "le", "len", 1),
      F("frameContentSize", "frame", 6, 8, "le", "len", 1) >>,
  indexmeta |-> <<
      F("metaCount",    "start", 0, 1, "le", "count", 2),
      F("metaKeyLen",   "start", 1, 1, "le", "len", 1),
      F("metaValueLen", "start", 3, 1, "le", "len", 1) >>
]

\* unitm1 / unit / unitp1: one below, at and one above the constant the field's guard compares with (the field's `unit`:
\* minimum header length 13, maximum value size 252, hash length 3, 9 bytes of pointer behind a record's payload, ...)
Classes == {"zero", "one", "origm1", "origp1", "size", "sizep1", "pow31", "pow32m1", "pow63", "max", "unitm1", "unit", "unitp1"}

\* abstract value of a class for a field whose valid value is consistent (orig = 2, remaining input = Size)
Orig == 2
Val(c) == CASE c = "zero" -> 0 [] c = "one" -> 1 [] c \in {"origm1", "unitm1"} -> Orig - 1 [] c \in {"origp1", "unitp1"} -> Orig + 1 [] c = "unit" -> Orig
            [] c = "size" -> Size [] c = "sizep1" -> Size + 1 [] OTHER -> Huge

VARIABLES fmt, mut, class, pc, outcome, alloc
vars == <<fmt, mut, class, pc, outcome, alloc>>

FormatNames == DOMAIN Formats
Fields(f) == Formats[f]

Init == /\ fmt \in FormatNames
        /\ mut \in 1..Len(Formats[fmt])
        /\ class \in Classes
        /\ pc = 1
        /\ outcome = "running"
        /\ alloc = 0

\* what a *checked* use of value v in role r makes of it ("go on" = the value is usable)
GuardVerdict(r, u, v) ==
    CASE r = "len"    -> IF v > Size THEN "error" ELSE "go"
      [] r = "count"  -> IF v > Size THEN "error" ELSE "go"              \* v elements of u bytes: v*u <= remaining, abstracted to v <= Size
      [] r = "bound"  -> IF v > Orig + 1 THEN "error" ELSE "go"        \* Orig+1 plays the fixed buffer size
      [] r = "minlen" -> IF v < Orig \/ v > Size THEN "error" ELSE "go"
      [] r = "sub"    -> IF v < Orig \/ v > Size THEN "error" ELSE "go"
      [] OTHER        -> "go"

\* what an *unchecked* use does
RawVerdict(r, u, v) ==
    CASE r = "len"    -> IF v > AllocCap THEN "alloc" ELSE IF v > Size THEN "error" ELSE "go"   \* ReadFull fails after allocating
      [] r = "count"  -> IF v > AllocCap THEN "alloc" ELSE IF v > Size THEN "error" ELSE "go"
      [] r = "bound"  -> IF v > Orig + 1 THEN "panic" ELSE "go"
      [] r = "minlen" -> IF v < Orig THEN "panic" ELSE IF v > AllocCap THEN "alloc" ELSE IF v > Size THEN "error" ELSE "go"
      [] r = "sub"    -> IF v < Orig THEN "panic" ELSE IF v > AllocCap THEN "alloc" ELSE IF v > Size THEN "error" ELSE "go"
      [] OTHER        -> "go"

Step == /\ outcome = "running"
        /\ pc <= Len(Formats[fmt])
        /\ LET fld == Formats[fmt][pc]
               v == IF pc = mut THEN Val(class) ELSE Orig
               verdict == IF Guarded THEN GuardVerdict(fld.role, fld.unit, v) ELSE RawVerdict(fld.role, fld.unit, v)
           IN /\ alloc' = IF fld.role \in {"len", "count", "minlen", "sub"} /\ verdict \in {"go", "alloc"} /\ v > alloc THEN v
                          ELSE IF ~Guarded /\ fld.role \in {"len", "count"} /\ verdict = "error" /\ v > alloc THEN v ELSE alloc
              /\ IF verdict = "go"
                   THEN \* a changed plain value (magic, version, hash, ...) is an ordinary mismatch: error or a different answer
                        /\ outcome' = IF pc = mut /\ fld.role = "plain" /\ class \notin {"origm1", "unit"} THEN "error" ELSE "running"
                        /\ pc' = pc + 1
                   ELSE /\ outcome' = verdict
                        /\ pc' = pc
        /\ UNCHANGED <<fmt, mut, class>>

Finish == /\ outcome = "running" /\ pc > Len(Formats[fmt])
          /\ outcome' = "ok"
          /\ UNCHANGED <<fmt, mut, class, pc, alloc>>

Next == Step \/ Finish
Spec == Init /\ [][Next]_vars

NeverCrashes == outcome \in {"running", "ok", "error"}
BoundedAlloc == alloc <= AllocCap
Terminates == <>(outcome # "running")

\* replay cases: one per initial state, printed when the run ends
Emit == (outcome # "running") =>
          LET fld == Formats[fmt][mut] IN
          PrintT("@@CASE@@ " \o ToJson([format |-> fmt, field |-> fld.name, base |-> fld.base, off |-> fld.off, w |-> fld.w, enc |-> fld.enc,
                                        role |-> fld.role, unit |-> fld.unit, class |-> class, expect |-> outcome]))
====
