---------------------------- MODULE EpochLoadAbs ----------------------------
(* C10, the property itself: which configurations may load.  A configuration assigns to each index role a file
   <<kind, source>>; sources are the replay fixtures A = epoch 1 / CAR X, B = epoch 2 / CAR Y, C = epoch 1 / CAR Z and
   D = the indexes of CAR X built by the per-index commands with a wrong --epoch (epoch 2, root X), so that kind,
   epoch and root vary independently.
   Loading may succeed only if every role's file has the role's kind and the configured epoch and all rooted
   roles share one root (the slot-to-blocktime index records no root). *)
EXTENDS Naturals, Sequences, FiniteSets
Roles == <<"cid", "slot", "sig", "gsfa", "sigexists", "blocktime">>   \* order in which the code opens them
RoleSet == {Roles[i] : i \in 1..Len(Roles)}
\* field-level deviations of A's own files (everything else byte-identical):
\*   Ae = the recorded epoch alone replaced by epoch 2,  Ar = the recorded root CID alone replaced by CAR Z's root,
\*   Am = (address index only) the manifest's epoch alone replaced, the pubkey index inside the directory untouched
Sources == {"A", "B", "C", "D", "Ae", "Ar", "Am"}
SrcEpoch(s) == IF s \in {"B", "D", "Ae", "Am"} THEN 2 ELSE 1
SrcRoot(s) == CASE s = "A" -> "X" [] s = "B" -> "Y" [] s = "C" -> "Z" [] s = "D" -> "X" [] s = "Ae" -> "X" [] s = "Am" -> "X" [] s = "Ar" -> "Z"
\* a file is identified by <<kind, source>>
FileEpoch(f) == SrcEpoch(f.src)
FileRoot(f) == IF f.kind = "blocktime" THEN "none" ELSE SrcRoot(f.src)
\* (a slot-to-blocktime index cannot be built with a wrong epoch: its slots would be out of range)
Files == {f \in [kind : RoleSet, src : Sources] : ~(f.kind = "blocktime" /\ f.src = "D") /\ (f.src = "Am" => f.kind = "gsfa")}

ConsistentCfg(e, a) == /\ \A r \in RoleSet : a[r].kind = r /\ FileEpoch(a[r]) = e
                       /\ \A r, q \in RoleSet \ {"blocktime"} : FileRoot(a[r]) = FileRoot(a[q])
=============================================================================
