----------------------------- MODULE GsfaPaging -----------------------------
(* C07, code-shaped model of gsfa/gsfa-read-multiepoch.go iterBeforeUntil (one action per loop head / branch:
   `reachedBefore` carried across epochs, per epoch head lookup (address absent => continue with the next epoch),
   per linked-log record, per entry: skip until `before`, limit checks at three places, stop after `until`)
   and of the response assembly of multiepoch-getSignaturesForAddress.go (per-epoch result lists concatenated
   in descending epoch order; MapOrder = TRUE models the pinned tree, which ranged over a Go map).
   Every (batch layout per epoch, limit, before, until) is an initial state; each is also printed as a replay case. *)
EXTENDS Naturals, Sequences, FiniteSets, TLC, SequencesExt, Json
CONSTANTS MaxPerEpoch, NEpochs, MapOrder
\* an epoch history: sequence of batches (linked-log records), newest first; each batch newest first
\* signatures are numbered globally newest-first 1..total so that the flat history is <<1,..,total>>

Compositions(n) == \* all ways to cut n items into consecutive non-empty batches
  LET RECURSIVE C(_) C(k) == IF k = 0 THEN {<<>>} ELSE UNION {{<<j>> \o r : r \in C(k - j)} : j \in 1..k} IN C(n)

VARIABLES sizes,    \* [1..NEpochs -> Seq of batch sizes]; <<>> = address absent from the epoch
          limit, before, until,   \* 0 = nil, total+1 = a signature that is not in the history
          pc, ei, bi, xi, reached, out, base, resp
vars == <<sizes, limit, before, until, pc, ei, bi, xi, reached, out, base, resp>>

Sum(s) == FoldLeft(LAMBDA a, b : a + b, 0, s)
Total == Sum([e \in 1..NEpochs |-> Sum(sizes[e])])
\* id of entry xi of batch bi of epoch ei, given base = number of entries before this batch
Id == base + xi

Init == /\ sizes \in [1..NEpochs -> UNION {Compositions(n) : n \in 0..MaxPerEpoch}]
        /\ limit \in 0..(Sum([e \in 1..NEpochs |-> Sum(sizes[e])]) + 1)
        /\ before \in 0..(Sum([e \in 1..NEpochs |-> Sum(sizes[e])]) + 1)
        /\ until \in 0..(Sum([e \in 1..NEpochs |-> Sum(sizes[e])]) + 1)
        /\ pc = "start" /\ ei = 1 /\ bi = 1 /\ xi = 1 /\ reached = FALSE /\ out = <<>> /\ base = 0 /\ resp = <<>>

Start == /\ pc = "start"
         /\ IF limit = 0 THEN pc' = "done" /\ UNCHANGED reached
            ELSE pc' = "epoch" /\ reached' = (before = 0)
         /\ UNCHANGED <<sizes, limit, before, until, ei, bi, xi, out, base, resp>>

\* for readerIndex, index := range multi.epochs
Epoch == /\ pc = "epoch"
         /\ IF ei > NEpochs THEN pc' = "done" /\ UNCHANGED <<bi, xi>>
            ELSE IF sizes[ei] = <<>> THEN pc' = "nextEpoch" /\ UNCHANGED <<bi, xi>>   \* not found -> continue epochLoop
            ELSE pc' = "record" /\ bi' = 1 /\ xi' = 1
         /\ UNCHANGED <<sizes, limit, before, until, ei, reached, out, base, resp>>

NextEpoch == /\ pc = "nextEpoch"
             \* skip the unread remainder of this epoch when leaving early: base must advance past it
             /\ base' = Sum([e \in 1..ei |-> Sum(sizes[e])])
             /\ ei' = ei + 1 /\ pc' = "epoch"
             /\ UNCHANGED <<sizes, limit, before, until, bi, xi, reached, out, resp>>

\* for { if next.IsZero() continue epochLoop; if count >= limit break epochLoop; read record ...
Record == /\ pc = "record"
          /\ IF bi > Len(sizes[ei]) THEN pc' = "nextEpoch" /\ UNCHANGED xi
             ELSE IF Len(out) >= limit THEN pc' = "done" /\ UNCHANGED xi
             ELSE pc' = "entry" /\ xi' = 1
          /\ UNCHANGED <<sizes, limit, before, until, ei, bi, reached, out, base, resp>>

Entry == /\ pc = "entry"
         /\ IF xi > sizes[ei][bi]
              THEN /\ pc' = "record" /\ bi' = bi + 1 /\ base' = base + sizes[ei][bi]
                   /\ UNCHANGED <<xi, reached, out>>
              ELSE IF ~reached /\ Id = before
                THEN reached' = TRUE /\ xi' = xi + 1 /\ UNCHANGED <<pc, bi, base, out>>
              ELSE IF ~reached
                THEN xi' = xi + 1 /\ UNCHANGED <<pc, bi, base, out, reached>>
              ELSE IF Len(out) >= limit
                THEN pc' = "done" /\ UNCHANGED <<xi, bi, base, out, reached>>
              ELSE /\ out' = Append(out, Id)
                   /\ IF until # 0 /\ Id = until THEN pc' = "done" /\ UNCHANGED xi
                      ELSE xi' = xi + 1 /\ UNCHANGED pc
                   /\ UNCHANGED <<bi, base, reached>>
         /\ UNCHANGED <<sizes, limit, before, until, ei, resp>>

\* the handler: iterBeforeUntil returned a map epoch -> list; the response concatenates the per-epoch lists
EpochOfId(id) == CHOOSE e \in 1..NEpochs : LET lo == Sum([k \in 1..(e - 1) |-> Sum(sizes[k])]) IN lo < id /\ id <= lo + Sum(sizes[e])
PerEpoch(e) == SelectSeq(out, LAMBDA id : EpochOfId(id) = e)
Contributing == {e \in 1..NEpochs : PerEpoch(e) # <<>>}
Orders == IF MapOrder THEN {p \in [1..Cardinality(Contributing) -> Contributing] : \A i, j \in DOMAIN p : i # j => p[i] # p[j]}
          ELSE {SetToSortSeq(Contributing, LAMBDA a, b : a < b)}     \* epoch index 1 = newest epoch
Assemble == /\ pc = "done"
            /\ \E p \in Orders : resp' = FoldLeft(LAMBDA acc, e : acc \o PerEpoch(e), <<>>, p)
            /\ pc' = "replied"
            /\ UNCHANGED <<sizes, limit, before, until, ei, bi, xi, reached, out, base>>
Next == Start \/ Epoch \/ NextEpoch \/ Record \/ Entry \/ Assemble
Spec == Init /\ [][Next]_vars

\* ---- refinement of GsfaPagingAbs (ids are numbered newest-first 1..Total, so the flat history is <<1..Total>>) ----
PA == INSTANCE GsfaPagingAbs
Hist == [e \in 1..NEpochs |-> LET lo == Sum([k \in 1..(e - 1) |-> Sum(sizes[k])]) IN [i \in 1..Sum(sizes[e]) |-> lo + i]]
Correct == pc \in {"done", "replied"} => out = PA!Page(Hist, limit, before, until)
ResponseOrdered == pc = "replied" => resp = PA!Page(Hist, limit, before, until)
\* R2: every initial state is printed once as a replay case
Emit == pc = "start" => PrintT("@@CASE@@ " \o ToJson([sizes |-> sizes, limit |-> limit, before |-> before, until |-> until]))
=============================================================================
