---- MODULE Gen_RangeCache ----
(* R2 for C17: sequential histories (one reader) of RangeCache with a history variable. *)
EXTENDS RangeCache, Json
VARIABLE hist
SetToSeq(S) == LET RECURSIVE f(_) f(T) == IF T = {} THEN <<>> ELSE LET x == CHOOSE x \in T : TRUE IN <<x>> \o f(T \ {x}) IN f(S)
GInit == Init /\ hist = <<>>
H(op) == hist' = Append(hist, op)
GNext ==
    \/ \E s \in -1..Size, l \in -1..(Size+1) :
          \* a sequential GetRange = Lookup immediately followed by its Miss
          \/ (Lookup(1, s, l) /\ pend'[1] = <<>> /\ H([op |-> "get", s |-> s, l |-> l, d |-> <<>>]))
          \/ (Lookup(1, s, l) /\ pend'[1] # <<>> /\ UNCHANGED hist)
    \/ (Miss(1) /\ H([op |-> "get", s |-> pend[1][1], l |-> pend[1][2] - pend[1][1], d |-> <<>>]))
    \/ (pend[1] = <<>> /\ \E s \in 0..Size, l \in 0..Size : SetRange(s, l) /\ H([op |-> "set", s |-> s, l |-> l, d |-> <<>>]))
    \/ (pend[1] = <<>> /\ Expire /\ H([op |-> "expire", s |-> 0, l |-> 0, d |-> SetToSeq(Dom \ DOMAIN cache')]))
    \/ (pend[1] = <<>> /\ Toggle /\ H([op |-> "toggle", s |-> 0, l |-> 0, d |-> <<>>]))
GSpec == GInit /\ [][GNext]_<<vars, hist>>
Emit == (nops = MaxOps /\ pend[1] = <<>>) => PrintT("@@CASE@@ " \o ToJson([size |-> Size, ops |-> hist]))
====
