--------------------------- MODULE GsfaPagingAbs ---------------------------
(* C07, the property itself.  hist: per loaded epoch (newest epoch first) the newest-first sequence of entries of
   an address; Flat(hist) is its complete history.  An entry is identified by a signature id.
   Page = the contiguous run that starts just after `before` (0 = nil: at the newest entry; a `before` that is not
   in the history yields nothing), ends with `until` inclusive (0 = nil or absent: at the oldest entry), cut to
   `limit` entries - and the response lists exactly that, in that order.
   Slot-bounded variant: only entries with until <= slot < before, in history order, never more than `limit`. *)
EXTENDS Naturals, Sequences, SequencesExt
Flat(h) == FoldLeft(LAMBDA acc, e : acc \o e, <<>>, h)
IndexOf(s, x) == IF \E i \in 1..Len(s) : s[i] = x THEN CHOOSE i \in 1..Len(s) : s[i] = x ELSE 0
After(s, b) == IF b = 0 THEN s ELSE IF IndexOf(s, b) = 0 THEN <<>> ELSE SubSeq(s, IndexOf(s, b) + 1, Len(s))
UpTo(s, u) == IF u = 0 \/ IndexOf(s, u) = 0 THEN s ELSE SubSeq(s, 1, IndexOf(s, u))
Take(n, s) == SubSeq(s, 1, IF n < Len(s) THEN n ELSE Len(s))
Page(h, lim, b, u) == Take(lim, UpTo(After(Flat(h), b), u))
\* slot window: entries are [id, slot]; result must be a subsequence (in order) of the in-window history
IsSubSeqOf(r, s) == \* r is obtained from s by deleting elements
    LET RECURSIVE M(_, _) M(i, j) == IF i > Len(r) THEN TRUE ELSE IF j > Len(s) THEN FALSE
                                     ELSE IF r[i] = s[j] THEN M(i + 1, j + 1) ELSE M(i, j + 1) IN M(1, 1)
InWindow(e, before, until) == until <= e.slot /\ e.slot < before
WindowSound(h, lim, before, until, res) ==
    /\ Len(res) <= lim
    /\ IsSubSeqOf(res, SelectSeq(Flat(h), LAMBDA e : InWindow(e, before, until)))
\* what the index-accelerated stream relies on: the newest `lim` in-window entries (used for drift / C19)
WindowExact(h, lim, before, until) == Take(lim, SelectSeq(Flat(h), LAMBDA e : InWindow(e, before, until)))
=============================================================================
