------------------------------ MODULE AccumAbs ------------------------------
(* C15, the property itself.  A CAR is a header of Hdr bytes followed by sections; section j has a kind
   and a body length (CID + data); on disk it occupies VarintW(body) + body bytes.
   Block-by-block traversal must deliver, in file order, one group per flush-kind object: that object
   (the parent) with exactly the non-ignored objects stored since the previous parent, and a final group
   (parent = 0) with the trailing non-ignored objects, if any.  Every delivered object carries its true
   byte offset and section length.  An object is <<index, offset, sectionLength>>. *)
EXTENDS Naturals, Sequences, Util
\* car: sequence of [kind |-> k, body |-> n];  kinds "F" (flush kind), "K" (kept), "I" (ignored)
SecLen(car, j) == VarintW(car[j].body) + car[j].body
RECURSIVE OffsetOf(_, _, _)
OffsetOf(car, hdr, j) == IF j = 1 THEN hdr ELSE OffsetOf(car, hdr, j - 1) + SecLen(car, j - 1)
\* grouping, written without recursion over the CAR so that it also evaluates on CARs of thousands of sections
FIdx(car) == SelectSeq([j \in 1..Len(car) |-> j], LAMBDA j : car[j].kind = "F")
Between(car, lo, hi) == SelectSeq([j \in 1..(hi - lo - 1) |-> lo + j], LAMBDA j : car[j].kind = "K")
GroupsWith(car, Off(_)) ==
    LET f == FIdx(car)
        O(j) == <<j, Off(j), SecLen(car, j)>>
        Kids(lo, hi) == LET b == Between(car, lo, hi) IN [i \in 1..Len(b) |-> O(b[i])]
        main == [k \in 1..Len(f) |-> [parent |-> O(f[k]), kids |-> Kids(IF k = 1 THEN 0 ELSE f[k - 1], f[k])]]
        lastF == IF Len(f) = 0 THEN 0 ELSE f[Len(f)]
        trail == Kids(lastF, Len(car) + 1)
    IN IF trail = <<>> THEN main ELSE Append(main, [parent |-> <<0, 0, 0>>, kids |-> trail])
Groups(car, hdr) == GroupsWith(car, LAMBDA j : OffsetOf(car, hdr, j))
=============================================================================
