------------------------------ MODULE LinkedLog ------------------------------
(* C06/C13: framing of one linked-log record (gsfa/linkedlog/linked-log.go):
     record = uvarint(P) ++ zstd(entries) ++ 9-byte previous pointer,  P = |zstd| + 9
   Put stores (offset, total) with total = VarintW(P) + P in the pubkey index / previous pointers;
   ReadWithSize(offset, total) must skip exactly the stored prefix.
   FromTotal = TRUE  : the pinned reader, which derives the prefix width from `total` (sizeOfUvarint(size));
   FromTotal = FALSE : the repaired reader, which decodes the stored uvarint. *)
EXTENDS Util, Integers
CONSTANTS MaxP, FromTotal
VARIABLE p
Init == p \in 10..MaxP          \* a record has at least the 9-byte pointer and one payload byte
Next == UNCHANGED p
Spec == Init /\ [][Next]_p
WriterW == VarintW(p)
Total == WriterW + p
ReaderW == IF FromTotal THEN VarintW(Total) ELSE WriterW
\* the reader's view of the payload: bytes [ReaderW, Total) of the record; pointer = last 9 of them
FramingAgrees == ReaderW = WriterW
=============================================================================
