------------------------------ MODULE EpochSet ------------------------------
(* C09: MultiEpoch's epoch set guarded by a Go sync.RWMutex.
   Abs: the epoch set changes atomically (Add / Replace / Remove); every started operation completes; a listing is the
   set sorted newest first without duplicates.
   Impl: Go RWMutex semantics - a writer that has called Lock blocks NEW readers until it has acquired and released the
   lock (so a goroutine that takes RLock twice deadlocks when a writer arrives in between) - and per-operation LOCK
   PROGRAMS: the sequence of RLock / RUnlock / Lock / Unlock calls one goroutine of an operation performs.
   The programs are not written by hand: they are recorded from the current code (the mutex field is retyped to a
   tracing wrapper in an overlay copy) and read from "programs.ndjson" (one [name, prog] per line).
   Every multiset of NThreads programs with at least one writer is an initial state. *)
EXTENDS Naturals, Sequences, FiniteSets, TLC, Json
CONSTANT NThreads
Shapes == ndJsonDeserialize("programs.ndjson")
Thread == 1..NThreads
VARIABLES which,     \* [Thread -> index into Shapes]
          pc,        \* [Thread -> Nat] next op index
          readers,   \* number of active read holds
          held,      \* [Thread -> Nat] read holds per thread
          writer,    \* thread holding the write lock or 0
          pending,   \* set of threads that have called Lock and wait for readers to drain
          rwait,     \* set of threads blocked in RLock behind a pending/active writer
          sched      \* history: the lock calls in the order they were issued (replayed on the real code)
vars == <<which, pc, readers, held, writer, pending, rwait, sched>>
Prog(t) == Shapes[which[t]].prog
IsWriter(i) == \E k \in 1..Len(Shapes[i].prog) : Shapes[i].prog[k] = "Lock"
Init == /\ which \in {w \in [Thread -> 1..Len(Shapes)] : (\A t \in 1..(NThreads - 1) : w[t] <= w[t + 1]) /\ \E t \in Thread : IsWriter(w[t])}
        /\ pc = [t \in Thread |-> 1] /\ readers = 0 /\ held = [t \in Thread |-> 0] /\ writer = 0
        /\ pending = {} /\ rwait = {} /\ sched = <<>>
Op(t) == Prog(t)[pc[t]]
Live(t) == pc[t] <= Len(Prog(t))
Log(t, op) == sched' = Append(sched, [t |-> t, op |-> op])
\* RLock: blocks iff a writer has announced itself (pending or holding)
RLockCall(t) ==
    /\ Live(t) /\ Op(t) = "RLock" /\ t \notin rwait
    /\ IF pending # {} \/ writer # 0
         THEN rwait' = rwait \cup {t} /\ UNCHANGED <<pc, readers, held>>
         ELSE readers' = readers + 1 /\ held' = [held EXCEPT ![t] = @ + 1] /\ pc' = [pc EXCEPT ![t] = @ + 1] /\ UNCHANGED rwait
    /\ Log(t, "RLock") /\ UNCHANGED <<which, writer, pending>>
RLockWake(t) ==
    /\ t \in rwait /\ writer = 0 /\ pending = {}
    /\ rwait' = rwait \ {t} /\ readers' = readers + 1 /\ held' = [held EXCEPT ![t] = @ + 1] /\ pc' = [pc EXCEPT ![t] = @ + 1]
    /\ UNCHANGED <<which, writer, pending, sched>>
RUnlock(t) ==
    /\ Live(t) /\ Op(t) = "RUnlock" /\ held[t] > 0
    /\ readers' = readers - 1 /\ held' = [held EXCEPT ![t] = @ - 1] /\ pc' = [pc EXCEPT ![t] = @ + 1]
    /\ Log(t, "RUnlock") /\ UNCHANGED <<which, writer, pending, rwait>>
LockCall(t) ==
    /\ Live(t) /\ Op(t) = "Lock" /\ t \notin pending /\ pending = {} /\ writer = 0
    /\ pending' = {t} /\ Log(t, "Lock")
    /\ UNCHANGED <<which, pc, readers, held, writer, rwait>>
LockAcquire(t) ==
    /\ t \in pending /\ readers = 0
    /\ pending' = {} /\ writer' = t /\ pc' = [pc EXCEPT ![t] = @ + 1]
    /\ UNCHANGED <<which, readers, held, rwait, sched>>
Unlock(t) ==
    /\ Live(t) /\ Op(t) = "Unlock" /\ writer = t
    /\ writer' = 0 /\ pc' = [pc EXCEPT ![t] = @ + 1]
    /\ Log(t, "Unlock") /\ UNCHANGED <<which, readers, held, pending, rwait>>
Next == \E t \in Thread : RLockCall(t) \/ RLockWake(t) \/ RUnlock(t) \/ LockCall(t) \/ LockAcquire(t) \/ Unlock(t)
Spec == Init /\ [][Next]_vars
AllDone == \A t \in Thread : ~Live(t)
Stuck == ~AllDone /\ ~ENABLED Next
Exclusion == writer # 0 => readers = 0
\* every deadlocked state is reported with the programs and the schedule that leads to it (replayed on the real code);
\* the invariant itself never fails: a model deadlock is only a candidate until the real code hangs on it
DeadlockReport == Stuck => PrintT("@@CASE@@ " \o ToJson([ops |-> [t \in Thread |-> Shapes[which[t]].name], sched |-> sched,
                                                         blocked |-> [t \in Thread |-> Live(t)]]))
\* programs are balanced: a thread that finished holds nothing
Balanced == \A t \in Thread : ~Live(t) => held[t] = 0 /\ writer # t
\* the view leaves the history variable out
View == <<which, pc, readers, held, writer, pending, rwait>>
=============================================================================
