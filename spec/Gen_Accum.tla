---- MODULE Gen_Accum ----
(* R2 for C15: behaviours of Accum with the gated schedule as a history variable:
   "R" = the reader is granted one more section (or the end of file), "F" = the flusher delivers one group. *)
EXTENDS Accum, Json
VARIABLE ev
GInit == Init /\ ev = <<>>
GNext ==
    \/ (NewBuf /\ UNCHANGED ev)
    \/ (ReadLoop /\ ev' = IF pos' = pos + 1 THEN Append(ev, "R") ELSE ev)
    \/ (Eof /\ ev' = Append(ev, "R"))
    \/ (flusher /\ ev' = IF delivered' # delivered THEN Append(ev, "F") ELSE ev)
GSpec == GInit /\ [][GNext]_<<vars, ev>>
Emit == AllDone => PrintT("@@CASE@@ " \o ToJson([hdr |-> Hdr, cap |-> Cap, car |-> car, ev |-> ev, groups |-> Len(delivered)]))
====
