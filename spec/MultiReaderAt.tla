--------------------------- MODULE MultiReaderAt ---------------------------
(* C16, code-shaped model of split-car-fetcher/fetcher.go MultiReaderAt.ReadAt: transcription of the segment
   walk (offset table, `toRead = min(max(0, next-off), remaining)`, EOF only from the last segment, `off`
   advanced only after a full segment read), evaluated for every vector of piece sizes and every (off, len).
   The byte at absolute position p of the concatenation is p itself, so range equality is checkable. *)
EXTENDS Naturals, Integers, Sequences, TLC, SequencesExt, MultiReaderAbs
CONSTANTS MaxPieces, MaxSize
VARIABLES sizes, off, ln
vars == <<sizes, off, ln>>

Sum(s) == FoldLeft(LAMBDA a, b : a + b, 0, s)
Total == Sum(sizes)
\* content byte at absolute position p (0-based) is simply p (so equality of ranges is checkable)
Offsets == [i \in 1..Len(sizes) |-> Sum(SubSeq(sizes, 1, i - 1))]
MaxI(a, b) == IF a > b THEN a ELSE b
BIG == 1000000

\* underlying reader i (exact size): ReadAt(len, o) -> <<n, eof>>
SegRead(i, len, o) == IF o >= sizes[i] THEN <<0, TRUE>>
                      ELSE LET n == MinI(len, sizes[i] - o) IN <<n, n < len>>

\* transcription of MultiReaderAt.ReadAt's loop; state = [i, off, remaining, total, reachedEnd, got]
RECURSIVE Loop(_)
Loop(st) ==
    IF st.i > Len(sizes) THEN st
    ELSE LET offset == Offsets[st.i] IN
      IF st.off < offset THEN Loop([st EXCEPT !.i = @ + 1])
      ELSE
        LET nextOffset == IF st.i < Len(sizes) THEN Offsets[st.i + 1] ELSE BIG
            toRead == MinI(MaxI(0, nextOffset - st.off), st.remaining)
            r == SegRead(st.i, toRead, st.off - offset)
            n == r[1]
            reached == IF r[2] /\ st.i = Len(sizes) THEN TRUE ELSE st.reachedEnd
            st2 == [st EXCEPT !.total = @ + n, !.remaining = @ - n, !.reachedEnd = reached,
                              !.got = @ \o [k \in 1..n |-> st.off + k - 1],
                              !.off = IF n = toRead THEN @ + n ELSE @]
        IN IF st2.remaining = 0 THEN st2 ELSE Loop([st2 EXCEPT !.i = @ + 1])

Result == LET st == Loop([i |-> 1, off |-> off, remaining |-> ln, total |-> 0, reachedEnd |-> FALSE, got |-> <<>>])
          IN [n |-> st.total, eof |-> (st.remaining > 0 /\ st.reachedEnd), got |-> st.got]

\* refinement of MultiReaderAbs
Concat == [p \in 1..Total |-> p - 1]
Correct == ReadAllowed(Concat, off, ln, Result.n, IF Result.eof THEN "eof" ELSE "nil", Result.got)

SizeVecs == UNION {[1..k -> 0..MaxSize] : k \in 1..MaxPieces}
Init == /\ sizes \in SizeVecs
        /\ off \in 0..(MaxPieces * MaxSize + 2)
        /\ ln \in 0..(MaxPieces * MaxSize + 2)
Next == UNCHANGED vars
Spec == Init /\ [][Next]_vars
=============================================================================
