---- MODULE Gen_FirstSuccess ----
(* R2 for C18: enumerate (outcomes, limit, completion order) with the expected return, from the FirstSuccess model.
   Coarser than the PlusCal model: one step = one job completing (the only thing the gated replayer controls). *)
EXTENDS Naturals, Sequences, FiniteSets, TLC, Json
CONSTANT MaxN
VARIABLES n, limit, outcome, done, order
vars == <<n, limit, outcome, done, order>>
Jobs == 1..n
\* a job is running iff it has been launched and not finished; launched = first min(n, finished + limit) jobs (limit 0 = unlimited)
Launched == IF limit = 0 THEN Jobs ELSE {j \in Jobs : j <= Cardinality(done) + limit}
Init == /\ n \in 1..MaxN /\ limit \in 0..MaxN /\ outcome \in [1..MaxN -> {"ok", "err"}]
        /\ done = {} /\ order = <<>>
Complete(j) == /\ j \in Launched \ done /\ done' = done \cup {j} /\ order' = Append(order, j)
               /\ UNCHANGED <<n, limit, outcome>>
Next == \E j \in 1..MaxN : j <= n /\ Complete(j)
Spec == Init /\ [][Next]_vars
\* expected result: value of the first job in completion order that succeeded, else all errors
FirstOk == IF \E k \in 1..Len(order) : outcome[order[k]] = "ok"
           THEN order[CHOOSE k \in 1..Len(order) : outcome[order[k]] = "ok" /\ \A m \in 1..(k-1) : outcome[order[m]] = "err"]
           ELSE 0
Emit == (Cardinality(done) = n /\ \A j \in (n+1)..MaxN : outcome[j] = "err") =>
          PrintT("@@CASE@@ " \o ToJson([n |-> n, limit |-> limit, outcome |-> [j \in 1..n |-> outcome[j]], order |-> order, expect |-> FirstOk]))
====
