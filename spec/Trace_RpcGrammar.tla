---- MODULE Trace_RpcGrammar ----
(* R4 judge for C08: [proto, class, outcome \in {"response","error","panic","crash","hang"}, canary (server still
   answers a valid request afterwards)]. Totality: outcome is a response or an error status, and the canary is answered. *)
EXTENDS Naturals, Sequences, TLC, Json
Trace == ndJsonDeserialize("obs.ndjson")
VARIABLE l
Accept(r) == r.outcome \in {"response", "error"} /\ r.canary
Init == l = 1
Next == /\ l <= Len(Trace) /\ l' = l + 1
        /\ IF Accept(Trace[l]) THEN TRUE ELSE PrintT("@@REJECT@@ " \o ToString(l))
Spec == Init /\ [][Next]_l
HW == TLCSet(1, l)
Done == PrintT("@@CONSUMED@@ " \o ToString(TLCGet(1) - 1))
====
