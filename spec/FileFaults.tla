------------------------------ MODULE FileFaults ------------------------------
(* C13 (truncation) - and the vocabulary of C12's fault enumeration.
   Abs: a file f is cut at t < |f|.  For a key whose lookup on the complete file answers a, the lookup on f[0..t)
   answers a or fails with an error - never "not found", an empty result or another value; and it can only answer a
   when every byte the lookup reads lies below t.
   Impl: a lookup is a PROGRAM of ReadAt(off, len) steps (recorded from the real readers with a logging ReaderAt:
   header, bucket table entry, the eytzinger probes, ...).  A step that crosses t is a short read; the readers react to
   a short read of flavour (n < len, io.EOF) / (n < len, ErrUnexpectedEOF) / (0, EOF) / (0, other error) by failing
   (CheckShort = TRUE).  CheckShort = FALSE models a reader that treats `n < len, err = nil/EOF` as success and goes on
   with zero bytes: TLC shows that it can answer "not found" or a wrong value (negative configuration).
   Initial states: every program over a small file x every cut. *)
EXTENDS Naturals, Sequences, FiniteSets, TLC
CONSTANTS Size, MaxReads, CheckShort
VARIABLES prog, cut
vars == <<prog, cut>>
Reads == {r \in [off : 0..(Size - 1), len : 1..Size] : r.off + r.len <= Size}
Init == /\ prog \in UNION {[1..n -> Reads] : n \in 1..MaxReads} /\ cut \in 0..(Size - 1)
Next == UNCHANGED vars
Spec == Init /\ [][Next]_vars
Crosses(r) == r.off + r.len > cut
\* the complete file answers "a"; a checked reader fails at the first crossing read; an unchecked one computes with zeros
Answer == IF \E i \in 1..Len(prog) : Crosses(prog[i])
            THEN IF CheckShort THEN "error" ELSE "garbage"       \* garbage: not found / another value / by luck the same
            ELSE "a"
NeverSilentlyWrong == Answer \in {"a", "error"}
OnlyFromBytesRead == Answer = "a" => \A i \in 1..Len(prog) : ~Crosses(prog[i])
=============================================================================
