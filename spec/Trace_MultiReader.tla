---- MODULE Trace_MultiReader ----
(* R4 judge for C16.
   kind "reads": [concat |-> <<byte>>, reads |-> <<[off, ln, n, err, bytes]>>]   (MultiReaderAt / SplitCarReader)
   kind "split": output of the real split-car command, projected by an independent CAR walker:
       orig     |-> <<section id>> kept sections of the original CAR in file order (ids 1..k),
       families |-> <<<<section id>>>> the block families (children then block) in file order,
       pieces   |-> <<[hdr, content, file, hdrActual, regionOK, secs |-> <<id>> (0 = bytes differ from every original section)]>>,
       readback |-> <<id>> sections parsed from the reassembled CAR read through the split-CAR reader, headerOK,
       mergedlen, mergewant, mergedsame: the real merge-cars over the written pieces (growth, judged as drift) *)
EXTENDS MultiReaderAbs, SequencesExt, TLC, Json
Trace == ndJsonDeserialize("obs.ndjson")
VARIABLE l
AcceptReads(r) == r.err = "" /\ \A i \in 1..Len(r.reads) :
    LET x == r.reads[i] IN ReadAllowed(r.concat, x.off, x.ln, x.n, x.err, x.bytes)
FlatSecs(ps) == FoldLeft(LAMBDA a, b : a \o b.secs, <<>>, ps)
FlatFam(fs) == FoldLeft(LAMBDA a, b : a \o b, <<>>, fs)
\* each family is a contiguous run inside exactly one piece
FamilyWhole(ps, f) == \E k \in 1..Len(ps) : \E s \in 0..(Len(ps[k].secs) - Len(f)) :
                          SubSeq(ps[k].secs, s + 1, s + Len(f)) = f
AcceptSplit(r) ==
    /\ r.err = ""
    /\ FlatFam(r.families) = r.orig                       \* (harness sanity: families partition the kept sections)
    /\ FlatSecs(r.pieces) = r.orig                        \* every object once, byte-identical, original order
    /\ \A i \in 1..Len(r.families) : FamilyWhole(r.pieces, r.families[i])
    /\ \A k \in 1..Len(r.pieces) : LET p == r.pieces[k] IN
          p.regionOK /\ p.hdr = p.hdrActual /\ p.hdr + p.content <= p.file /\ p.secs # <<>>
          /\ p.trailok /\ p.trailing <= 2                   \* the rest of the file is the splitter's own index nodes (subset, epoch): well-formed sections
          /\ p.trailorig = 0                               \* nothing of the original CAR after the content region (an object is in ONE piece)
    /\ r.headerOK /\ r.readback = r.orig                  \* the reassembled CAR reads back as the original
\* kind "splitfault": a piece file cannot be created - fail loudly, or write everything all the same
Accept(r) == IF r.kind = "split" THEN AcceptSplit(r)
             ELSE IF r.kind = "splitfault" THEN r.loud \/ r.complete
             ELSE AcceptReads(r)
\* growth (not part of C16's statement): merge-cars of the written pieces = nul-root header ++ every piece without its header
MergeOK(r) == r.kind = "split" /\ r.err = "" => r.mergedsame
Init == l = 1
Next == /\ l <= Len(Trace) /\ l' = l + 1
        /\ IF ~Accept(Trace[l]) THEN PrintT("@@REJECT@@ " \o ToString(l))
           ELSE IF ~MergeOK(Trace[l]) THEN PrintT("@@REJECT@@ " \o ToString(l) \o " merge") ELSE TRUE
Spec == Init /\ [][Next]_l
HW == TLCSet(1, l)
Done == PrintT("@@CONSUMED@@ " \o ToString(TLCGet(1) - 1))
====
