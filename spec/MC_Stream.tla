---- MODULE MC_Stream ----
EXTENDS Stream
\* EpochLen = 10. accounts 1,2,3 static; 11 only ever loaded through an address table
T(s, a, l, v, fl, nm) == [sig |-> s, accts |-> a, loaded |-> l, vote |-> v, failed |-> fl, nometa |-> nm, dframes |-> 1, mframes |-> 1, pad |-> 0, mpad |-> 0]
B(slot, parent, entries) == [slot |-> slot, parent |-> parent, blocktime |-> 1000 + slot, height |-> slot + 7, entries |-> entries, rframes |-> 0]
E(txs) == [txs |-> txs]
MCArch == << [epoch |-> 1, blocks |-> << B(10, 9, <<E(<<T(1, <<1>>, <<>>, FALSE, FALSE, FALSE), T(2, <<2, 1>>, <<>>, TRUE, FALSE, FALSE)>>)>>),
                                        B(12, 10, <<E(<<>>), E(<<T(3, <<3>>, <<11>>, FALSE, TRUE, FALSE)>>)>>),
                                        B(13, 12, <<E(<<T(4, <<2>>, <<>>, FALSE, FALSE, TRUE), T(5, <<1, 3>>, <<>>, TRUE, TRUE, FALSE)>>)>>) >>],
             [epoch |-> 2, blocks |-> << B(21, 13, <<E(<<T(6, <<2>>, <<11>>, FALSE, FALSE, FALSE)>>), E(<<T(7, <<3, 2>>, <<>>, FALSE, FALSE, FALSE)>>)>>) >>] >>
MCLoaded == {{1}, {2}, {1, 2}}
MCRanges == {<<10, 13>>, <<11, 21>>, <<9, 25>>, <<12, 12>>, <<14, 19>>, <<13, 21>>, <<21, 30>>}
MCInc == {{}, {1}, {2}, {11}, {1, 3}, {2, 11}}
MCExc == {{}, {1}, {2, 3}}
MCReq == {{}, {2}, {1, 3}}
====
