---- MODULE Trace_Stream ----
(* R4 judge for C19. Record: [arch, loaded |-> <<epoch>>, op \in {"txs","blocks"}, start, end,
   f |-> [nil |-> TRUE] or [vote, failed, inc |-> <<acct>>, exc |-> <<acct>>, req |-> <<acct>>], index (address index loaded?),
   result |-> <<sig id>> (txs) or <<slot>> (blocks), err] - messages without a transaction payload are not listed. *)
EXTENDS StreamAbs, TLC, Json
Trace == ndJsonDeserialize("obs.ndjson")
VARIABLE l
IsNil(f) == "nil" \in DOMAIN f
Filt(f) == IF IsNil(f) THEN NilFilter ELSE [vote |-> f.vote, failed |-> f.failed, inc |-> SeqToSet(f.inc), exc |-> SeqToSet(f.exc), req |-> SeqToSet(f.req)]
Accept(r) == /\ r.err = ""
             /\ IF r.op = "txs" THEN r.result = StreamedTxs(r.arch, SeqToSet(r.loaded), r.start, r.end, Filt(r.f))
                ELSE r.result = StreamedBlocks(r.arch, SeqToSet(r.loaded), r.start, r.end, IF IsNil(r.f) THEN {} ELSE SeqToSet(r.f.inc))
Init == l = 1
Next == /\ l <= Len(Trace) /\ l' = l + 1
        /\ IF Accept(Trace[l]) THEN TRUE ELSE PrintT("@@REJECT@@ " \o ToString(l))
Spec == Init /\ [][Next]_l
HW == TLCSet(1, l)
Done == PrintT("@@CONSUMED@@ " \o ToString(TLCGet(1) - 1))
====
