---- MODULE Trace_Rpc ----
(* R4 judge for C02 / C03: one record per (archive, loaded epochs, concurrency) with the projected calls. *)
EXTENDS RpcAbs, TLC, Json
Trace == ndJsonDeserialize("obs.ndjson")
VARIABLE l
\* the position of each bad call is printed so that the engine can name it
BadCalls(r) == {i \in 1..Len(r.calls) : ~CallOK(r.arch, r.loaded, r.calls[i])}
Init == l = 1
Next == /\ l <= Len(Trace) /\ l' = l + 1
        /\ LET bad == BadCalls(Trace[l]) IN
           IF bad = {} THEN TRUE ELSE PrintT("@@REJECT@@ " \o ToString(l) \o " calls " \o ToString(bad))
Spec == Init /\ [][Next]_l
HW == TLCSet(1, l)
Done == PrintT("@@CONSUMED@@ " \o ToString(TLCGet(1) - 1))
====
