---- MODULE Gen_HashIndex ----
(* R2 for C04: the case space of the replay as a cross product; every class is printed once. *)
EXTENDS Naturals, Sequences, FiniteSets, TLC, Json
Formats == {"sized", "legacy8", "legacy36"}
VSizes == {1, 8, 9, 36, 48, 64, 252}
NClass == {"1", "2", "3", "7", "8", "9", "31", "33", "40", "255", "257", "1023", "1025", "2049", "9999", "10001", "20001", "60000"}
Declared == {"one", "tenth", "exact", "tenfold"}
Orders == {"asc", "desc", "shuffle"}
KeyClass == {"8", "0-and-1", "32", "64", "mixed", "65535", "lengths"}
Special == {"none", "one-bucket", "duplicate", "key-65536", "vsize-0", "vsize-253", "vsize-255", "vsize-256", "declared-0", "long-value", "short-values"}
\* metadata shapes of the sized format ("metadata of any allowed shape"): none; the typed writers' few short pairs; a pair with
\* empty key and value; the largest allowed metadata (255 pairs of 255-byte keys and values) and one byte less
MetaClass == {"none", "typed", "empty-pair", "max", "max-1"}
VARIABLES fmt, vs, nc, decl, ord, kc, sp, mt
vars == <<fmt, vs, nc, decl, ord, kc, sp, mt>>
Big(c) == c \in {"9999", "10001", "20001", "60000"}
Init == /\ fmt \in Formats /\ vs \in VSizes /\ nc \in NClass /\ decl \in Declared /\ ord \in Orders /\ kc \in KeyClass /\ sp \in Special /\ mt \in MetaClass
        /\ (mt # "none" => fmt = "sized" /\ sp = "none" /\ nc \in {"3", "40"} /\ ord = "shuffle" /\ decl = "exact" /\ kc = "32" /\ vs \in {8, 36})
        /\ (fmt = "legacy8" => vs = 8) /\ (fmt = "legacy36" => vs = 36)
        \* keep the product meaningful: specials and large populations are crossed with one setting of the other dimensions
        /\ (sp # "none" => ord = "shuffle" /\ decl = "exact" /\ kc = "32" /\ nc \in {"3", "40"} /\ vs \in {8, 36})
        \* the legacy builders have a fixed value type and the property's declared counts start at 1
        /\ (sp \in {"vsize-0", "vsize-253", "vsize-255", "vsize-256", "long-value", "declared-0", "short-values"} => fmt = "sized")
        /\ (Big(nc) => ord = "shuffle" /\ kc \in {"8", "32"} /\ vs \in {8, 36} /\ decl \in {"exact", "tenth"})
        /\ (kc = "65535" => nc \in {"2", "3"})
        /\ (kc = "lengths" => nc \in {"31", "40"} /\ ord = "shuffle" /\ decl = "exact")
        /\ (nc \in {"1023", "1025", "2049"} => kc = "32" /\ ord = "shuffle")
Next == UNCHANGED vars
Spec == Init /\ [][Next]_vars
Emit == PrintT("@@CASE@@ " \o ToJson([fmt |-> fmt, vsize |-> vs, n |-> nc, declared |-> decl, order |-> ord, keys |-> kc, special |-> sp, meta |-> mt]))
====
