---- MODULE Trace_SigExists ----
(* R4 judge for C05. One record per (format, reader kind) over one sealed file:
   buckets |-> <<[pop (distinct hashes added), dups, found (every added signature reported present), writer (the writer's
                 in-memory test agrees for added and absent probes), absentok (no absent probe reported present unless its
                 hash equals an added one), ranks |-> <<rank of each stored hash among the bucket's distinct hashes>> ]>>
   (hashes are 64-bit: the independent dump reports order-preserving ranks; <<>> for buckets that were not dumped),
   concurrent (all concurrent lookups of added signatures returned present), err *)
EXTENDS Naturals, Sequences, Util, TLC, Json
Trace == ndJsonDeserialize("obs.ndjson")
VARIABLE l
BucketOK(b) == /\ b.found /\ b.writer /\ b.absentok
               /\ (b.ranks # <<>> => b.ranks = Eytzinger([i \in 1..b.pop |-> i]))      \* on-disk order = eytzinger of the sorted set
Accept(r) == r.err = "" /\ r.concurrent /\ \A i \in 1..Len(r.buckets) : BucketOK(r.buckets[i])
Init == l = 1
Next == /\ l <= Len(Trace) /\ l' = l + 1
        /\ IF Accept(Trace[l]) THEN TRUE ELSE PrintT("@@REJECT@@ " \o ToString(l))
Spec == Init /\ [][Next]_l
HW == TLCSet(1, l)
Done == PrintT("@@CONSUMED@@ " \o ToString(TLCGet(1) - 1))
====
