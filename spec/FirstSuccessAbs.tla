-------------------------- MODULE FirstSuccessAbs --------------------------
(* C18, the property itself. A call with n jobs, job j succeeding with value j or failing with an
   error that names j, must return; it returns a value iff some job succeeds, and then the value of a job
   that succeeded; otherwise exactly the errors of all n jobs. *)
EXTENDS Naturals, Sequences, FiniteSets
OkJobs(n, outcome) == {j \in 1..n : outcome[j] = "ok"}
\* kind: "ok" | "errs" | "hang" | "panic";  val: returned value;  errjobs: jobs named by the returned errors
Allowed(n, outcome, kind, val, errjobs) ==
    IF OkJobs(n, outcome) # {}
      THEN kind = "ok" /\ val \in OkJobs(n, outcome)
      ELSE /\ kind = "errs" /\ Len(errjobs) = n
           /\ {errjobs[i] : i \in 1..Len(errjobs)} = 1..n
=============================================================================
