---- MODULE Trace_HashIndex ----
(* R4 judge for C04. found[i] covers the lookup through the file and through an io.ReaderAt that reports io.EOF together
   with a complete read ending at the end of the data (allowed by the io.ReaderAt contract). Record: [vsize, keys |-> <<key id>>, klens, vlens, outcome, found |-> <<BOOLEAN>>, deterministic,
   layout |-> <<[n, hashes |-> <<int>> (as stored), sortedok]>> per dumped bucket (independent parser), total] *)
EXTENDS HashIndexAbs, Util, TLC, Json
Trace == ndJsonDeserialize("obs.ndjson")
VARIABLE l
\* on-disk layout of every dumped bucket: distinct hashes, stored in eytzinger order of their sorted sequence
BucketOK(b) == LET s == SortedSeq({b.hashes[i] : i \in 1..Len(b.hashes)}) IN
               /\ Len(s) = Len(b.hashes)                 \* distinct
               /\ b.hashes = Eytzinger(s)
LayoutOK(r) == r.outcome = "ok" => /\ \A i \in 1..Len(r.layout) : BucketOK(r.layout[i])
                                   /\ r.total = Len(r.keys)
Accept(r) == /\ BuildAllowed(r.vsize, r.keys, r.klens, r.vlens, r.outcome, r.found, r.deterministic, r.metaok) /\ LayoutOK(r)
             \* supported inputs in buckets that are not over-full must build (r.sampled: the per-insert data is a sample,
             \* so MustFail is decided by the case class: r.mustfail)
             /\ (r.outcome = "err" => r.mustfail \/ MayFail(r.avgload))
Init == l = 1
Next == /\ l <= Len(Trace) /\ l' = l + 1
        /\ IF Accept(Trace[l]) THEN TRUE ELSE PrintT("@@REJECT@@ " \o ToString(l))
Spec == Init /\ [][Next]_l
HW == TLCSet(1, l)
Done == PrintT("@@CONSUMED@@ " \o ToString(TLCGet(1) - 1))
====
