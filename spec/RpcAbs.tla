------------------------------- MODULE RpcAbs -------------------------------
(* C02 + C03, the properties themselves, over the Ledger vocabulary.
   A call result is a record projected by the harness:
     getBlock:       [op, proto, slot, status, parent, blocktime, height, blockhash, prev, sigs, txsame, metasame]
                     blockhash / prev are entry-hash ids <<slot, entryIndex>> (<<-1,-1>> = a hash the archive does not
                     contain, <<-2,-2>> = absent);  sigs = signature ids of the returned transactions in order
     getTransaction: [op, proto, sig, status, slot, blocktime, pos, rsig, txsame, metasame]
     getBlockTime:   [op, proto, slot, status, blocktime]
   status \in {"ok", "notfound", "unavailable", "error", "panic"}.
   The bidirectional gRPC Get stream is a sequence of unary calls: one response per request, in request order, carrying the
   request's id, of the request's kind, or an in-band error that is NOT_FOUND exactly when the unary call is; the harness
   projects every stream response to the record of the corresponding unary call (proto "grpc", detail "Get stream: ..."), a
   missing / shifted / wrong-kind / wrong-id response to status "error".
   C02: for a key archived in a loaded epoch the call succeeds and reproduces the archive.
   C03: for any other key the answer is not-found / epoch-not-available - never an object of another key. *)
EXTENDS Ledger
Loaded(ld, e) == \E i \in 1..Len(ld) : ld[i] = e
FindTx(arch, sig) == LET rows == AllTxRows(arch) IN
    IF \E i \in 1..Len(rows) : rows[i].tx.sig = sig THEN rows[CHOOSE i \in 1..Len(rows) : rows[i].tx.sig = sig] ELSE [slot |-> -1]
Absent(c) == c.status \in {"notfound", "unavailable"}
\* gRPC cannot express "no height recorded": the field is 0 then
HeightOK(c, b) == IF c.proto = "grpc" THEN c.height = (IF b.height = -1 THEN 0 ELSE b.height) ELSE c.height = b.height
BlockOK(arch, ld, c) ==
    LET b == FindBlock(arch, c.slot) IN
    IF b # NoBlock /\ Loaded(ld, EpochOf(c.slot))
      THEN /\ c.status = "ok" /\ c.parent = b.parent
           \* slot 0 is answered with the genesis creation time and height 0 (what Solana's RPC does)
           /\ (c.slot = 0 \/ (c.blocktime = b.blocktime /\ HeightOK(c, b)))
           /\ c.blockhash = LastEntry(b)
           /\ (ParentInSameEpoch(arch, b) => c.prev = LastEntry(FindBlock(arch, b.parent)))
           /\ c.sigs = BlockSigs(b) /\ c.txsame /\ c.metasame
      ELSE Absent(c)
TxOK(arch, ld, c) ==
    LET r == FindTx(arch, c.sig) IN
    IF r.slot # -1 /\ Loaded(ld, EpochOf(r.slot))
      THEN /\ c.status = "ok" /\ c.slot = r.slot /\ c.blocktime = r.blocktime /\ c.rsig = c.sig
           /\ (c.pos = r.pos \/ c.proto = "json")            \* the JSON response carries no position
           /\ c.txsame /\ c.metasame
      ELSE Absent(c)
BlockTimeOK(arch, ld, c) ==
    LET b == FindBlock(arch, c.slot) IN
    IF b # NoBlock /\ Loaded(ld, EpochOf(c.slot)) THEN c.status = "ok" /\ c.blocktime = b.blocktime
    \* neither property constrains getBlockTime for a slot without a block beyond not inventing a time
    ELSE Absent(c) \/ c.blocktime = 0
\* getSlot / getFirstAvailableBlock: the last block of the newest loaded epoch / the first block of the oldest one
\* (beyond the listed properties: the same "reproduce the archive" reading applied to the two edge queries)
LoadedEpochs(arch, ld) == {e \in {arch[i].epoch : i \in 1..Len(arch)} : Loaded(ld, e)}
MaxOf(S) == CHOOSE x \in S : \A y \in S : y <= x
MinOf(S) == CHOOSE x \in S : \A y \in S : x <= y
EdgeOK(arch, ld, c, newest) ==
    LET es == LoadedEpochs(arch, ld) IN
    IF es = {} THEN c.status # "ok"
    ELSE LET bs == BlocksOf(arch, IF newest THEN MaxOf(es) ELSE MinOf(es)) IN
         IF Len(bs) = 0 THEN c.status # "ok"
         ELSE c.status = "ok" /\ c.slot = (IF newest THEN bs[Len(bs)].slot ELSE bs[1].slot)
CallOK(arch, ld, c) ==
    CASE c.op = "getBlock" -> BlockOK(arch, ld, c)
      [] c.op = "getTransaction" -> TxOK(arch, ld, c)
      [] c.op = "getBlockTime" -> BlockTimeOK(arch, ld, c)
      \* fetch by CID through one epoch: a stored CID (sig >= 0: its section index) yields exactly that object's bytes,
      \* any other CID never yields bytes
      \* REST: the CID of the archived block / transaction (c.txsame: the body is exactly that CID), 404 otherwise
      [] c.op = "api.slot-to-cid" -> LET b == FindBlock(arch, c.slot) IN
                                     IF b # NoBlock /\ Loaded(ld, EpochOf(c.slot)) THEN c.status = "ok" /\ c.txsame ELSE c.status # "ok"
      [] c.op = "api.sig-to-cid" -> LET r == FindTx(arch, c.sig) IN
                                    IF r.slot # -1 /\ Loaded(ld, EpochOf(r.slot)) THEN c.status = "ok" /\ c.txsame ELSE c.status # "ok"
      [] c.op = "getSlot" -> EdgeOK(arch, ld, c, TRUE)
      [] c.op = "getFirstAvailableBlock" -> EdgeOK(arch, ld, c, FALSE)
      \* getGenesisHash: epoch 0 carries the genesis configuration; answered (with the cluster's genesis hash: c.txsame) exactly
      \* when epoch 0 is loaded
      [] c.op = "getGenesisHash" -> IF 0 \in LoadedEpochs(arch, ld) THEN c.status = "ok" /\ c.txsame ELSE c.status # "ok"
      [] c.op = "getNode" -> IF c.sig >= 0 THEN c.status = "ok" /\ c.txsame ELSE c.status # "ok"
      [] OTHER -> FALSE
=============================================================================
