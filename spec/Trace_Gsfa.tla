---- MODULE Trace_Gsfa ----
(* R4 judge for C06: every recorded execution of the real writer + reader must satisfy GsfaAbs:
   for every address, the locations read back = the indices of the pushes that mention it, newest first.
   Record: [kind, pushed |-> <<[e |-> entry, addrs |-> <<addr,..>>],..>>, addrs |-> judged addresses,
            got |-> [addr |-> <<entry,..>>], err |-> ""]  (pushed may be projected to the judged addresses) *)
EXTENDS GsfaAbs, TLC, Json
Trace == ndJsonDeserialize("obs.ndjson")
VARIABLE l
Mentions(p, a) == \E k \in 1..Len(p) : p[k] = a
\* entries are <<offset(=push id), size, slot, flags>>
AcceptHistory(r) ==
    /\ r.err = ""
    /\ \A j \in 1..Len(r.addrs) :
          LET a   == r.addrs[j]
              exp == Expected(Len(r.pushed), LAMBDA i : Mentions(r.pushed[i].addrs, a))
          IN  /\ Len(r.got[a]) = Len(exp)
              /\ \A k \in 1..Len(exp) : r.got[a][k] = r.pushed[exp[k]].e
\* one record written with LinkedLog.Put and read back through (offset, total size) as the reader does
AcceptFraming(r) == r.err = "" /\ r.gotSized = r.put /\ r.prevOk
Accept(r) == IF r.kind = "framing" THEN AcceptFraming(r) ELSE AcceptHistory(r)
Init == l = 1
Next == /\ l <= Len(Trace) /\ l' = l + 1
        /\ IF Accept(Trace[l]) THEN TRUE ELSE PrintT("@@REJECT@@ " \o ToString(l))
Spec == Init /\ [][Next]_l
HW == TLCSet(1, l)
Done == PrintT("@@CONSUMED@@ " \o ToString(TLCGet(1) - 1))
====
