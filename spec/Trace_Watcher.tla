---- MODULE Trace_Watcher ----
(* R4 judge for the replay on the real --watch machinery: one record per run,
   [slots, events (cbStart / cbEnd of the harness's callback, ordered by a sequence number taken under one mutex),
    stuck (callbacks that did not return after every gate was opened), probe \in {"seen","lost"} (a config file dropped
    into the directory after the run settled was handed to the callback), listing (epoch numbers afterwards)].
   "wedged": a callback never returned or the probe was lost - C09's "every operation completes".
   "abs":    the callback log is not a behaviour of WatcherAbs (more callbacks than slots, or two for one file at a time).
   "listing": the epoch listing is not duplicate-free and sorted newest first. *)
EXTENDS Integers, Sequences, FiniteSets, TLC, Json
Files == {}
Slots == 0
VARIABLE l
W == INSTANCE WatcherAbs WITH loading <- {}
Trace == ndJsonDeserialize("obs.ndjson")
Sorted(s) == \A i \in 1..(Len(s) - 1) : s[i] > s[i + 1]
Why(r) == IF r.stuck > 0 \/ r.probe # "seen" THEN "wedged"
          ELSE IF ~Sorted(r.listing) THEN "listing"
          ELSE LET w == W!Walk(r.events, 1, {}, r.slots) IN
               IF ~w.ok \/ w.loading # {} THEN "abs" ELSE ""
Init == l = 1
Next == /\ l <= Len(Trace) /\ l' = l + 1
        /\ LET y == Why(Trace[l]) IN IF y = "" THEN TRUE ELSE PrintT("@@REJECT@@ " \o ToString(l) \o " " \o y)
Spec == Init /\ [][Next]_l
HW == TLCSet(1, l)
Done == PrintT("@@CONSUMED@@ " \o ToString(TLCGet(1) - 1))
====
