----------------------------- MODULE GrpcGrammar -----------------------------
(* C08, gRPC half of the request grammar: every message shape over the five RPCs and the bidirectional Get stream,
   with every optional field absent / present, empty and malformed account strings, zero-length and over-long
   signatures, end < start.  Every class is printed as a replay case. *)
EXTENDS Naturals, Sequences, FiniteSets, TLC, Json
Rpcs == {"GetVersion", "GetBlock", "GetBlockTime", "GetTransaction", "StreamBlocks", "StreamTransactions", "Get"}
SlotC == {"archived", "first-of-epoch", "skipped", "zero", "huge", "other-epoch"}   \* first-of-epoch: the parent block is in an epoch that is not loaded
SigC == {"nil", "short", "archived", "absent", "long"}
\* epochs-before-start: the range is reversed across several epochs (end 3 epochs before start)
EndC == {"absent", "after", "before-start", "epochs-before-start", "huge"}
FiltC == {"nil", "empty", "vote-only", "failed-only", "both-false", "both-true"}
AcctC == {"none", "valid", "malformed", "emptystring", "valid+malformed"}
GetC == {"nil-oneof", "version", "block", "blocktime", "transaction", "mixed"}
Epochs == {0, 1, 2}
VARIABLES rpc, slotc, sigc, endc, filt, inc, exc, req, getc, epochs, index
vars == <<rpc, slotc, sigc, endc, filt, inc, exc, req, getc, epochs, index>>
D(v, val) == v = val
Init == /\ epochs \in Epochs /\ rpc \in Rpcs /\ index \in BOOLEAN
        /\ CASE rpc = "GetVersion" -> slotc = "zero" /\ sigc = "nil" /\ endc = "absent" /\ filt = "nil" /\ inc = "none" /\ exc = "none" /\ req = "none" /\ getc = "nil-oneof" /\ ~index
             [] rpc \in {"GetBlock", "GetBlockTime"} -> slotc \in SlotC /\ sigc = "nil" /\ endc = "absent" /\ filt = "nil" /\ inc = "none" /\ exc = "none" /\ req = "none" /\ getc = "nil-oneof" /\ ~index
             [] rpc = "GetTransaction" -> slotc = "zero" /\ sigc \in SigC /\ endc = "absent" /\ filt = "nil" /\ inc = "none" /\ exc = "none" /\ req = "none" /\ getc = "nil-oneof" /\ ~index
             [] rpc = "StreamBlocks" -> slotc \in SlotC /\ sigc = "nil" /\ endc \in EndC /\ filt \in {"nil", "empty"} /\ inc \in AcctC /\ exc = "none" /\ req = "none" /\ getc = "nil-oneof" /\ ~index
             [] rpc = "StreamTransactions" -> slotc \in {"archived", "skipped", "other-epoch"} /\ sigc = "nil" /\ endc \in EndC /\ filt \in FiltC /\ inc \in AcctC /\ exc \in AcctC /\ req \in AcctC /\ getc = "nil-oneof"
                                              /\ (filt = "nil" => inc = "none" /\ exc = "none" /\ req = "none")
             [] rpc = "Get" -> slotc \in {"archived", "skipped"} /\ sigc \in {"archived", "short"} /\ endc = "absent" /\ filt = "nil" /\ inc = "none" /\ exc = "none" /\ req = "none" /\ getc \in GetC /\ ~index
Next == UNCHANGED vars
Spec == Init /\ [][Next]_vars
Emit == PrintT("@@CASE@@ " \o ToJson([kind |-> "grpc", rpc |-> rpc, slotc |-> slotc, sigc |-> sigc, endc |-> endc, filt |-> filt,
                                      inc |-> inc, exc |-> exc, req |-> req, getc |-> getc, epochs |-> epochs, index |-> index]))
=============================================================================
