---- MODULE Trace_RangeCache ----
(* R4 judge for C17. One record per executed history (sequential) or per concurrent run:
   [kind, size, calls |-> << [op, s, l, up, res, n, bytes] >>] ; every get / readat result must be allowed by
   RangeCacheAbs. `up` = remote reachable during the call (for concurrent runs the harness only toggles the
   remote while no call is in flight). *)
EXTENDS RangeCacheAbs, TLC, Json
Trace == ndJsonDeserialize("obs.ndjson")
VARIABLE l
CallOK(size, c) ==
    CASE c.op = "get"    -> GetAllowed(size, c.s, c.l, c.up, c.res, c.bytes)
      [] c.op = "readat" -> ReadAtAllowed(size, c.s, c.l, c.up, c.res, c.n, c.bytes)
      [] OTHER -> TRUE
Accept(r) == r.fatal = "" /\ \A i \in 1..Len(r.calls) : CallOK(r.size, r.calls[i])
Init == l = 1
Next == /\ l <= Len(Trace) /\ l' = l + 1
        /\ IF Accept(Trace[l]) THEN TRUE ELSE PrintT("@@REJECT@@ " \o ToString(l))
Spec == Init /\ [][Next]_l
HW == TLCSet(1, l)
Done == PrintT("@@CONSUMED@@ " \o ToString(TLCGet(1) - 1))
====
