---- MODULE Trace_GsfaPaging ----
(* R4 judge for C07.
   kind "page" / "json": [hist |-> <<<<id>>>> per epoch newest first, limit, before, until, result |-> <<id>>]
       GetBeforeUntil flattened in descending epoch order / the JSON array of getSignaturesForAddress
   kind "window": [whist |-> <<<<[id, slot]>>>>, limit, before, until, wresult |-> <<[id, slot]>>]  GetBeforeUntilSlot *)
EXTENDS GsfaPagingAbs, TLC, Json
Trace == ndJsonDeserialize("obs.ndjson")
VARIABLE l
Accept(r) == /\ r.err = ""
             /\ IF r.kind = "window" THEN WindowSound(r.whist, r.limit, r.before, r.until, r.wresult)
                ELSE r.result = Page(r.hist, r.limit, r.before, r.until)
Init == l = 1
Next == /\ l <= Len(Trace) /\ l' = l + 1
        /\ IF Accept(Trace[l]) THEN TRUE ELSE PrintT("@@REJECT@@ " \o ToString(l))
Spec == Init /\ [][Next]_l
HW == TLCSet(1, l)
Done == PrintT("@@CONSUMED@@ " \o ToString(TLCGet(1) - 1))
====
