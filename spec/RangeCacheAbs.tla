--------------------------- MODULE RangeCacheAbs ---------------------------
(* C17, the property itself: the range cache is transparent.
   The remote file is a fixed byte function; a read of [s, s+l) returns exactly those bytes, or an error
   when the range is invalid / reaches past the end (refused, never padded) or when the remote fetch failed.
   With the remote up and a valid range the read must succeed (so a failed fetch was not cached). *)
EXTENDS Naturals, Integers, Sequences
\* content of the remote file used by the harness and the model (defined by formula so that large files need no table)
ByteAt(i) == (((i % 251) * 7) + ((i \div 251) % 13)) % 256
FileBytes(s, l) == [i \in 1..l |-> ByteAt(s + i - 1)]
ValidRange(size, s, l) == s >= 0 /\ l >= 0 /\ s + l <= size
\* kind \in {"ok","err"}; up = the remote was reachable during the whole call
GetAllowed(size, s, l, up, kind, bytes) ==
    IF ~ValidRange(size, s, l) THEN kind = "err"
    ELSE \/ kind = "ok" /\ bytes = FileBytes(s, l)
         \/ kind = "err" /\ ~up
\* io.ReaderAt wrapper: off >= size -> EOF (n = 0); a read reaching past the end is refused, never padded
ReadAtAllowed(size, off, l, up, kind, n, bytes) ==
    IF off >= size THEN kind \in {"eof", "err"} /\ n = 0
    ELSE IF off + l > size THEN kind \in {"err", "eof"} /\ (n = 0 \/ (n <= size - off /\ bytes = FileBytes(off, n)))
    ELSE \/ kind = "ok" /\ n = l /\ bytes = FileBytes(off, l)
         \/ kind = "err" /\ ~up
=============================================================================
