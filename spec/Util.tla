-------------------------------- MODULE Util --------------------------------
EXTENDS Naturals, Sequences, FiniteSets, SequencesExt, TLC

\* width in bytes of binary.PutUvarint(n)
VarintW(n) == IF n < 128 THEN 1 ELSE IF n < 16384 THEN 2 ELSE IF n < 2097152 THEN 3 ELSE IF n < 268435456 THEN 4 ELSE 5

\* ---- eytzinger layout exactly as compactindexsized/build.go and bucketteer.go ----
\* func eytzinger(in, out, i, k) int { if k <= len(in) { i = eytzinger(in,out,i,2k); out[k-1]=in[i]; i++; i = eytzinger(in,out,i,2k+1) }; return i }
\* The recursion is an in-order walk of the implicit tree: out[k-1] receives the next in-order element.
RECURSIVE EyWalk(_, _, _)
\* returns <<i', out'>> (0-based i, out as function on 1..n)
EyWalk(in, st, k) ==
    LET n == Len(in) IN
    IF k > n THEN st
    ELSE LET l == EyWalk(in, st, 2 * k)
             mid == <<l[1] + 1, [l[2] EXCEPT ![k] = in[l[1] + 1]]>>
         IN EyWalk(in, mid, 2 * k + 1)
Eytzinger(in) == IF Len(in) = 0 THEN <<>> ELSE EyWalk(in, <<0, [j \in 1..Len(in) |-> in[1]]>>, 1)[2]

\* searchEytzinger(0, max, x, getter): index := 0; for index < max { k := get(index); if k == x return found; index = index<<1|1; if k < x index++ }
RECURSIVE EySearchFrom(_, _, _)
EySearchFrom(arr, idx, x) ==  \* idx 0-based; returns 0-based index or -1 (encoded as Len+1 => "notfound")
    IF idx >= Len(arr) THEN Len(arr) + 1
    ELSE IF arr[idx + 1] = x THEN idx
    ELSE EySearchFrom(arr, IF arr[idx + 1] < x THEN 2 * idx + 2 ELSE 2 * idx + 1, x)
EyFound(arr, x) == EySearchFrom(arr, 0, x) <= Len(arr) - 1 /\ Len(arr) > 0

SortedSeq(S) == SetToSortSeq(S, LAMBDA a, b : a < b)
=============================================================================
