---- MODULE Trace_CarIndex ----
(* R4 judge for C01: one record per (generated epoch CAR, serving path).
   secs   |-> <<[id, kind, body, off]>>  ground truth written by the fixture builder (off = true offset)
   blocks |-> <<[slot, blocktime, sec]>>, txs |-> <<[sig, sec]>>  ground truth: which section is which
   epoch  |-> the abstract epoch (Ledger vocabulary) the CAR was generated from
   fetch  |-> <<[sec, same, off, size]>>   real: GetNodeByCid bytes identical?, index location
   slots  |-> <<[slot, sec, blocktime]>>   real: slot->cid (as section id, 0 = other), blocktime index
   sigs   |-> <<[sig, sec, exists]>>       real: sig->cid, sig-exists *)
EXTENDS CarIndexAbs, Ledger, TLC, Json
Trace == ndJsonDeserialize("obs.ndjson")
VARIABLE l
LayoutConsistent(r) == /\ r.secs[1].off = r.hdr
                       /\ \A j \in 1..(Len(r.secs) - 1) : r.secs[j + 1].off = r.secs[j].off + SecLen(r.secs, j)
\* the ground truth describes the abstract epoch: blocks / transactions in archive order
TruthMatchesEpoch(r) ==
    /\ Len(r.blocks) = Len(r.epoch.blocks)
    /\ \A i \in 1..Len(r.blocks) : r.blocks[i].slot = r.epoch.blocks[i].slot /\ r.blocks[i].blocktime = r.epoch.blocks[i].blocktime
                                  /\ r.secs[r.blocks[i].sec].kind = "block"
    /\ LET rows == AllTxRows(<<r.epoch>>) IN
       /\ Len(r.txs) = Len(rows)
       /\ \A i \in 1..Len(rows) : r.txs[i].sig = rows[i].tx.sig /\ r.secs[r.txs[i].sec].kind = "tx"
Accept(r) ==
    /\ r.err = ""
    /\ LayoutConsistent(r) /\ TruthMatchesEpoch(r)
    /\ Len(r.fetch) = Len(r.secs)
    /\ \A j \in 1..Len(r.secs) : r.fetch[j].sec = j /\ r.fetch[j].same
                                 /\ r.fetch[j].off = r.secs[j].off /\ r.fetch[j].size = SecLen(r.secs, j)
    /\ Len(r.slots) = Len(r.blocks)
    /\ \A i \in 1..Len(r.blocks) : r.slots[i].slot = r.blocks[i].slot /\ r.slots[i].sec = r.blocks[i].sec
                                   /\ r.slots[i].blocktime = r.blocks[i].blocktime
    /\ Len(r.sigs) = Len(r.txs)
    /\ \A i \in 1..Len(r.txs) : r.sigs[i].sig = r.txs[i].sig /\ r.sigs[i].sec = r.txs[i].sec /\ r.sigs[i].exists
Init == l = 1
Next == /\ l <= Len(Trace) /\ l' = l + 1
        /\ IF Accept(Trace[l]) THEN TRUE ELSE PrintT("@@REJECT@@ " \o ToString(l))
Spec == Init /\ [][Next]_l
HW == TLCSet(1, l)
Done == PrintT("@@CONSUMED@@ " \o ToString(TLCGet(1) - 1))
====
