----------------------------- MODULE CarIndexAbs -----------------------------
(* C01, the property itself.  After `index all` reported success on a well-formed epoch CAR:
   every section can be fetched by its CID and the bytes are that section's bytes; every block's slot resolves
   to that block's CID and to its block time; every transaction's first signature resolves to its CID and is
   reported as existing.  Sections are identified by their index (CIDs are distinct); a section occupies
   VarintW(body) + body bytes starting at header + sum of the previous section lengths. *)
EXTENDS Naturals, Sequences, Util
SecLen(car, j) == VarintW(car[j].body) + car[j].body
RECURSIVE OffsetOf(_, _, _)
OffsetOf(car, hdr, j) == IF j = 1 THEN hdr ELSE OffsetOf(car, hdr, j - 1) + SecLen(car, j - 1)
\* the location a correct cid->offset-and-size index must hold for section j
TrueLoc(car, hdr, j) == <<OffsetOf(car, hdr, j), SecLen(car, j)>>
=============================================================================
