----------------------------- MODULE LedgerCodec -----------------------------
(* C11: the hand-written positional CBOR decoders (ipld/ipldbindcode/cbor.go) against the schema (ledger.ipldsch,
   `representation tuple`, `nullable optional` trailing fields).
   A node SHAPE fixes the kind, the state of every optional field (present / null / omitted), list lengths and nested
   frame shapes.  Encode(shape) = the tuple the reference encoder emits (an absent optional is omitted when nothing
   follows it, otherwise null).  FastDecode = transcription of the positional logic: kind check first, mandatory fields
   by position, optional fields read only when the position exists and holds a non-null item.
   Abs: FastDecode(Encode(s)) yields the same kind, field presence and list lengths as the shape (which is what the
   schema-driven decoder yields), and a node of one kind is never accepted by the decoder of another kind.
   Every shape is an initial state and is printed as a replay case. *)
EXTENDS Naturals, Sequences, FiniteSets, TLC, Json
St == {"present", "null", "omitted"}
\* ---- shapes
FrameShapes == [hash : St, index : St, total : St, next : St, nlinks : 0..2]
Kinds == {"transaction", "entry", "block", "subset", "epoch", "rewards", "dataframe"}
KindNo(k) == CASE k = "transaction" -> 0 [] k = "entry" -> 1 [] k = "block" -> 2 [] k = "subset" -> 3 [] k = "epoch" -> 4 [] k = "rewards" -> 5 [] k = "dataframe" -> 6
VARIABLES kind, frame, frame2, opt, nlist
vars == <<kind, frame, frame2, opt, nlist>>
DefaultFrame == [hash |-> "present", index |-> "present", total |-> "present", next |-> "omitted", nlinks |-> 0]
Init == /\ kind \in Kinds
        /\ IF kind \in {"dataframe", "transaction", "rewards"} THEN frame \in FrameShapes ELSE frame = DefaultFrame
        /\ IF kind = "transaction" THEN frame2 \in {f \in FrameShapes : f.nlinks = 0 \/ f.next = "present"} ELSE frame2 = DefaultFrame
        /\ IF kind \in {"transaction", "block"} THEN opt \in St ELSE opt = "present"       \* Transaction.index / SlotMeta.block_height
        /\ nlist \in 0..2                                                                   \* links / shredding entries
        /\ (frame.nlinks > 0 => frame.next = "present")
Next == UNCHANGED vars
Spec == Init /\ [][Next]_vars
\* ---- encoding: items are [t |-> "int"|"null"|"bytes"|"list"|"link"|"tuple", n |-> length for lists / tuples, sub |-> nested items]
Int == [t |-> "int", n |-> 0]
Null == [t |-> "null", n |-> 0]
Bytes == [t |-> "bytes", n |-> 0]
Link == [t |-> "link", n |-> 0]
List(n) == [t |-> "list", n |-> n]
OptItem(st, item) == IF st = "present" THEN item ELSE Null
\* trailing omitted optionals are dropped; an omitted optional followed by a present field is encoded as null
DropTrailing(items, states) ==
    LET RECURSIVE D(_) D(k) == IF k = 0 THEN <<>> ELSE IF states[k] = "omitted" /\ k = Len(items) THEN D(k - 1) ELSE SubSeq(items, 1, k)
        RECURSIVE T(_) T(k) == IF k = 0 THEN 0 ELSE IF states[k] = "omitted" THEN T(k - 1) ELSE k
    IN SubSeq(items, 1, T(Len(items)))
EncFrame(f) == DropTrailing(<<Int, OptItem(f.hash, Int), OptItem(f.index, Int), OptItem(f.total, Int), Bytes, OptItem(f.next, List(f.nlinks))>>,
                            <<"m", "m", "m", "m", "m", f.next>>)
\* (hash / index / total are followed by the mandatory `data`: they can never be dropped)
EncNode == CASE kind = "dataframe" -> EncFrame(frame)
             [] kind = "transaction" -> DropTrailing(<<Int, [t |-> "tuple", n |-> Len(EncFrame(frame))], [t |-> "tuple", n |-> Len(EncFrame(frame2))], Int, OptItem(opt, Int)>>, <<"m", "m", "m", "m", opt>>)
             [] kind = "rewards" -> <<Int, Int, [t |-> "tuple", n |-> Len(EncFrame(frame))]>>
             [] kind = "entry" -> <<Int, Int, Bytes, List(nlist)>>
             [] kind = "block" -> <<Int, Int, List(nlist), List(nlist), [t |-> "tuple", n |-> IF opt = "omitted" THEN 2 ELSE 3], Link>>
             [] kind = "subset" -> <<Int, Int, Int, List(nlist)>>
             [] kind = "epoch" -> <<Int, Int, List(nlist)>>
\* ---- the fast decoder's positional reads
Has(items, i) == i <= Len(items) /\ items[i].t # "null"
DecFramePresence(items) == [hash |-> Has(items, 2), index |-> Has(items, 3), total |-> Has(items, 4), next |-> Has(items, 6)]
FramePresence(f) == [hash |-> f.hash = "present", index |-> f.index = "present", total |-> f.total = "present", next |-> f.next = "present"]
\* what the fast decoder reports for the node-level optional field
DecOpt == CASE kind = "transaction" -> Has(EncNode, 5)
            [] kind = "block" -> EncNode[5].n = 3 /\ opt # "null"     \* SlotMeta tuple: third position present and non-null
            [] OTHER -> TRUE
\* arity the decoder requires (mandatory positions)
MinArity(k) == CASE k = "transaction" -> 4 [] k = "entry" -> 4 [] k = "block" -> 6 [] k = "subset" -> 4 [] k = "epoch" -> 3 [] k = "rewards" -> 3 [] k = "dataframe" -> 5
FastAccepts(k) == KindNo(k) = KindNo(kind) /\ Len(EncNode) >= MinArity(k)     \* the kind field is checked first
\* ---- Abs
AgreesOnPresence == /\ FastAccepts(kind)
                    /\ (kind \in {"dataframe", "transaction", "rewards"} => DecFramePresence(EncFrame(frame)) = FramePresence(frame))
                    /\ (kind = "transaction" => DecFramePresence(EncFrame(frame2)) = FramePresence(frame2))
                    /\ DecOpt = (opt = "present")
NoCrossKind == \A k \in Kinds : k # kind => ~FastAccepts(k)
Emit == PrintT("@@CASE@@ " \o ToJson([kind |-> kind, frame |-> frame, frame2 |-> frame2, opt |-> opt, nlist |-> nlist]))
=============================================================================
