---- MODULE Trace_FirstSuccess ----
(* R4 judge for C18: one record per real call of FirstSuccess / JobGroup.RunWithConcurrency /
   findEpochNumberFromSignature with gated jobs. *)
EXTENDS FirstSuccessAbs, TLC, Json
Trace == ndJsonDeserialize("obs.ndjson")
VARIABLE l
Accept(r) == Allowed(r.n, r.outcome, r.kind, r.val, r.errjobs)
Init == l = 1
Next == /\ l <= Len(Trace) /\ l' = l + 1
        /\ IF Accept(Trace[l]) THEN TRUE ELSE PrintT("@@REJECT@@ " \o ToString(l))
Spec == Init /\ [][Next]_l
HW == TLCSet(1, l)
Done == PrintT("@@CONSUMED@@ " \o ToString(TLCGet(1) - 1))
====
