----------------------------- MODULE DataFrames -----------------------------
(* C14, code-shaped model of tooling/data-frames.go (getAllFramesFromDataFrame: recursive collection over `next`,
   sort by index; LoadDataFromDataFrames: frame count vs `total`, checksum over the concatenation) under single faults.
   Abs: without a fault the original payload is returned; with a fault the result is the original payload or an error,
   never different bytes (for payloads that carry checksum and total).
   A payload of n frames is laid out as in the schema comment: frame i with i % fan = 0 links the next `fan` frames.
   Faults: drop(i), flip(i) (data altered), swap(i) (frame of another payload), dup(i) (linked twice), renumber(i,j).
   Every (n, fan, fault) is an initial state and is printed as a replay case. *)
EXTENDS Naturals, Sequences, FiniteSets, TLC, SequencesExt, Json
CONSTANTS MaxN, MaxFan
\* frame ids 0..n-1 of payload "A"; frame i carries data <<"A", i>>; payload B's frames carry <<"B", i>>
VARIABLES n, fan, fault
vars == <<n, fan, fault>>

Data(p, i) == <<p, i>>
Original == [i \in 1..n |-> Data("A", i - 1)]
\* layout of the schema comment: frame i with i % fan = 0 links frames i+1 .. i+fan
NextOf(i) == IF i % fan = 0 THEN [k \in 1..(IF i + fan < n THEN fan ELSE IF n - 1 - i > 0 THEN n - 1 - i ELSE 0) |-> i + k] ELSE <<>>

\* the store after the fault: cid i -> frame record or "missing"
Frame(i) == [idx |-> i, total |-> n, hash |-> "A", data |-> Data("A", i), next |-> NextOf(i)]
Faulted(i) ==
    CASE fault.kind = "flip" /\ fault.i = i -> [Frame(i) EXCEPT !.data = <<"A-flipped", i>>]
      [] fault.kind = "swap" /\ fault.i = i -> [Frame(i) EXCEPT !.data = Data("B", i), !.hash = "B"]
      [] fault.kind = "renumber" /\ fault.i = i -> [Frame(i) EXCEPT !.idx = fault.j]
      [] fault.kind = "renumber" /\ fault.j = i -> [Frame(i) EXCEPT !.idx = fault.i]
      [] fault.kind = "dup" /\ (((fault.i - 1) \div fan) * fan) = i /\ i # fault.i -> [Frame(i) EXCEPT !.next = Append(@, fault.i)]
      [] OTHER -> Frame(i)

ERR == [ok |-> FALSE, v |-> <<>>]
OK(v) == [ok |-> TRUE, v |-> v]
Missing(i) == CASE fault.kind = "drop" /\ fault.i = i -> TRUE [] OTHER -> FALSE
FrameF(i) == IF Missing(i) THEN Frame(i) ELSE Faulted(i)
\* getAllFramesFromDataFrame: recursive collection; ERR if a getter fails
RECURSIVE Collect(_)
Collect(f) ==
    LET RECURSIVE Kids(_, _)
        Kids(nx, acc) ==
            IF ~acc.ok THEN ERR
            ELSE IF nx = <<>> THEN acc
            ELSE IF Missing(Head(nx)) THEN ERR
            ELSE LET sub == Collect(FrameF(Head(nx))) IN
                 IF ~sub.ok THEN ERR ELSE Kids(Tail(nx), OK(acc.v \o sub.v))
    IN Kids(f.next, OK(<<f>>))

SortByIdx(fs) == SortSeq(fs, LAMBDA a, b : a.idx < b.idx)
\* checksum idealised: the checksum of a concatenation is the sequence of its data items
Reassemble ==
    LET first == FrameF(0)
        all == Collect(first) IN
    IF ~all.ok THEN ERR
    ELSE IF Len(all.v) # first.total THEN ERR
    ELSE LET bytes == [k \in 1..Len(all.v) |-> SortByIdx(all.v)[k].data] IN
         IF bytes # Original THEN ERR        \* hash mismatch (hash is of the original payload)
         ELSE OK(bytes)

Faults == {[kind |-> "none", i |-> 0, j |-> 0]}
          \cup {[kind |-> k, i |-> i, j |-> 0] : k \in {"drop", "dup"}, i \in 1..(MaxN - 1)}
          \cup {[kind |-> k, i |-> i, j |-> 0] : k \in {"flip", "swap"}, i \in 0..(MaxN - 1)}     \* the first (embedded) frame can be altered too
          \cup {[kind |-> "renumber", i |-> i, j |-> j] : i \in 1..(MaxN - 1), j \in 1..(MaxN - 1)}
Init == /\ n \in 1..MaxN /\ fan \in 1..MaxFan
        /\ fault \in {f \in Faults : f.i < n /\ f.j < n /\ (f.kind = "renumber" => f.i < f.j)}
Next == UNCHANGED vars
Spec == Init /\ [][Next]_vars

NoFaultOk == fault.kind = "none" => Reassemble = OK(Original)
NeverWrong == ~Reassemble.ok \/ Reassemble.v = Original
FaultDetected == fault.kind \in {"drop", "flip", "swap", "dup"} => ~Reassemble.ok
Emit == PrintT("@@CASE@@ " \o ToJson([n |-> n, fan |-> fan, fault |-> fault]))
=============================================================================
