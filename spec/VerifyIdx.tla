---- MODULE VerifyIdx ----
(* Code-shaped model of the index verifiers: one pass over the CAR with a running offset, one lookup group per section,
   stop at the first mismatch (cmd-x-index-all.go:verifyAllIndexes, index-cid-to-offset.go:VerifyIndex_cid2offset,
   index-slot-to-cid.go:VerifyIndex_slot2cid, index-sig-to-cid.go:VerifyIndex_sig2cid / VerifyIndex_sigExists).
   R1: for every small car x header x single deviation x tool, the pass ends with the verdict VerifyIdxAbs defines
   (Sound), a deviation is reported by exactly the tools that read the deviated index (Labelled), and the running offset
   is the section's offset (RunningOffset).  The same module prints the deviation classes for the replay (Emit). *)
EXTENDS VerifyIdxAbs, TLC, Json
CONSTANTS MaxLen, LenSet, HdrSet, CompareSize   \* CompareSize = FALSE: negative control (a pass without the length comparison)
VARIABLES car, hdr, idx, dev, tool, i, total, res, pc
vars == <<car, hdr, idx, dev, tool, i, total, res, pc>>

Kinds == {"tx", "block", "other"}
Shapes(n) == [1..n -> [kind : Kinds, len : LenSet]]
CarOf(s) == [j \in DOMAIN s |-> [kind |-> s[j].kind, key |-> j, len |-> s[j].len]]
Devs(c) == {d \in [index : IndexNames, what : Whats, at : DOMAIN c] : ValidDev(c, d)}

Init == /\ pc = "choose" /\ car = <<>> /\ hdr = 0 /\ idx = <<>> /\ dev = <<>> /\ tool = "" /\ i = 0 /\ total = 0 /\ res = ""

Choose == /\ pc = "choose"
          /\ \E n \in 1..MaxLen : \E s \in Shapes(n) : \E h \in HdrSet :
               LET c == CarOf(s) IN
               \E d \in Devs(c) : \E t \in Tools :
                 /\ car' = c /\ hdr' = h /\ dev' = d /\ tool' = t
                 /\ idx' = Apply(c, Truth(c, h), d)
          /\ pc' = "root" /\ UNCHANGED <<i, total, res>>

(* before the pass: the stand-alone cid-to-offset tool fetches the root object (the last section) through the index and
   compares its CID; the stand-alone sig-exists tool compares the recorded root CID *)
Root == /\ pc = "root"
        /\ LET n == Len(car)
               ok == CASE tool = "c2o" -> idx.c2o[n].found /\ idx.c2o[n].off = OffOf(car, hdr, n)
                       [] tool = "sx" -> idx.sxroot
                       [] OTHER -> TRUE IN
           IF ok THEN pc' = "loop" /\ i' = 1 /\ total' = hdr /\ res' = res
                 ELSE pc' = "done" /\ res' = "fail" /\ UNCHANGED <<i, total>>
        /\ UNCHANGED <<car, hdr, idx, dev, tool>>

Reads(n) == n \in Checks(tool)
CheckAt(j) ==
  /\ (Reads("c2o") => idx.c2o[j].found /\ idx.c2o[j].off = total /\ (CompareSize => idx.c2o[j].size = car[j].len))
  /\ (Reads("s2c") /\ car[j].kind = "block" => idx.s2c[j].found /\ idx.s2c[j].obj = j)
  /\ (Reads("g2c") /\ car[j].kind = "tx" => idx.g2c[j].found /\ idx.g2c[j].obj = j)
  /\ (Reads("sx") /\ car[j].kind = "tx" => idx.sx[j])

Step == /\ pc = "loop"
        /\ IF i > Len(car) THEN pc' = "done" /\ res' = "ok" /\ UNCHANGED <<i, total>>
           ELSE IF CheckAt(i) THEN i' = i + 1 /\ total' = total + car[i].len /\ UNCHANGED <<pc, res>>
           ELSE pc' = "done" /\ res' = "fail" /\ UNCHANGED <<i, total>>
        /\ UNCHANGED <<car, hdr, idx, dev, tool>>

Next == Choose \/ Root \/ Step
Spec == Init /\ [][Next]_vars

Sound == pc = "done" => res = Verdict(car, hdr, idx, tool)
Labelled == pc = "done" => res = Expected(dev, tool)
RunningOffset == pc = "loop" /\ i <= Len(car) => total = OffOf(car, hdr, i)

(* R2: deviation classes for the replay - position classes instead of positions *)
PosClass == {"first", "mid", "last"}
Classes == {c \in [index : IndexNames, what : Whats, pos : PosClass] :
              CASE c.what \in Harmless -> c.pos = "first"
                [] c.index = "c2o" -> c.what \in {"drop", "off", "size", "foreign"}
                [] c.index \in {"s2c", "g2c"} -> c.what \in {"drop", "other", "foreign"}
                [] c.index = "sx" -> c.what \in {"drop", "foreign"}}
Emit == pc = "choose" => \A c \in Classes : PrintT("@@CASE@@ " \o ToJson(c))
====
