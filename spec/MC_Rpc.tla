---- MODULE MC_Rpc ----
EXTENDS Rpc
\* EpochLen = 10. Epoch 1: slots 10 (parent 9, other epoch), 12, 13; epoch 2: slot 20 (parent 13), 21; epoch 0: slots 0, 1
T(s) == [sig |-> s, accts |-> <<1>>, loaded |-> <<>>, vote |-> FALSE, failed |-> FALSE, nometa |-> FALSE, dframes |-> 1, mframes |-> 1, pad |-> 0, mpad |-> 0]
B(slot, parent, entries) == [slot |-> slot, parent |-> parent, blocktime |-> 1000 + slot, height |-> IF slot % 2 = 0 THEN slot + 7 ELSE -1, entries |-> entries, rframes |-> 0]
E(txs) == [txs |-> txs]
MCArch == << [epoch |-> 0, blocks |-> << B(0, 0, <<E(<<>>)>>), B(1, 0, <<E(<<T(1)>>)>>) >>],
             [epoch |-> 1, blocks |-> << B(10, 9, <<E(<<T(2)>>), E(<<T(3), T(4)>>)>>), B(12, 10, <<E(<<>>), E(<<T(5)>>)>>), B(13, 12, <<E(<<>>)>>) >>],
             [epoch |-> 2, blocks |-> << B(20, 13, <<E(<<T(6)>>)>>), B(21, 20, <<E(<<T(7), T(8)>>), E(<<>>), E(<<T(9)>>)>>) >>] >>
MCLoaded == {{0}, {1}, {2}, {0, 1}, {1, 2}, {0, 1, 2}}
====
