---- MODULE WatcherInd ----
(* Unbounded-safety companion of Watcher.tla for Apalache: the same dispatch loop with the errgroup modelled as Slots slots
   (each free, checking the tracker, or running the callback), no history variables and no bound on the number of events.
   IndInv is inductive: Init => IndInv and IndInv /\ Next => IndInv', hence TrackerExact and OneLoadPerFile hold in every
   reachable state for any number of events (TLC checks them up to MaxEvents only). The fsnotify channel is a bounded
   buffer (QMax), as in the library. *)
EXTENDS Integers, Sequences, FiniteSets

CONSTANTS
  \* @type: Set(Str);
  Files,
  \* @type: Int;
  Slots,
  \* @type: Int;
  QMax

VARIABLES
  \* @type: Seq(Str);
  queue,
  \* @type: Str;
  disp,
  \* @type: Int -> { pc: Str, file: Str };
  slot,
  \* @type: Set(Str);
  tracker

CInit == Files = {"a", "b", "c"} /\ Slots = 3 /\ QMax = 3

Idle == "idle"
Free == [pc |-> "free", file |-> ""]
SlotIds == 1..Slots

Init == /\ queue = <<>> /\ disp = Idle /\ tracker = {}
        /\ slot = [i \in SlotIds |-> Free]

Arrive(f) == /\ Len(queue) < QMax /\ queue' = Append(queue, f)
             /\ UNCHANGED <<disp, slot, tracker>>
Take == /\ disp = Idle /\ Len(queue) > 0
        /\ disp' = Head(queue) /\ queue' = Tail(queue)
        /\ UNCHANGED <<slot, tracker>>
Spawn(i) == /\ disp # Idle /\ slot[i].pc = "free"
            /\ slot' = [slot EXCEPT ![i] = [pc |-> "check", file |-> disp]]
            /\ disp' = Idle /\ UNCHANGED <<queue, tracker>>
Check(i) == /\ slot[i].pc = "check"
            /\ IF slot[i].file \in tracker
                 THEN slot' = [slot EXCEPT ![i] = Free] /\ UNCHANGED tracker
                 ELSE /\ tracker' = tracker \union {slot[i].file}
                      /\ slot' = [slot EXCEPT ![i] = [pc |-> "load", file |-> slot[i].file]]
            /\ UNCHANGED <<queue, disp>>
Finish(i) == /\ slot[i].pc = "load"
             /\ tracker' = tracker \ {slot[i].file}
             /\ slot' = [slot EXCEPT ![i] = Free]
             /\ UNCHANGED <<queue, disp>>
Next == \/ \E f \in Files : Arrive(f)
        \/ Take
        \/ \E i \in SlotIds : Spawn(i) \/ Check(i) \/ Finish(i)

Loading == {slot[i].file : i \in {j \in SlotIds : slot[j].pc = "load"}}
TrackerExact == tracker = Loading
OneLoadPerFile == \A i, j \in SlotIds : slot[i].pc = "load" /\ slot[j].pc = "load" /\ slot[i].file = slot[j].file => i = j

TypeOK == /\ Len(queue) <= QMax /\ \A k \in DOMAIN queue : queue[k] \in Files
          /\ disp \in Files \union {Idle}
          /\ DOMAIN slot = SlotIds
          /\ \A i \in SlotIds : \/ slot[i] = Free
                                \/ slot[i].pc \in {"check", "load"} /\ slot[i].file \in Files
          /\ tracker \subseteq Files
IndInv == TypeOK /\ TrackerExact /\ OneLoadPerFile

\* every state satisfying the invariant (Apalache's --init for the inductive step)
IndInit ==
  /\ queue \in {<<>>} \union {<<f>> : f \in Files} \union {<<f, g>> : f \in Files, g \in Files} \union {<<f, g, h>> : f \in Files, g \in Files, h \in Files}
  /\ disp \in Files \union {Idle}
  /\ slot \in [SlotIds -> [pc : {"free", "check", "load"}, file : Files \union {""}]]
  /\ tracker \in SUBSET Files
  /\ IndInv
====
