---- MODULE VerifyIdxAbs ----
(* What the index verifiers (`index --verify`, `verify-index all|cid-to-offset|slot-to-cid|sig-to-cid|sig-exists`)
   decide, stated over the abstract content of a CAR and of the four lookup structures (growth beyond C01: the
   repository's own oracle for "index generation left every lookup right").

   car : sequence of objects [kind \in {"tx","block","other"}, key (slot / signature id), len (section length)];
         the CID of object j is j (distinct CIDs), hdr = length of the CAR header.
   idx : what the index files answer for the keys of THIS car, aligned with car:
           c2o[j] = [found, off, size]         answer for the CID of object j
           s2c[j] = [found, obj]               answer for the slot of block j  (obj = position of the answered CID, 0 = not in the car)
           g2c[j] = [found, obj]               answer for the first signature of transaction j
           sx[j]  \in BOOLEAN                  sig-exists answer for the first signature of transaction j
           sxroot \in BOOLEAN                  the sig-exists file records this car's root CID
   Entries for keys that are not in the car are invisible here: they never change a verdict. *)
EXTENDS Integers, Sequences, FiniteSets

IndexNames == {"c2o", "s2c", "g2c", "sx"}
Tools == {"all", "all-nosx", "c2o", "s2c", "g2c", "sx"}
Checks(t) == CASE t = "all" -> IndexNames
               [] t = "all-nosx" -> {"c2o", "s2c", "g2c"}
               [] OTHER -> {t}

RECURSIVE OffOf(_, _, _)
OffOf(car, hdr, j) == IF j = 1 THEN hdr ELSE OffOf(car, hdr, j - 1) + car[j - 1].len

Blocks(car) == {j \in DOMAIN car : car[j].kind = "block"}
Txs(car) == {j \in DOMAIN car : car[j].kind = "tx"}

Truth(car, hdr) ==
  [c2o |-> [j \in DOMAIN car |-> [found |-> TRUE, off |-> OffOf(car, hdr, j), size |-> car[j].len]],
   s2c |-> [j \in DOMAIN car |-> IF j \in Blocks(car) THEN [found |-> TRUE, obj |-> j] ELSE [found |-> FALSE, obj |-> 0]],
   g2c |-> [j \in DOMAIN car |-> IF j \in Txs(car) THEN [found |-> TRUE, obj |-> j] ELSE [found |-> FALSE, obj |-> 0]],
   sx |-> [j \in DOMAIN car |-> j \in Txs(car)],
   sxroot |-> TRUE]

Correct(car, hdr, idx, n, t) ==
  CASE n = "c2o" -> \A j \in DOMAIN car : idx.c2o[j].found /\ idx.c2o[j].off = OffOf(car, hdr, j) /\ idx.c2o[j].size = car[j].len
    [] n = "s2c" -> \A j \in Blocks(car) : idx.s2c[j].found /\ idx.s2c[j].obj = j
    [] n = "g2c" -> \A j \in Txs(car) : idx.g2c[j].found /\ idx.g2c[j].obj = j
    [] n = "sx" -> (\A j \in Txs(car) : idx.sx[j]) /\ (t = "sx" => idx.sxroot)   \* only the stand-alone tool compares the recorded root

Verdict(car, hdr, idx, t) == IF \A n \in Checks(t) : Correct(car, hdr, idx, n, t) THEN "ok" ELSE "fail"

(* Single deviations of one index and the verdict they must produce. *)
Whats == {"none", "extra", "drop", "off", "size", "other", "foreign"}
Harmless == {"none", "extra"}
Expected(dev, t) == IF dev.what \in Harmless \/ dev.index \notin Checks(t) THEN "ok" ELSE "fail"

ValidDev(car, dev) ==
  /\ dev.at \in DOMAIN car
  /\ CASE dev.what \in Harmless -> dev.at = 1
       [] dev.index = "c2o" -> dev.what \in {"drop", "off", "size", "foreign"}
       [] dev.index = "s2c" -> dev.what \in {"drop", "other", "foreign"} /\ dev.at \in Blocks(car) /\ (dev.what = "other" => Len(car) >= 2)
       [] dev.index = "g2c" -> dev.what \in {"drop", "other", "foreign"} /\ dev.at \in Txs(car) /\ (dev.what = "other" => Len(car) >= 2)
       [] dev.index = "sx" -> dev.what \in {"drop", "foreign"} /\ dev.at \in Txs(car)

Miss == [found |-> FALSE, obj |-> 0]
Apply(car, idx, dev) ==
  LET j == dev.at
      k == (j % Len(car)) + 1 IN
  CASE dev.what \in Harmless -> idx
    [] dev.what = "foreign" ->
         (CASE dev.index = "c2o" -> [idx EXCEPT !.c2o = [x \in DOMAIN car |-> [found |-> FALSE, off |-> 0, size |-> 0]]]
            [] dev.index = "s2c" -> [idx EXCEPT !.s2c = [x \in DOMAIN car |-> Miss]]
            [] dev.index = "g2c" -> [idx EXCEPT !.g2c = [x \in DOMAIN car |-> Miss]]
            [] dev.index = "sx" -> [idx EXCEPT !.sx = [x \in DOMAIN car |-> FALSE], !.sxroot = FALSE])
    [] dev.index = "c2o" ->
         (CASE dev.what = "drop" -> [idx EXCEPT !.c2o[j] = [found |-> FALSE, off |-> 0, size |-> 0]]
            [] dev.what = "off" -> [idx EXCEPT !.c2o[j].off = @ + 1]
            [] dev.what = "size" -> [idx EXCEPT !.c2o[j].size = @ + 1])
    [] dev.index = "s2c" -> [idx EXCEPT !.s2c[j] = IF dev.what = "drop" THEN Miss ELSE [found |-> TRUE, obj |-> k]]
    [] dev.index = "g2c" -> [idx EXCEPT !.g2c[j] = IF dev.what = "drop" THEN Miss ELSE [found |-> TRUE, obj |-> k]]
    [] dev.index = "sx" -> [idx EXCEPT !.sx[j] = FALSE]
====
