------------------------------ MODULE CarIndex ------------------------------
(* C01, code-shaped model of createAllIndexes (cmd-x-index-all.go) and of the serving read (epoch.go):
   one action per loop iteration: `Put(cid, totalOffset, sectionLength)`; kind byte dispatch (Block -> slot->cid
   and slot->blocktime, Transaction -> first signature -> sig->cid and sig-exists); `totalOffset += sectionLength`
   with sectionLength = bytes consumed for the length varint + body.  Serving: look the CID up, read
   [offset, offset+size) from the CAR, re-parse varint + CID + data, compare the CID.
   The CAR layout is chosen nondeterministically in the initial state. Section j has cid j, slot j, sig j. *)
EXTENDS Naturals, Sequences, FiniteSets, TLC, CarIndexAbs
CONSTANTS MaxLen, BodySet, HdrSet
Kinds == {"tx", "entry", "block", "rewards", "frame", "subset", "epoch"}
CarSet == UNION {[1..n -> [kind : Kinds, body : BodySet]] : n \in 1..MaxLen}
VARIABLES car, hdr, pos, total, idxCid, idxSlot, idxSig, sigSet, btime, built
vars == <<car, hdr, pos, total, idxCid, idxSlot, idxSig, sigSet, btime, built>>
Init == /\ car \in CarSet /\ hdr \in HdrSet /\ pos = 1 /\ total = hdr
        /\ idxCid = <<>> /\ idxSlot = <<>> /\ idxSig = <<>> /\ sigSet = {} /\ btime = <<>> /\ built = FALSE
Put(f, k, v) == [x \in DOMAIN f \cup {k} |-> IF x = k THEN v ELSE f[x]]
Step == /\ ~built /\ pos <= Len(car)
        /\ LET len == VarintW(car[pos].body) + car[pos].body IN
           /\ idxCid' = Put(idxCid, pos, <<total, len>>)
           /\ total' = total + len
           /\ IF car[pos].kind = "block"
                THEN idxSlot' = Put(idxSlot, pos, pos) /\ btime' = Put(btime, pos, 1000 + pos) /\ UNCHANGED <<idxSig, sigSet>>
                ELSE IF car[pos].kind = "tx"
                  THEN idxSig' = Put(idxSig, pos, pos) /\ sigSet' = sigSet \cup {pos} /\ UNCHANGED <<idxSlot, btime>>
                  ELSE UNCHANGED <<idxSlot, btime, idxSig, sigSet>>
        /\ pos' = pos + 1 /\ UNCHANGED <<car, hdr, built>>
Finish == /\ ~built /\ pos > Len(car) /\ built' = TRUE
          /\ UNCHANGED <<car, hdr, pos, total, idxCid, idxSlot, idxSig, sigSet, btime>>
Next == Step \/ Finish
Spec == Init /\ [][Next]_vars
\* serving read: the region [off, off+size) is section j exactly iff it starts where j starts and has j's length;
\* any other region either fails to parse or carries another CID and is rejected by the CID comparison
Serve(c) == IF c \notin DOMAIN idxCid THEN "notfound"
            ELSE IF idxCid[c] = TrueLoc(car, hdr, c) THEN c ELSE "error"
\* refinement of CarIndexAbs
AllResolve == built =>
    /\ \A j \in 1..Len(car) : Serve(j) = j
    /\ \A j \in 1..Len(car) : car[j].kind = "block" => (j \in DOMAIN idxSlot /\ idxSlot[j] = j /\ btime[j] = 1000 + j)
    /\ \A j \in 1..Len(car) : car[j].kind = "tx" => (j \in DOMAIN idxSig /\ idxSig[j] = j /\ j \in sigSet)
RunningOffset == pos <= Len(car) => total = OffsetOf(car, hdr, pos)
=============================================================================
