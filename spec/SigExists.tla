------------------------------ MODULE SigExists ------------------------------
(* C05: the signature-existence index (bucketteer).
   Abs: Has(sig) <=> some added signature has the same two-byte prefix and the same 64-bit hash.
   Impl (bucketteer/write.go, read.go): Put appends Hash(sig) to the bucket of the prefix; seal: per bucket
   remove duplicates, sort, store in eytzinger order as `u32 count ++ count x u64`, bucket offsets = prefix sums of
   4 + 8 * count; Has: offset table -> count -> eytzinger search.  Hashes are abstract (small naturals).
   Initial states: every assignment of <= MaxPer hashes (with repetition) to each of the prefixes. *)
EXTENDS Naturals, Sequences, FiniteSets, TLC, Util
CONSTANTS NPrefix, Hashes, MaxPer
VARIABLE added         \* [0..NPrefix-1 -> Seq(Hashes)] in Put order (duplicates possible)
PrefixSet == 0..(NPrefix - 1)
Seqs == UNION {[1..n -> Hashes] : n \in 0..MaxPer}
Init == added \in [PrefixSet -> Seqs]
Next == UNCHANGED added
Spec == Init /\ [][Next]_added
Clean(p) == SortedSeq({added[p][i] : i \in 1..Len(added[p])})       \* dedupe + sort
Stored(p) == Eytzinger(Clean(p))
Size(p) == 4 + 8 * Len(Clean(p))
RECURSIVE Offset(_)
Offset(p) == IF p = 0 THEN 0 ELSE Offset(p - 1) + Size(p - 1)
ImplHas(p, x) == EyFound(Stored(p), x)
AbsHas(p, x) == \E i \in 1..Len(added[p]) : added[p][i] = x
WriterHas(p, x) == \E i \in 1..Len(added[p]) : added[p][i] = x       \* the writer's linear scan
NoFalseNegative == \A p \in PrefixSet, x \in Hashes : AbsHas(p, x) => ImplHas(p, x)
NoFalsePositive == \A p \in PrefixSet, x \in Hashes : ImplHas(p, x) => AbsHas(p, x)
WriterAgrees == \A p \in PrefixSet, x \in Hashes : WriterHas(p, x) <=> ImplHas(p, x)
\* buckets are laid out back to back: bucket p starts where p - 1 ends
Contiguous == \A p \in PrefixSet : p > 0 => Offset(p) = Offset(p - 1) + Size(p - 1)
=============================================================================
