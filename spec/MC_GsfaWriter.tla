---- MODULE MC_GsfaWriter ----
EXTENDS GsfaWriter
CONSTANTS a0, a1, a2
MCOrd == (a0 :> 0) @@ (a1 :> 1) @@ (a2 :> 2)
\* history variable `pushed` matters only through membership; the view drops nothing the actions read
StateBound == Len(log) <= 2 * MaxTx
====
