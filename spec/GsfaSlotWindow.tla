--------------------------- MODULE GsfaSlotWindow ---------------------------
(* C07 / C19, code-shaped model of gsfa/gsfa-read-multiepoch.go iterBeforeUntilSlot: epochs newer than `before`'s
   epoch are skipped; per record the limit is checked; per entry: (CheckBefore: skip while slot >= before),
   stop everything at the first entry with slot < until, limit check, append.
   CheckBefore = FALSE is the pinned tree (it never compared an entry's slot with `before`).
   Initial states: every two-epoch history (non-increasing slots, any batch layout) x limit x before x until. *)
EXTENDS Naturals, Sequences, FiniteSets, TLC, SequencesExt, GsfaPagingAbs, Json
CONSTANTS L,            \* slots per epoch (432000 in the code)
          MaxPerEpoch, CheckBefore
VARIABLES hist,         \* <<newest epoch, older epoch>>: each a sequence of batches, each batch a sequence of [id, slot]
          limit, before, until
vars == <<hist, limit, before, until>>
NEpochs == 2
EpochNum(k) == NEpochs - k          \* reader k = 1 is the newest epoch (number 1), k = 2 the older one (number 0)
NonIncr(s) == \A i \in 1..(Len(s) - 1) : s[i] >= s[i + 1]
SlotSeqs(e) == UNION {{s \in [1..n -> (e * L)..(e * L + L - 1)] : NonIncr(s)} : n \in 0..MaxPerEpoch}
Cuts(n) == LET RECURSIVE C(_) C(k) == IF k = 0 THEN {<<>>} ELSE UNION {{<<j>> \o r : r \in C(k - j)} : j \in 1..k} IN C(n)
\* batches of an epoch from a slot sequence s, ids offset by base, cut according to composition c
RECURSIVE Batches(_, _, _)
Batches(s, base, c) == IF c = <<>> THEN <<>>
                       ELSE <<[i \in 1..c[1] |-> [id |-> base + i, slot |-> s[i]]]>> \o Batches(SubSeq(s, c[1] + 1, Len(s)), base + c[1], Tail(c))
Init == /\ \E s1 \in SlotSeqs(1), s2 \in SlotSeqs(0) : \E c1 \in Cuts(Len(s1)), c2 \in Cuts(Len(s2)) :
             hist = <<Batches(s1, 0, c1), Batches(s2, Len(s1), c2)>>
        /\ limit \in 0..(2 * MaxPerEpoch + 1) /\ before \in 0..(2 * L + 1) /\ until \in 0..(2 * L + 1)
Next == UNCHANGED vars
Spec == Init /\ [][Next]_vars
\* ---- transcription: state [out, stop] threaded through epochs / records / entries
RECURSIVE Entries(_, _, _), Records(_, _, _), Epochs(_, _)
Entries(b, i, st) ==
    IF i > Len(b) \/ st.stop THEN st
    ELSE LET e == b[i] IN
         IF CheckBefore /\ e.slot >= before THEN Entries(b, i + 1, st)
         ELSE IF e.slot < until THEN [st EXCEPT !.stop = TRUE]
         ELSE IF Len(st.out) >= limit THEN [st EXCEPT !.stop = TRUE]
         ELSE Entries(b, i + 1, [st EXCEPT !.out = Append(@, e)])
Records(bs, j, st) ==
    IF j > Len(bs) \/ st.stop THEN st
    ELSE IF Len(st.out) >= limit THEN [st EXCEPT !.stop = TRUE]
    ELSE Records(bs, j + 1, Entries(bs[j], 1, st))
Epochs(k, st) ==
    IF k > NEpochs \/ st.stop THEN st
    ELSE IF EpochNum(k) > before \div L THEN Epochs(k + 1, st)
    ELSE Epochs(k + 1, Records(hist[k], 1, st))
Result == IF limit <= 0 \/ before < until THEN <<>> ELSE Epochs(1, [out |-> <<>>, stop |-> FALSE]).out
\* ---- refinement of GsfaPagingAbs
FlatHist == <<Flat(hist[1]), Flat(hist[2])>>
Sound == WindowSound(FlatHist, limit, before, until, Result)
Exact == before >= until => Result = WindowExact(FlatHist, limit, before, until)
\* R2: every initial state is a replay case (slots are mapped to real slot numbers by the replayer)
Emit == PrintT("@@CASE@@ " \o ToJson([kind |-> "window", hist |-> hist, limit |-> limit, before |-> before, until |-> until]))
=============================================================================
