---- MODULE WatcherAbs ----
(* What a config-file callback of the --watch machinery may observe (cmd-rpc.go:onFileChanged): at most Slots callbacks
   run at a time (--epoch-load-concurrency) and never two for the same file.  This is the projection of Watcher.tla that
   a test can record without hooks: the harness logs cbStart / cbEnd of its own callback. *)
EXTENDS Integers, Sequences, FiniteSets
CONSTANTS Files, Slots
VARIABLE loading
AInit == loading = {}
Start(f) == f \notin loading /\ Cardinality(loading) < Slots /\ loading' = loading \cup {f}
End(f) == f \in loading /\ loading' = loading \ {f}
ANext == \E f \in Files : Start(f) \/ End(f)
ASpec == AInit /\ [][ANext]_loading

(* the same as a fold, for the judge: the set of files loading after a sequence of [ev, file] records, or <<"bad", k>> *)
RECURSIVE Walk(_, _, _, _)
Walk(evs, k, ld, slots) ==
  IF k > Len(evs) THEN [ok |-> TRUE, at |-> 0, loading |-> ld]
  ELSE LET e == evs[k] IN
       IF e.ev = "cbStart" THEN
            IF e.file \in ld \/ Cardinality(ld) >= slots THEN [ok |-> FALSE, at |-> k, loading |-> ld]
            ELSE Walk(evs, k + 1, ld \cup {e.file}, slots)
       ELSE IF e.file \notin ld THEN [ok |-> FALSE, at |-> k, loading |-> ld]
            ELSE Walk(evs, k + 1, ld \ {e.file}, slots)
====
