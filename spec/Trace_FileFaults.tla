---- MODULE Trace_FileFaults ----
(* R4 judge for C13 (kind "trunc") and C12 (kind "fault").
   trunc: [file, size, cut, reader, flavour, keys, same, error, notfound, different, panic, maxread (largest end offset read
          by any lookup of this run on the cut file, from the logging ReaderAt; -1 if not logged)]
          -> notfound = different = panic = 0  (whether a "same" answer only used bytes below the cut is reported as drift).
   fault: [parser, fault, outcome \in {"ok","error","panic","hang","alloc"}] -> outcome \in {"ok","error"}. *)
EXTENDS Naturals, Integers, Sequences, TLC, Json
Trace == ndJsonDeserialize("obs.ndjson")
VARIABLE l
Accept(r) == IF r.kind = "trunc"
               THEN r.notfound = 0 /\ r.different = 0 /\ r.panic = 0
               ELSE r.outcome \in {"ok", "error"}
Init == l = 1
Next == /\ l <= Len(Trace) /\ l' = l + 1
        /\ IF Accept(Trace[l]) THEN TRUE ELSE PrintT("@@REJECT@@ " \o ToString(l))
Spec == Init /\ [][Next]_l
HW == TLCSet(1, l)
Done == PrintT("@@CONSUMED@@ " \o ToString(TLCGet(1) - 1))
====
