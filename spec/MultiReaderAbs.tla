--------------------------- MODULE MultiReaderAbs ---------------------------
(* C16, the property itself (reader side): reading [off, off+ln) through the split-CAR / multi reader returns
   exactly the bytes of the concatenation (original header followed by each piece's content in order), as many
   as exist, with end-of-file reported only at the true end.  concat = the logical byte sequence. *)
EXTENDS Naturals, Integers, Sequences
MinI(a, b) == IF a < b THEN a ELSE b
WantN(total, off, ln) == IF off >= total THEN 0 ELSE MinI(ln, total - off)
\* err \in {"nil", "eof", "other"}
ReadAllowed(concat, off, ln, n, err, bytes) ==
    LET total == Len(concat)  w == WantN(total, off, ln) IN
    /\ n = w
    /\ bytes = SubSeq(concat, off + 1, off + w)
    /\ (w < ln) => err = "eof"              \* a short read must report end-of-file
    /\ (err = "eof") => (w < ln \/ off + w = total)   \* EOF only at the true end
    /\ err # "other"
=============================================================================
