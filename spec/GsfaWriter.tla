------------------------------ MODULE GsfaWriter ------------------------------
(* C06, code-shaped model of gsfa/gsfa-write.go: Push / periodic flush / background fullBufferWriter /
   Close, one action per critical section.  Binding to the code (hooks `vh(point)` under build tag verif):
     AppendStep (send branch)   <-> vh("send")   before `fullBufferWriterChan <- batch`
     PeriodicStep/FlushAccumStep/BgFlushAll (log' # log) <-> vh("flush") before LinkedLog.Put
     SetExit <-> vh("setExit") before exiting.Store(true);  WaitBg <-> vh("waitBg") before <-done
     BgLoop  <-> vh("bgLoop") at the top of the background loop;  BgDone <-> vh("bgDone") before done<-
   Constants B,K,Cap,T,F are the literals itemsPerBatch(1000), howManyBuffersToFlushConcurrently(256),
   channel capacity(50), accum.Len() threshold(100000), small-list threshold(100); they are shrunk in the
   model and, by a go/ast rewrite of a copy of the current file, in the replayed code.
   Fixed = FALSE is the design of the pinned tree (kept as a negative configuration: TLC must find the
   lost batch there); Fixed = TRUE is the repaired close/exit ordering the code now has. *)
EXTENDS Naturals, Sequences, FiniteSets, SequencesExt, TLC, GsfaAbs

CONSTANTS Addr,      \* set of addresses (model values), totally ordered by Ord
          Ord,       \* [Addr -> Nat] sort order of public keys
          ZeroKey,   \* the all-zero key (System Program) - may or may not be in Addr
          B,         \* itemsPerBatch
          K,         \* howManyBuffersToFlushConcurrently
          Cap,       \* capacity of fullBufferWriterChan
          T,         \* accum.Len() > T triggers periodic flush (when slot%500==0)
          F,         \* periodic flush only keys with 0 < len < F and not in popRank
          MaxTx,     \* bound on pushes
          Fixed      \* TRUE: repaired close/exit ordering; FALSE: pinned tree

VARIABLES pushed,    \* history: Seq of [addrs, periodic]
          accum,     \* [Addr -> Seq(Nat)]  unflushed entry ids, oldest first
          pop,       \* set of Addr that ever filled a batch (popRank.has)
          chan,      \* Seq of [key, vals]
          tmpBuf,    \* Seq of [key, vals]
          log,       \* Seq of [key, vals (newest first), prev]
          offsets,   \* [Addr -> Nat] index into log, 0 = none
          exiting, bgDone,
          mpc, mwork,\* main thread pc and its work list
          bpc, bwork, bcur \* background pc, pending flush list, received buffer

vars == <<pushed, accum, pop, chan, tmpBuf, log, offsets, exiting, bgDone, mpc, mwork, bpc, bwork, bcur>>

Sorted(S) == SetToSortSeq(S, LAMBDA a, b : Ord[a] < Ord[b])
EmptyBuf == [key |-> ZeroKey, vals |-> <<>>]
FreshTmp == [i \in 1..K |-> EmptyBuf]
Has(buf, k) == \E i \in 1..Len(buf) : buf[i].key = k

\* one record appended to the linked log (flushKVs with a single kv; atomic under ll.mu)
Flush(k, vals) ==
    IF vals = <<>> THEN UNCHANGED <<log, offsets>>
    ELSE /\ log' = Append(log, [key |-> k, vals |-> Reverse(vals), prev |-> offsets[k]])
         /\ offsets' = [offsets EXCEPT ![k] = Len(log) + 1]

Init ==
    /\ pushed = <<>> /\ accum = [a \in Addr |-> <<>>] /\ pop = {}
    /\ chan = <<>> /\ tmpBuf = FreshTmp /\ log = <<>> /\ offsets = [a \in Addr |-> 0]
    /\ exiting = FALSE /\ bgDone = FALSE
    /\ mpc = "idle" /\ mwork = <<>>
    /\ bpc = "loop" /\ bwork = <<>> /\ bcur = EmptyBuf

NonEmptyKeys == {a \in Addr : accum[a] # <<>>}

\* ---------------- main thread ----------------
PushBegin ==
    /\ mpc = "idle" /\ Len(pushed) < MaxTx
    /\ \E as \in (SUBSET Addr) \ {{}}, per \in BOOLEAN :
        /\ pushed' = Append(pushed, [addrs |-> as, periodic |-> per])
        /\ IF per /\ Cardinality(NonEmptyKeys) > T
             THEN mpc' = "periodic" /\ mwork' = Sorted(NonEmptyKeys)
             ELSE mpc' = "append" /\ mwork' = Sorted(as)
    /\ UNCHANGED <<accum, pop, chan, tmpBuf, log, offsets, exiting, bgDone, bpc, bwork, bcur>>

PeriodicStep ==
    /\ mpc = "periodic"
    /\ IF mwork = <<>>
         THEN /\ mpc' = "append" /\ mwork' = Sorted(pushed[Len(pushed)].addrs)
              /\ UNCHANGED <<accum, log, offsets>>
         ELSE LET k == Head(mwork) IN
              /\ mwork' = Tail(mwork) /\ mpc' = mpc
              /\ IF Len(accum[k]) < F /\ Len(accum[k]) > 0 /\ k \notin pop
                   THEN Flush(k, accum[k]) /\ accum' = [accum EXCEPT ![k] = <<>>]
                   ELSE UNCHANGED <<accum, log, offsets>>
    /\ UNCHANGED <<pushed, pop, chan, tmpBuf, exiting, bgDone, bpc, bwork, bcur>>

AppendStep ==
    /\ mpc = "append"
    /\ IF mwork = <<>>
         THEN mpc' = "idle" /\ UNCHANGED <<mwork, accum, pop, chan>>
         ELSE LET k == Head(mwork)
                  cur == Append(accum[k], Len(pushed)) IN
              IF accum[k] # <<>> /\ Len(cur) >= B
                THEN \* send full batch (blocks while channel is full)
                     /\ Len(chan) < Cap
                     /\ chan' = Append(chan, [key |-> k, vals |-> cur])
                     /\ accum' = [accum EXCEPT ![k] = <<>>]
                     /\ pop' = pop \cup {k}
                     /\ mwork' = Tail(mwork) /\ mpc' = mpc
                ELSE /\ accum' = [accum EXCEPT ![k] = cur]
                     /\ mwork' = Tail(mwork) /\ mpc' = mpc
                     /\ UNCHANGED <<pop, chan>>
    /\ UNCHANGED <<pushed, tmpBuf, log, offsets, exiting, bgDone, bpc, bwork, bcur>>

CloseBegin ==
    /\ mpc = "idle"
    /\ IF Fixed THEN mpc' = "setExit" /\ mwork' = <<>>
               ELSE mpc' = "flushAccum" /\ mwork' = Sorted(Addr)
    /\ UNCHANGED <<pushed, accum, pop, chan, tmpBuf, log, offsets, exiting, bgDone, bpc, bwork, bcur>>

FlushAccumStep ==
    /\ mpc = "flushAccum"
    /\ IF mwork = <<>>
         THEN /\ mpc' = IF Fixed THEN "writeIndex" ELSE "setExit"
              /\ UNCHANGED <<mwork, accum, log, offsets>>
         ELSE LET k == Head(mwork) IN
              /\ Flush(k, accum[k]) /\ accum' = [accum EXCEPT ![k] = <<>>]
              /\ mwork' = Tail(mwork) /\ mpc' = mpc
    /\ UNCHANGED <<pushed, pop, chan, tmpBuf, exiting, bgDone, bpc, bwork, bcur>>

SetExit ==
    /\ mpc = "setExit" /\ exiting' = TRUE /\ mpc' = "waitBg"
    /\ UNCHANGED <<pushed, accum, pop, chan, tmpBuf, log, offsets, bgDone, mwork, bpc, bwork, bcur>>

WaitBg ==
    /\ mpc = "waitBg" /\ bgDone
    /\ IF Fixed THEN mpc' = "flushAccum" /\ mwork' = Sorted(Addr)
               ELSE mpc' = "writeIndex" /\ mwork' = <<>>
    /\ UNCHANGED <<pushed, accum, pop, chan, tmpBuf, log, offsets, exiting, bgDone, bpc, bwork, bcur>>

WriteIndex ==
    /\ mpc = "writeIndex" /\ mpc' = "closed"
    /\ UNCHANGED <<pushed, accum, pop, chan, tmpBuf, log, offsets, exiting, bgDone, mwork, bpc, bwork, bcur>>

\* ---------------- background goroutine ----------------
BgLoop ==
    /\ bpc = "loop"
    /\ IF exiting /\ chan = <<>>
         THEN IF Fixed
                THEN bpc' = "drain" /\ bwork' = tmpBuf /\ UNCHANGED <<chan, bcur>>
                ELSE bpc' = "done" /\ UNCHANGED <<chan, bwork, bcur>>
         ELSE /\ chan # <<>>          \* receive (the 1 s timeout branch is a stutter)
              /\ bcur' = Head(chan) /\ chan' = Tail(chan)
              /\ IF Len(tmpBuf) = K \/ Has(tmpBuf, Head(chan).key)
                   THEN bpc' = "flushAll" /\ bwork' = tmpBuf
                   ELSE bpc' = "park" /\ UNCHANGED bwork
    /\ UNCHANGED <<pushed, accum, pop, tmpBuf, log, offsets, exiting, bgDone, mpc, mwork>>

BgFlushAll ==
    /\ bpc \in {"flushAll", "drain"}
    /\ IF bwork = <<>>
         THEN /\ tmpBuf' = FreshTmp
              /\ bpc' = IF bpc = "drain" THEN "done" ELSE "park"
              /\ UNCHANGED <<bwork, log, offsets>>
         ELSE /\ Flush(Head(bwork).key, Head(bwork).vals)
              /\ bwork' = Tail(bwork) /\ UNCHANGED <<tmpBuf, bpc>>
    /\ UNCHANGED <<pushed, accum, pop, chan, exiting, bgDone, mpc, mwork, bcur>>

BgPark ==
    /\ bpc = "park" /\ tmpBuf' = Append(tmpBuf, bcur) /\ bpc' = "loop"
    /\ UNCHANGED <<pushed, accum, pop, chan, log, offsets, exiting, bgDone, mpc, mwork, bwork, bcur>>

BgDone ==
    /\ bpc = "done" /\ ~bgDone /\ bgDone' = TRUE
    /\ UNCHANGED <<pushed, accum, pop, chan, tmpBuf, log, offsets, exiting, mpc, mwork, bpc, bwork, bcur>>

Next == PushBegin \/ PeriodicStep \/ AppendStep \/ CloseBegin \/ FlushAccumStep \/ SetExit
        \/ WaitBg \/ WriteIndex \/ BgLoop \/ BgFlushAll \/ BgPark \/ BgDone

Spec == Init /\ [][Next]_vars

\* ---------------- reader + property ----------------
RECURSIVE Walk(_)
Walk(i) == IF i = 0 THEN <<>> ELSE log[i].vals \o Walk(log[i].prev)
Read(a) == Walk(offsets[a])
ExpectedFor(a) == Expected(Len(pushed), LAMBDA i : a \in pushed[i].addrs)

ClosedReadBack == mpc = "closed" => \A a \in Addr : Read(a) = ExpectedFor(a)
\* ordering invariant that must hold at all times for everything already in the log
LogNewestFirst == \A a \in Addr : StrictlyDescending(Read(a))
\* everything flushed so far is a sub-sequence of what must finally be read (nothing invented, no duplicates)
LogSound == \A a \in Addr : \A i \in 1..Len(Read(a)) : a \in pushed[Read(a)[i]].addrs
TmpBounded == Len(tmpBuf) <= 2*K + MaxTx
=============================================================================
