---- MODULE EpochOps ----
(* Growth beyond the listed properties (attached to C09's engine "epochset"): the *sequential* meaning of the mutable
   epoch set of MultiEpoch (multiepoch.go) and of the --watch reload handler that drives it (cmd-rpc.go).

   State: `disk`   - the config files of the watched directory: path -> content, a content being <<epoch, version>>
                     (the hash of a config file is its content; 0 = no such file)
          `objs`   - every Epoch object ever created by NewEpochFromConfig: [epoch, file, content, closed]
          `served` - MultiEpoch.epochs: epoch number -> object id (0 = not served)
   One action per exported method / per file-system step; every action records the reply the real method must give.

   Bound to the code in two ways:
     * API conformance (R2 -> R3 -> R4): TLC -simulate emits op sequences with the model's replies; the harness executes
       them on the real MultiEpoch (Epoch objects with a real Config read from real files, close tracked through onClose)
       and Trace_EpochOps judges every reply and the resulting epoch set.
     * The watch handler is transcribed (Handle) from the closure in cmd-rpc.go, which cannot be called from a test; it is
       checked here at design level only (R1): WatchConverges fails for (a) two config files of one epoch, (b) a config
       file whose epoch number is edited - both recorded in DESIGN.md 11.7 as observations, not claimed properties. *)
EXTENDS Naturals, Integers, Sequences, FiniteSets, TLC, Json

CONSTANTS Epochs, Files, Versions, MaxOps, MaxObjs, WithHandler

None == 0
NoFile == <<-1, -1>>          \* content of a path without a file
Contents == Epochs \X Versions

VARIABLES disk, objs, served, pending, log
vars == <<disk, objs, served, pending, log>>

Obj(i) == objs[i]
ServedIds == {served[e] : e \in Epochs} \ {None}
Numbers == {e \in Epochs : served[e] # None}
\* descending order, as GetEpochNumbers returns it
RECURSIVE Desc(_)
Desc(S) == IF S = {} THEN <<>> ELSE LET m == CHOOSE x \in S : \A y \in S : y <= x IN <<m>> \o Desc(S \ {m})

Init == /\ disk = [f \in Files |-> NoFile]
        /\ objs = <<>>
        /\ served = [e \in Epochs |-> None]
        /\ pending = <<>>
        /\ log = <<>>

Rec(op, args, reply) == log' = Append(log, [op |-> op, args |-> args, reply |-> reply,
                                             numbers |-> Desc({e \in Epochs : served'[e] # None}),
                                             closed |-> {i \in 1..Len(objs') : objs'[i].closed}])

\* ---- file system steps (each produces the fsnotify event the watcher would see)
WriteFile(f, c) == /\ disk[f] # c
                   /\ disk' = [disk EXCEPT ![f] = c]
                   /\ pending' = Append(pending, [op |-> IF disk[f] = NoFile THEN "create" ELSE "write", file |-> f])
                   /\ UNCHANGED <<objs, served>>
                   /\ Rec("fsWrite", <<f, c[1], c[2]>>, "ok")
DeleteFile(f) == /\ disk[f] # NoFile
                 /\ disk' = [disk EXCEPT ![f] = NoFile]
                 /\ pending' = Append(pending, [op |-> "remove", file |-> f])
                 /\ UNCHANGED <<objs, served>>
                 /\ Rec("fsDelete", <<f>>, "ok")

\* ---- MultiEpoch methods
\* LoadConfig + NewEpochFromConfig: a new object for the current content of f
NewObj(f) == /\ disk[f] # NoFile /\ Len(objs) < MaxObjs
             /\ objs' = Append(objs, [epoch |-> disk[f][1], file |-> f, content |-> disk[f], closed |-> FALSE])
             /\ UNCHANGED <<disk, served, pending>>
             /\ Rec("new", <<f>>, Len(objs) + 1)
Add(i) == LET e == Obj(i).epoch IN
          /\ UNCHANGED <<disk, objs, pending>>
          /\ IF served[e] # None THEN UNCHANGED served /\ Rec("add", <<i>>, "exists")
             ELSE served' = [served EXCEPT ![e] = i] /\ Rec("add", <<i>>, "ok")
Remove(e) == /\ UNCHANGED <<disk, objs, pending>>
             /\ IF served[e] = None THEN UNCHANGED served /\ Rec("remove", <<e>>, "notfound")
                ELSE served' = [served EXCEPT ![e] = None] /\ Rec("remove", <<e>>, "ok")
Replace(i) == LET e == Obj(i).epoch IN
              /\ UNCHANGED <<disk, objs, pending>>
              /\ IF served[e] = None THEN UNCHANGED served /\ Rec("replace", <<i>>, "notfound")
                 ELSE served' = [served EXCEPT ![e] = i] /\ Rec("replace", <<i>>, "ok")
ReplaceOrAdd(i) == LET e == Obj(i).epoch IN
                   /\ objs' = IF served[e] # None THEN [objs EXCEPT ![served[e]].closed = TRUE] ELSE objs
                   /\ served' = [served EXCEPT ![e] = i]
                   /\ UNCHANGED <<disk, pending>>
                   /\ Rec("replaceOrAdd", <<i>>, "ok")
\* ranges over a map: any served epoch whose object was loaded from f may be the one removed
RemoveByFile(f) == LET cands == {e \in Epochs : served[e] # None /\ Obj(served[e]).file = f} IN
                   /\ UNCHANGED <<disk, pending>>
                   /\ IF cands = {} THEN UNCHANGED <<served, objs>> /\ Rec("removeByFile", <<f>>, -1)
                      ELSE \E e \in cands : /\ objs' = [objs EXCEPT ![served[e]].closed = TRUE]
                                            /\ served' = [served EXCEPT ![e] = None]
                                            /\ Rec("removeByFile", <<f>>, e)
\* reads the file: true iff some served object was loaded from exactly the bytes now on disk
SameHash(f) == disk[f] # NoFile /\ \E e \in Epochs : served[e] # None /\ Obj(served[e]).content = disk[f]
HasSameHash(f) == /\ UNCHANGED <<disk, objs, served, pending>>
                  /\ Rec("hasSameHash", <<f>>, IF SameHash(f) THEN "true" ELSE "false")
Has(e) == /\ UNCHANGED <<disk, objs, served, pending>>
          /\ Rec("has", <<e>>, IF served[e] # None THEN "true" ELSE "false")

\* ---- the watch handler (cmd-rpc.go, transcribed): consumes one pending event
Handle == /\ WithHandler /\ pending # <<>>
          /\ LET ev == Head(pending) f == ev.file IN
             /\ pending' = Tail(pending)
             /\ UNCHANGED disk
             /\ IF ev.op # "remove" /\ SameHash(f) THEN UNCHANGED <<objs, served>>          \* "already loaded; do nothing"
                ELSE IF ev.op = "remove"
                  THEN LET cands == {e \in Epochs : served[e] # None /\ Obj(served[e]).file = f} IN
                       IF cands = {} THEN UNCHANGED <<objs, served>>
                       ELSE \E e \in cands : /\ objs' = [objs EXCEPT ![served[e]].closed = TRUE]
                                             /\ served' = [served EXCEPT ![e] = None]
                ELSE IF disk[f] = NoFile \/ Len(objs) >= MaxObjs THEN UNCHANGED <<objs, served>>   \* LoadConfig fails: logged
                ELSE LET c == disk[f] e == c[1] n == Len(objs) + 1
                         fresh == Append(objs, [epoch |-> e, file |-> f, content |-> c, closed |-> FALSE]) IN
                     IF ev.op = "write"
                       THEN /\ objs' = IF served[e] # None THEN [fresh EXCEPT ![served[e]].closed = TRUE] ELSE fresh
                            /\ served' = [served EXCEPT ![e] = n]
                       ELSE \* create -> AddEpoch: refused when the epoch is already served (the new object is dropped)
                            /\ objs' = fresh
                            /\ served' = IF served[e] = None THEN [served EXCEPT ![e] = n] ELSE served
          /\ Rec("handle", <<Head(pending).op, Head(pending).file>>, "ok")

Next == /\ Len(log) < MaxOps
        /\ \/ \E f \in Files, c \in Contents : WriteFile(f, c)
           \/ \E f \in Files : DeleteFile(f)
           \/ (~WithHandler /\ \/ \E f \in Files : NewObj(f) \/ RemoveByFile(f) \/ HasSameHash(f)
                               \/ \E i \in 1..Len(objs) : (~Obj(i).closed /\ i \notin ServedIds) /\ (Add(i) \/ Replace(i) \/ ReplaceOrAdd(i))
                               \/ \E e \in Epochs : Remove(e) \/ Has(e))
           \/ Handle
Spec == Init /\ [][Next]_vars

\* ---- design properties
\* a served epoch object is never a closed one (its files would be gone)
ServedNotClosed == \A e \in Epochs : served[e] # None => ~Obj(served[e]).closed
ServedRightEpoch == \A e \in Epochs : served[e] # None => Obj(served[e]).epoch = e
\* what --watch promises once every event has been handled: the served set is the set the files describe
FileEpochs == {disk[f][1] : f \in {g \in Files : disk[g] # NoFile}}
WatchConverges == (WithHandler /\ pending = <<>>) => Numbers = FileEpochs
\* the same under the deployment assumption "one config file per epoch, and a file keeps its epoch number"
OneFilePerEpoch == \A f, g \in Files : (disk[f] # NoFile /\ disk[g] # NoFile /\ disk[f][1] = disk[g][1]) => f = g
StableEpochs == \A i \in 1..Len(log) : log[i].op = "fsWrite" =>
                  \A j \in 1..(i - 1) : (log[j].op = "fsWrite" /\ log[j].args[1] = log[i].args[1]) => log[j].args[2] = log[i].args[2]
WatchConvergesAssuming == (OneFilePerEpoch /\ StableEpochs) => WatchConverges

\* replay cases (simulation mode): the op log of a finished behaviour
Emit == (Len(log) = MaxOps) => PrintT("@@CASE@@ " \o ToJson([ops |-> log]))
====
