------------------------------- MODULE Ledger -------------------------------
(* Shared vocabulary of an Old Faithful archive, at the level a user observes it.
   Tx     == [sig, accts, loaded, vote, failed, nometa, dframes, mframes, pad, mpad]
             sig: abstract signature id (unique in the archive); accts: static account ids (first = fee payer);
             loaded: address-table loaded account ids (recorded in the metadata); dframes/mframes: number of
             linked frames of the transaction / metadata payload; pad/mpad: size classes 0,1,2
   Entry  == [txs |-> Seq(Tx)]
   Block  == [slot, parent, blocktime, height (-1 = not recorded), entries |-> Seq(Entry), rframes (0 = no rewards)]
   Epoch  == [epoch, blocks |-> Seq(Block)]  (blocks in ascending slot order)
   Archive == Seq(Epoch)                      (ascending epoch numbers)
   The entry hash of entry i of the block at `slot` is identified by <<slot, i>>. *)
EXTENDS Naturals, Integers, Sequences, FiniteSets, SequencesExt
CONSTANT EpochLen                     \* 432000
EpochOf(slot) == slot \div EpochLen
NoBlock == [slot |-> -1]
FlatTxs(b) == FoldLeft(LAMBDA a, e : a \o e.txs, <<>>, b.entries)
EpochIdx(arch, e) == IF \E i \in 1..Len(arch) : arch[i].epoch = e THEN CHOOSE i \in 1..Len(arch) : arch[i].epoch = e ELSE 0
BlocksOf(arch, e) == IF EpochIdx(arch, e) = 0 THEN <<>> ELSE arch[EpochIdx(arch, e)].blocks
FindBlock(arch, slot) ==
    LET bs == BlocksOf(arch, EpochOf(slot)) IN
    IF \E i \in 1..Len(bs) : bs[i].slot = slot THEN bs[CHOOSE i \in 1..Len(bs) : bs[i].slot = slot] ELSE NoBlock
AllBlocks(arch) == FoldLeft(LAMBDA a, ep : a \o ep.blocks, <<>>, arch)
\* every transaction with its position: sequence of [tx, slot, pos, blocktime]
TxRows(b) == LET t == FlatTxs(b) IN [i \in 1..Len(t) |-> [tx |-> t[i], slot |-> b.slot, pos |-> i - 1, blocktime |-> b.blocktime]]
AllTxRows(arch) == FoldLeft(LAMBDA a, b : a \o TxRows(b), <<>>, AllBlocks(arch))
Mentions(tx, a) == (\E i \in 1..Len(tx.accts) : tx.accts[i] = a) \/ (\E i \in 1..Len(tx.loaded) : tx.loaded[i] = a)
\* ---- what getBlock must return for an archived slot (projection used by the judges)
\* blockhash = hash of the last entry; previousBlockhash = last entry hash of the parent block when the
\* parent is archived in the same epoch (otherwise unspecified by the property)
LastEntry(b) == IF Len(b.entries) = 0 THEN <<b.slot, 0>> ELSE <<b.slot, Len(b.entries)>>
ParentInSameEpoch(arch, b) == /\ EpochOf(b.parent) = EpochOf(b.slot) /\ b.parent # b.slot
                              /\ FindBlock(arch, b.parent) # NoBlock
BlockSigs(b) == LET t == FlatTxs(b) IN [i \in 1..Len(t) |-> t[i].sig]
=============================================================================
