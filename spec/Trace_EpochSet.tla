---- MODULE Trace_EpochSet ----
(* R4 judge for C09.
   kind "replay": a deadlock state of spec/EpochSet.tla forced on the real MultiEpoch: outcome "hang" means the real
       goroutines are blocked in sync.RWMutex for good - the property (every operation completes) is violated;
       "completed" / "diverged" / "unreplayable" are not violations.
   kind "stress": queries against epochs that stay loaded, concurrent with add / replace / remove of other epochs:
       every answer equals the idle-server answer, every listing is strictly descending (sorted newest first,
       duplicate-free) and contains the stable epochs, and everything completes.
   kind "linpair": see Accept. *)
EXTENDS Naturals, Sequences, TLC, Json
Trace == ndJsonDeserialize("obs.ndjson")
VARIABLE l
Descending(s) == \A i \in 1..(Len(s) - 1) : s[i] > s[i + 1]
Contains(s, x) == \E i \in 1..Len(s) : s[i] = x
\* kind "linpair": two epoch-set mutators, the first parked between two of its own critical sections (when it has more than
\*     one) while the second runs to completion: replies, served epochs and closed Epoch objects must equal those of one of
\*     the two sequential orders executed on the same real code (whose sequential meaning is validated against EpochOps).
Accept(r) ==
    IF r.kind = "replay" THEN r.outcome # "hang"
    ELSE IF r.kind = "linpair" THEN r.outcome = "completed" /\ (r.inter = r.seq12 \/ r.inter = r.seq21)
    ELSE /\ r.outcome = "completed"
         /\ \A i \in 1..Len(r.pairs) : r.pairs[i].idle = r.pairs[i].stress
         /\ \A i \in 1..Len(r.listings) : Descending(r.listings[i]) /\ \A k \in 1..Len(r.stable) : Contains(r.listings[i], r.stable[k])
Init == l = 1
Next == /\ l <= Len(Trace) /\ l' = l + 1
        /\ IF Accept(Trace[l]) THEN TRUE ELSE PrintT("@@REJECT@@ " \o ToString(l))
Spec == Init /\ [][Next]_l
HW == TLCSet(1, l)
Done == PrintT("@@CONSUMED@@ " \o ToString(TLCGet(1) - 1))
====
