---- MODULE Watcher ----
(* Code-shaped model of the --watch dispatch loop (cmd-rpc.go:onFileChanged), part of C09's "every operation completes
   under --watch reloads":
     fsnotify delivers events into a channel (queue); ONE dispatcher goroutine takes an event and calls wg.Go on an errgroup
     limited to --epoch-load-concurrency slots - wg.Go BLOCKS the dispatcher while every slot is taken; the worker first
     asks the fileProcessingTracker whether the file is already being processed (then it returns at once: the event is
     dropped), otherwise marks it, runs the callback (load the config, build the epoch, ReplaceOrAddEpoch / AddEpoch /
     RemoveEpochByConfigFilepath) and unmarks it.
   Checked: Bounded, OneLoadPerFile, TrackerExact, refinement of WatcherAbs, and under fairness (every callback returns)
   Drains: once fsnotify stops delivering, the queue empties, the dispatcher is idle and every slot is free - a later
   event is processed.  NoLostUpdate is expected to FAIL (design observation, not claimed): an event that arrives while its
   file is being loaded is dropped, so the content written last may never be loaded. *)
EXTENDS Integers, Sequences, FiniteSets, TLC, Json
CONSTANTS Files, Slots, MaxEvents,
          Variant   \* "drop": the code as it is.  "replay": negative control - a busy file's event is parked and re-submitted with
                    \* wg.Go by the worker that finishes the file, from inside its own slot (a plausible "fix" of the lost update)
VARIABLES queue, disp, workers, tracker, nev, nextid, stale, hist, parked
vars == <<queue, disp, workers, tracker, nev, nextid, stale, hist, parked>>
Idle == "idle"

Init == /\ queue = <<>> /\ disp = Idle /\ workers = {} /\ tracker = {} /\ nev = 0 /\ nextid = 1
        /\ stale = {}        \* files written after the load that is running / ran last started (their newest content is not loaded)
        /\ hist = <<>> /\ parked = {}

Arrive(f) == /\ nev < MaxEvents /\ nev' = nev + 1
             /\ queue' = Append(queue, f)
             /\ stale' = stale \cup {f}
             /\ hist' = Append(hist, [step |-> "touch", file |-> f])
             /\ UNCHANGED <<disp, workers, tracker, nextid, parked>>
Take == /\ disp = Idle /\ queue # <<>>
        /\ queue' = Tail(queue)
        /\ LET f == Head(queue) IN
           IF Variant = "replay"       \* (negative control: the tracker is consulted by the dispatcher, before a slot is taken)
             THEN IF f \in tracker THEN parked' = parked \cup {f} /\ disp' = Idle /\ UNCHANGED tracker
                                   ELSE tracker' = tracker \cup {f} /\ disp' = f /\ UNCHANGED parked
             ELSE disp' = f /\ UNCHANGED <<tracker, parked>>
        /\ UNCHANGED <<workers, nev, nextid, stale, hist>>
Spawn == /\ disp # Idle /\ Cardinality(workers) < Slots          \* wg.Go returns only when a slot is free
         /\ workers' = workers \cup {[id |-> nextid, file |-> disp, pc |-> "check"]}
         /\ nextid' = nextid + 1 /\ disp' = Idle
         /\ UNCHANGED <<queue, tracker, nev, stale, hist, parked>>
Check(w) == /\ w \in workers /\ w.pc = "check"
            /\ IF Variant # "replay" /\ w.file \in tracker
                 THEN workers' = workers \ {w} /\ UNCHANGED <<tracker, stale>>            \* already being processed: dropped
                 ELSE /\ tracker' = tracker \cup {w.file}
                      /\ workers' = (workers \ {w}) \cup {[w EXCEPT !.pc = "load"]}
                      /\ stale' = stale \ {w.file}                                          \* the callback reads the file now
            /\ UNCHANGED <<queue, disp, nev, nextid, hist, parked>>
Finish(w) == /\ w \in workers /\ w.pc = "load"
             /\ tracker' = tracker \ {w.file}
             /\ IF w.file \in parked
                  THEN workers' = (workers \ {w}) \cup {[w EXCEPT !.pc = "resubmit"]} /\ parked' = parked \ {w.file}
                  ELSE workers' = workers \ {w} /\ UNCHANGED parked
             /\ hist' = Append(hist, [step |-> "finish", file |-> w.file])
             /\ UNCHANGED <<queue, disp, nev, nextid, stale>>
\* (negative control only) wg.Go from inside a worker: needs a free slot while the caller still holds its own
Resubmit(w) == /\ w \in workers /\ w.pc = "resubmit" /\ Cardinality(workers) < Slots
               /\ workers' = (workers \ {w}) \cup {[id |-> nextid, file |-> w.file, pc |-> "check"]}
               /\ nextid' = nextid + 1 /\ tracker' = tracker \cup {w.file}
               /\ UNCHANGED <<queue, disp, nev, stale, hist, parked>>
Next == (\E f \in Files : Arrive(f)) \/ Take \/ Spawn \/ (\E w \in workers : Check(w) \/ Finish(w) \/ Resubmit(w))
Spec == Init /\ [][Next]_vars
FairSpec == Spec /\ WF_vars(Take) /\ WF_vars(Spawn) /\ \A i \in 1..(2 * MaxEvents + 1) : WF_vars(\E w \in workers : w.id = i /\ (Check(w) \/ Finish(w) \/ Resubmit(w)))

Loading == {w.file : w \in {x \in workers : x.pc = "load"}}
Bounded == Cardinality(workers) <= Slots
OneLoadPerFile == \A a, b \in workers : a.pc = "load" /\ b.pc = "load" /\ a.file = b.file => a = b
TrackerExact == tracker = Loading
Abs == INSTANCE WatcherAbs WITH loading <- Loading
Refines == Abs!ASpec
Quiet == queue = <<>> /\ disp = Idle /\ workers = {}
Drains == <>[]Quiet
NoLostUpdate == <>[](Quiet /\ stale = {})

(* R2: schedules for the replay on the real watcher: touches of files and callback completions, as they happen in the model *)
Emit == (nev = MaxEvents /\ Quiet) => PrintT("@@CASE@@ " \o ToJson([slots |-> Slots, steps |-> hist]))
====
