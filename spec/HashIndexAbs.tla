---------------------------- MODULE HashIndexAbs ----------------------------
(* C04, the property itself.  A build takes a value size, a declared item count and a sequence of inserts
   <<key, value>>.  Outcome: "ok" with a sealed file, or "err".
     ok  => every inserted key is found with exactly the value inserted with it (and the file is a function of the
            SET of inserts, the declared count and the value size: insertion order does not matter, sealing twice
            gives identical bytes);
     a duplicate key, a key longer than 65 535 bytes, a value size outside 1..MaxValueSize or a value
     longer than the value size must give "err" (never an index that loses or corrupts entries). *)
EXTENDS Naturals, Sequences, FiniteSets
MaxKeyLen == 65535
MaxValueSize == 252            \* entry stride = 3 + value size must fit a byte
HasDuplicate(keys) == \E i, j \in 1..Len(keys) : i # j /\ keys[i] = keys[j]
\* must the build fail?  (vsize: configured value size; klens / vlens: lengths of the inserted keys / values)
MustFail(vsize, keys, klens, vlens) ==
    \/ vsize < 1 \/ vsize > MaxValueSize
    \/ HasDuplicate(keys)
    \/ \E i \in 1..Len(klens) : klens[i] > MaxKeyLen
    \/ \E i \in 1..Len(vlens) : vlens[i] > vsize      \* (a shorter value is zero-padded by Insert: the harness compares lookups with the padded value)
\* outcome \in {"ok","err","panic"}; found[i] = the lookup of insert i returned exactly its value
\* may a build of supported inputs fail?  Only when a bucket is over-full: mining a collision-free 24-bit hash for a bucket
\* succeeds with probability ~exp(-n^2 / 2^25) per attempt (1000 attempts): certain for <= 10 000 entries per bucket
\* (the builder's target), hopeless above ~20 000.  avgload = inserts per bucket given the declared item count.
MayFail(avgload) == avgload > 10000
\* metaok: the metadata given to the builder was read back unchanged from the sealed file
BuildAllowed(vsize, keys, klens, vlens, outcome, found, deterministic, metaok) ==
    /\ outcome \in {"ok", "err"}
    /\ MustFail(vsize, keys, klens, vlens) => outcome = "err"
    /\ outcome = "ok" => (\A i \in 1..Len(found) : found[i]) /\ deterministic /\ metaok
=============================================================================
