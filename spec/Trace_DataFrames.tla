---- MODULE Trace_DataFrames ----
(* R4 judge for C14. Record: [n, fan, fault |-> [kind, i, j], checksum \in {"crc64","fnv","none"}, via, outcome \in
   {"original","error","different","panic"}, late (an earlier result was modified by a later reassembly)].
   No fault => the original bytes. A fault => the original bytes or an error - for payloads carrying checksum and frame
   count; legacy frames without them are exempt from that clause. *)
EXTENDS Naturals, Sequences, TLC, Json
Trace == ndJsonDeserialize("obs.ndjson")
VARIABLE l
Accept(r) == /\ ~r.late /\ r.outcome # "panic"
             /\ IF r.fault.kind = "none" THEN r.outcome = "original"
                ELSE r.checksum = "none" \/ r.outcome \in {"original", "error"}
Init == l = 1
Next == /\ l <= Len(Trace) /\ l' = l + 1
        /\ IF Accept(Trace[l]) THEN TRUE ELSE PrintT("@@REJECT@@ " \o ToString(l))
Spec == Init /\ [][Next]_l
HW == TLCSet(1, l)
Done == PrintT("@@CONSUMED@@ " \o ToString(TLCGet(1) - 1))
====
