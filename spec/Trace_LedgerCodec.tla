---- MODULE Trace_LedgerCodec ----
(* R4 judge for C11. Record: [kind, shape fields.., instances |-> <<[encoded (reference encoder accepted the value),
   fastok, classicok, same (accessor-visible projections of the two decoders are equal), presence (the fast decoder's
   presence flags equal the shape's), cross (some decoder of ANOTHER kind accepted the bytes)]>>] *)
EXTENDS Naturals, Sequences, TLC, Json
Trace == ndJsonDeserialize("obs.ndjson")
VARIABLE l
InstanceOK(x) == ~x.encoded \/ (x.fastok /\ x.classicok /\ x.same /\ x.presence /\ ~x.cross)
Accept(r) == \A i \in 1..Len(r.instances) : InstanceOK(r.instances[i])
Init == l = 1
Next == /\ l <= Len(Trace) /\ l' = l + 1
        /\ IF Accept(Trace[l]) THEN TRUE ELSE PrintT("@@REJECT@@ " \o ToString(l))
Spec == Init /\ [][Next]_l
HW == TLCSet(1, l)
Done == PrintT("@@CONSUMED@@ " \o ToString(TLCGet(1) - 1))
====
