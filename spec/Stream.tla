------------------------------- MODULE Stream -------------------------------
(* C19, code-shaped model of grpc-server.go StreamBlocks / StreamTransactions (processSlotTransactions).
   Block-scan path (no filter, no include accounts, or no address index): slot loop; a slot without a block is
   skipped; every transaction passes through the filter predicate.
   Index path (include accounts and an address index): per included account a query for the newest <= limit in-range
   entries of the address index (GetBeforeUntilSlot; first limit Cap), repeated with a doubled limit while the answer comes
   back full (Grow = TRUE; the index has no cursor to continue from) - an answer shorter than its limit is the whole range;
   each entry is passed through the predicate (without the include test), buffered by (slot, position) and flushed in
   ascending order.  Grow = FALSE is the single query of the tree before 04fedb3 (former known finding C19-K1).
   Pinned = TRUE reproduces the pinned tree: the predicate returns TRUE to keep but both send sites tested its
   negation, the block-scan loop returned at the first slot without a block, and a successful protobuf transaction
   counted as failed; the include test of the block-scan path only saw static keys.
   Every (loaded set, range, filter, index on/off) is an initial state. *)
EXTENDS StreamAbs, TLC
CONSTANTS Arch, LoadedSets, Ranges, IncSets, ExcSets, ReqSets, Cap, Grow, Pinned
VARIABLES loaded, start, end, f, useIndex
vars == <<loaded, start, end, f, useIndex>>
Filters == {NilFilter} \cup [vote : BOOLEAN, failed : BOOLEAN, inc : IncSets, exc : ExcSets, req : ReqSets]
Init == /\ loaded \in LoadedSets /\ \E r \in Ranges : start = r[1] /\ end = r[2]
        /\ f \in Filters /\ useIndex \in BOOLEAN
Next == UNCHANGED vars
Spec == Init /\ [][Next]_vars
\* ---- the predicate as coded (TRUE = keep)
FailedSeen(tx) == IF Pinned THEN ~tx.nometa \/ tx.failed ELSE tx.failed      \* typed-nil error map on the pinned tree
StaticSet(tx) == SeqToSet(tx.accts)
Pred(tx, viaIndex) ==
    \/ f = NilFilter
    \/ /\ (f.vote \/ ~tx.vote)
       /\ (f.failed \/ ~FailedSeen(tx))
       /\ (viaIndex \/ f.inc = {} \/ (IF Pinned THEN StaticSet(tx) ELSE MentionSet(tx)) \cap f.inc # {})
       /\ StaticSet(tx) \cap f.exc = {}
       /\ f.req \subseteq StaticSet(tx)
Send(tx, viaIndex) == IF Pinned THEN ~Pred(tx, viaIndex) ELSE Pred(tx, viaIndex)
\* ---- block-scan path
RECURSIVE Scan(_, _)
Scan(slot, out) ==
    IF slot > end THEN out
    ELSE LET b == FindBlock(Arch, slot) IN
         IF b = NoBlock \/ EpochOf(slot) \notin loaded
           THEN IF Pinned THEN out ELSE Scan(slot + 1, out)
           ELSE Scan(slot + 1, out \o SelectSeq([i \in 1..Len(FlatTxs(b)) |-> FlatTxs(b)[i]], LAMBDA tx : Send(tx, FALSE)))
\* ---- index path
Rows == LoadedRows(Arch, loaded)
NewestFirst(s) == [i \in 1..Len(s) |-> s[Len(s) + 1 - i]]
InRangeOf(a) == SelectSeq(NewestFirst(Rows), LAMBDA r : InRange(r.slot, start, end) /\ a \in MentionSet(r.tx))
Query(a, limit) == LET inr == InRangeOf(a) IN SubSeq(inr, 1, IF Len(inr) < limit THEN Len(inr) ELSE limit)
RECURSIVE Enlarge(_, _)
Enlarge(a, limit) == LET q == Query(a, limit) IN IF Len(q) < limit \/ ~Grow THEN q ELSE Enlarge(a, 2 * limit)
Hits(a) == Enlarge(a, Cap)
\* the loop ends: a query is repeated only while it comes back full, and limits double
QueriesBounded == \A a \in (IF f = NilFilter THEN {} ELSE f.inc) : Len(Hits(a)) = Len(InRangeOf(a)) \/ ~Grow
Buffered == UNION {{Hits(a)[i] : i \in 1..Len(Hits(a))} : a \in f.inc}
IndexPath == LET keep == {r \in Buffered : Send(r.tx, TRUE)}
             IN SelectSeq(Rows, LAMBDA r : r \in keep)          \* flush in ascending (slot, position) order
Result == LET txs == IF f = NilFilter \/ f.inc = {} \/ ~useIndex THEN Scan(start, <<>>)
                     ELSE [i \in 1..Len(IndexPath) |-> IndexPath[i].tx]
          IN [i \in 1..Len(txs) |-> txs[i].sig]
\* exclude / required accounts are only compared with static keys by the code: the property is checked for filters whose
\* exclude / required accounts never occur as loaded-only accounts (the generator keeps loaded accounts apart)
Correct == Result = StreamedTxs(Arch, loaded, start, end, f)
\* StreamBlocks: the slot loop with the NotFound branch and the include filter over static + loaded keys
RECURSIVE ScanBlocks(_, _)
ScanBlocks(slot, out) ==
    IF slot > end THEN out
    ELSE LET b == FindBlock(Arch, slot) IN
         IF b = NoBlock \/ EpochOf(slot) \notin loaded THEN ScanBlocks(slot + 1, out)
         ELSE IF f = NilFilter \/ f.inc = {} \/ \E i \in 1..Len(FlatTxs(b)) : MentionSet(FlatTxs(b)[i]) \cap f.inc # {}
           THEN ScanBlocks(slot + 1, Append(out, slot)) ELSE ScanBlocks(slot + 1, out)
BlocksCorrect == ScanBlocks(start, <<>>) = StreamedBlocks(Arch, loaded, start, end, IF f = NilFilter THEN {} ELSE f.inc)
=============================================================================
