------------------------------ MODULE StreamAbs ------------------------------
(* C19, the property itself, over the Ledger vocabulary.
   Blocks(range, include): every archived block of a loaded epoch whose slot lies in the range and (when include is
   not empty) that contains a transaction mentioning one of the accounts - in ascending slot order.
   Txs(range, filter): every archived transaction of the range that satisfies the filter - ascending (slot, position):
     keep == (f.vote \/ ~vote) /\ (f.failed \/ ~failed) /\ (include = {} \/ mentions some) /\ mentions none of exclude
             /\ mentions all of required.    A nil filter keeps everything.
   An account is mentioned by a transaction through its static keys or through address-table loaded addresses.
   The result does not depend on whether an address index is loaded. *)
EXTENDS Ledger
NilFilter == [nil |-> TRUE]
SeqToSet(s) == {s[i] : i \in 1..Len(s)}
MentionSet(tx) == SeqToSet(tx.accts) \cup SeqToSet(tx.loaded)
Keep(f, tx) == \/ f = NilFilter
               \/ /\ (f.vote \/ ~tx.vote) /\ (f.failed \/ ~tx.failed)
                  /\ (f.inc = {} \/ MentionSet(tx) \cap f.inc # {})
                  /\ MentionSet(tx) \cap f.exc = {}
                  /\ f.req \subseteq MentionSet(tx)
InRange(slot, start, end) == start <= slot /\ slot <= end
LoadedBlocks(arch, ld) == SelectSeq(AllBlocks(arch), LAMBDA b : EpochOf(b.slot) \in ld)
StreamedBlocks(arch, ld, start, end, inc) ==
    LET bs == SelectSeq(LoadedBlocks(arch, ld), LAMBDA b : InRange(b.slot, start, end) /\
                  (inc = {} \/ \E i \in 1..Len(FlatTxs(b)) : MentionSet(FlatTxs(b)[i]) \cap inc # {}))
    IN [i \in 1..Len(bs) |-> bs[i].slot]
LoadedRows(arch, ld) == SelectSeq(AllTxRows(arch), LAMBDA r : EpochOf(r.slot) \in ld)
StreamedTxs(arch, ld, start, end, f) ==
    LET rs == SelectSeq(LoadedRows(arch, ld), LAMBDA r : InRange(r.slot, start, end) /\ Keep(f, r.tx))
    IN [i \in 1..Len(rs) |-> rs[i].tx.sig]
=============================================================================
