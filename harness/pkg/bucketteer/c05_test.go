package bucketteer

// C05 replayer (R3): one writer per process (the writer pre-sizes 65 536 buckets); bucket populations
// 0,1,2,3,2^k-1,2^k,2^k+1 .. 4097, 16 001 (next prefix populated), duplicates, empty prefixes, random fill; the sealed
// file is read through mmap Open and through a plain io.ReaderAt; an independent parser dumps the small buckets;
// concurrent lookups on one reader. Current and deprecated formats.

import (
	"bytes"
	"encoding/binary"
	"fmt"
	"math/rand"
	"os"
	"os/exec"
	"path/filepath"
	"sort"
	"strconv"
	"strings"
	"sync"
	"testing"

	deprecated "github.com/rpcpool/yellowstone-faithful/deprecated/bucketteer"
	"github.com/rpcpool/yellowstone-faithful/indexmeta"
	"github.com/rpcpool/yellowstone-faithful/zzverif/vt"
)

type c05Bucket struct {
	Prefix   int   `json:"prefix"`
	Pop      int   `json:"pop"`
	Dups     int   `json:"dups"`
	Found    bool  `json:"found"`
	Writer   bool  `json:"writer"`
	Absentok bool  `json:"absentok"`
	Ranks    []int `json:"ranks"`
}

type c05Obs struct {
	Format     string      `json:"format"`
	Reader     string      `json:"reader"`
	Added      int         `json:"added"`
	Buckets    []c05Bucket `json:"buckets"`
	Concurrent bool        `json:"concurrent"`
	Err        string      `json:"err"`
}

type c05has interface {
	Has(sig [64]byte) (bool, error)
}

func c05sig(rng *rand.Rand, prefix int) [64]byte {
	var s [64]byte
	rng.Read(s[:])
	s[0], s[1] = byte(prefix), byte(prefix>>8) // prefixToUint16 is little endian
	return s
}

func c05pops() []int {
	p := []int{0, 1, 2, 3}
	for k := 2; k <= 12; k++ {
		p = append(p, 1<<k-1, 1<<k, 1<<k+1)
	}
	return p
}

// TestVerifC05Child builds one file (VERIF_C05_FORMAT) and emits one record per reader kind.
func TestVerifC05Child(t *testing.T) {
	format := os.Getenv("VERIF_C05_FORMAT")
	if format == "" {
		t.Skip("child only")
	}
	out := vt.Out(t)
	defer out.Close()
	rng := vt.Rand()
	path := filepath.Join(t.TempDir(), "sigexists.index")
	type bk struct {
		prefix int
		sigs   [][64]byte // distinct
		dups   int
	}
	var bks []*bk
	pops := c05pops()
	prefix := 0x100 + rng.Intn(0x100)
	// small files: the bucket stored last (highest prefix) holds 1, 2 or 3 hashes, i.e. the file ends 12, 20 or 28 bytes
	// after that bucket starts; the first prefix of the space is populated too
	tail, _ := strconv.Atoi(os.Getenv("VERIF_C05_SMALL"))
	if tail > 0 {
		pops = nil
		for i, pf := range []int{0x0000, 0x0101, 0x7fff, 0xfffe, 0xffff} {
			b := &bk{prefix: pf}
			for k := 0; k < []int{2, 1, 3, 1, tail}[i]; k++ {
				b.sigs = append(b.sigs, c05sig(rng, pf))
			}
			bks = append(bks, b)
		}
	}
	for rep := 0; rep < 2; rep++ {
		for _, n := range pops {
			b := &bk{prefix: prefix}
			for i := 0; i < n; i++ {
				b.sigs = append(b.sigs, c05sig(rng, prefix))
			}
			bks = append(bks, b)
			prefix += 1 + rng.Intn(3)*rep // first pass: adjacent prefixes; second pass: gaps (empty prefixes)
		}
	}
	// a heavy bucket next to a light one, and one at the end of the prefix space
	heavy := 16_001
	if !vt.Quick() {
		heavy = 40_000
	}
	for _, pf := range []int{prefix + 5, 0xFFFE} {
		if tail > 0 {
			break
		}
		b := &bk{prefix: pf}
		for i := 0; i < heavy; i++ {
			b.sigs = append(b.sigs, c05sig(rng, pf))
		}
		nb := &bk{prefix: pf + 1}
		for i := 0; i < 3; i++ {
			nb.sigs = append(nb.sigs, c05sig(rng, pf+1))
		}
		bks = append(bks, b, nb)
	}
	// random fill over the whole prefix space
	fill := 20_000
	if !vt.Quick() {
		fill = 150_000
	}
	if tail > 0 {
		fill = 0
	}
	used := map[int]bool{}
	for _, b := range bks {
		used[b.prefix] = true
	}
	fillBk := map[int]*bk{}
	for i := 0; i < fill; i++ {
		pf := rng.Intn(65536)
		if used[pf] {
			continue
		}
		b := fillBk[pf]
		if b == nil {
			b = &bk{prefix: pf}
			fillBk[pf] = b
		}
		b.sigs = append(b.sigs, c05sig(rng, pf))
	}
	nfill := 0
	for _, b := range fillBk {
		if nfill < 300 {
			bks = append(bks, b)
			nfill++
		}
	}
	var put func(sig [64]byte)
	var writerHas func(sig [64]byte) bool
	var seal, closeW func() error
	var wantMeta indexmeta.Meta
	if format == "current" {
		w, err := NewWriter(path)
		if err != nil {
			t.Fatal(err)
		}
		put, writerHas = w.Put, w.Has
		seal = func() error {
			// "all metadata": none for the big populations, the typed writers' few pairs or the largest allowed metadata
			// (255 pairs of 255-byte keys and values) for the small files
			var meta indexmeta.Meta
			switch tail {
			case 1:
				meta.AddString([]byte("epoch"), "7")
				meta.Add([]byte("rootCid"), bytes.Repeat([]byte{0x5a}, 36))
			case 2, 3:
				for i := 0; i < 255; i++ {
					k, v := bytes.Repeat([]byte{byte(i)}, 255), bytes.Repeat([]byte{byte(255 - i)}, 255)
					if tail == 3 && i == 254 {
						v = v[:254]
					}
					if err := meta.Add(k, v); err != nil {
						return err
					}
				}
			}
			wantMeta = meta
			_, err := w.Seal(meta)
			return err
		}
		closeW = w.Close
	} else {
		w, err := deprecated.NewWriter(path)
		if err != nil {
			t.Fatal(err)
		}
		put, writerHas = w.Put, w.Has
		seal = func() error {
			_, err := w.Seal(map[string]string{"epoch": "7"})
			return err
		}
		closeW = w.Close
	}
	added := 0
	order := rng.Perm(len(bks))
	for _, bi := range order {
		b := bks[bi]
		for i, s := range b.sigs {
			put(s)
			added++
			if i%5 == 4 { // every fifth signature is added twice
				put(s)
				b.dups++
				added++
			}
		}
	}
	for _, b := range fillBk {
		found := false
		for _, x := range bks {
			if x == b {
				found = true
			}
		}
		if !found {
			for _, s := range b.sigs {
				put(s)
				added++
			}
		}
	}
	// the writer's in-memory membership test (before sealing)
	wAgree := map[*bk]bool{}
	absent := map[*bk][][64]byte{}
	for _, b := range bks {
		ok := true
		for _, s := range b.sigs {
			ok = ok && writerHas(s)
		}
		for k := 0; k < 12; k++ {
			a := c05sig(rng, b.prefix)
			absent[b] = append(absent[b], a)
			ok = ok && !writerHas(a)
		}
		wAgree[b] = ok
	}
	if err := seal(); err != nil {
		out.Emit(c05Obs{Format: format, Reader: "-", Added: added, Buckets: []c05Bucket{}, Err: "seal: " + err.Error()})
		return
	}
	// ... and after sealing: the writer still has to agree with the file it has just written
	for _, b := range bks {
		ok := wAgree[b]
		for _, s := range b.sigs {
			ok = ok && writerHas(s)
		}
		for _, a := range absent[b] {
			ok = ok && !writerHas(a)
		}
		wAgree[b] = ok
	}
	if err := closeW(); err != nil {
		out.Emit(c05Obs{Format: format, Reader: "-", Added: added, Buckets: []c05Bucket{}, Err: "close: " + err.Error()})
		return
	}
	raw, _ := os.ReadFile(path)
	for _, kind := range []string{"open", "readerat"} {
		o := c05Obs{Format: format, Reader: kind, Added: added, Concurrent: true}
		var r c05has
		var closer func()
		if p := vt.Guard(func() {
			switch {
			case format == "current" && kind == "open":
				x, err := Open(path)
				if err != nil {
					o.Err = err.Error()
					return
				}
				r, closer = x, func() { x.Close() }
				if got := x.Meta(); got == nil || !bytes.Equal(got.Bytes(), wantMeta.Bytes()) {
					o.Err = "the metadata read back differs from the metadata sealed"
				}
			case format == "current":
				f, _ := os.Open(path)
				x, err := NewReader(f)
				if err != nil {
					o.Err = err.Error()
					return
				}
				r, closer = x, func() { f.Close() }
				if got := x.Meta(); got == nil || !bytes.Equal(got.Bytes(), wantMeta.Bytes()) {
					o.Err = "the metadata read back differs from the metadata sealed"
				}
			case kind == "open":
				x, err := deprecated.Open(path)
				if err != nil {
					o.Err = err.Error()
					return
				}
				r, closer = x, func() { x.Close() }
			default:
				f, _ := os.Open(path)
				x, err := deprecated.NewReader(f)
				if err != nil {
					o.Err = err.Error()
					return
				}
				r, closer = x, func() { f.Close() }
			}
		}); p != "" {
			o.Err = p
		}
		if o.Err != "" {
			o.Buckets = []c05Bucket{}
			out.Emit(o)
			continue
		}
		for _, b := range bks {
			ob := c05Bucket{Prefix: b.prefix, Pop: len(b.sigs), Dups: b.dups, Found: true, Writer: wAgree[b], Absentok: true, Ranks: []int{}}
			hashes := map[uint64]bool{}
			for _, s := range b.sigs {
				hashes[Hash(s)] = true
				has, err := r.Has(s)
				if err != nil || !has {
					ob.Found = false
				}
			}
			for _, a := range absent[b] {
				has, err := r.Has(a)
				if err != nil || (has && !hashes[Hash(a)]) {
					ob.Absentok = false
				}
			}
			if format == "current" && len(b.sigs) <= 130 {
				ob.Ranks = c05dump(raw, b.prefix, hashes)
			}
			o.Buckets = append(o.Buckets, ob)
		}
		// concurrent lookups on the same reader (as concurrent getTransaction requests do)
		var wg sync.WaitGroup
		var mu sync.Mutex
		for g := 0; g < 8; g++ {
			wg.Add(1)
			go func(seed int64) {
				defer wg.Done()
				lr := rand.New(rand.NewSource(seed))
				for i := 0; i < 4000; i++ {
					b := bks[lr.Intn(len(bks))]
					if len(b.sigs) == 0 {
						continue
					}
					has, err := r.Has(b.sigs[lr.Intn(len(b.sigs))])
					if err != nil || !has {
						mu.Lock()
						o.Concurrent = false
						mu.Unlock()
					}
				}
			}(rng.Int63())
		}
		wg.Wait()
		closer()
		out.Emit(o)
	}
}

// independent parser of the current format: u32 headerSize | magic(8) version(8) meta(1 byte count + kvs) numPrefixes(8)
// (prefix(2) offset(8))* | buckets: u32 count, count x u64.  Returns the stored hashes of the prefix as ranks (1-based)
// among the distinct hashes added to that prefix; nil if the file cannot be parsed that way.
func c05dump(raw []byte, prefix int, added map[uint64]bool) []int {
	if len(raw) < 4 {
		return nil
	}
	hs := int(binary.LittleEndian.Uint32(raw[:4]))
	hdr := raw[4 : 4+hs]
	// the offset table is the tail of the header: numPrefixes x 10 bytes preceded by the u64 count
	const n = 65536
	tab := hdr[len(hdr)-n*10:]
	off := uint64(1<<64 - 1)
	for i := 0; i < n; i++ {
		p := int(tab[i*10]) | int(tab[i*10+1])<<8
		if p == prefix {
			off = binary.LittleEndian.Uint64(tab[i*10+2 : i*10+10])
		}
	}
	if off == 1<<64-1 {
		return []int{}
	}
	content := raw[4+hs:]
	cnt := int(binary.LittleEndian.Uint32(content[off : off+4]))
	var sorted []uint64
	for h := range added {
		sorted = append(sorted, h)
	}
	sort.Slice(sorted, func(i, j int) bool { return sorted[i] < sorted[j] })
	rank := map[uint64]int{}
	for i, h := range sorted {
		rank[h] = i + 1
	}
	out := []int{}
	for i := 0; i < cnt; i++ {
		h := binary.LittleEndian.Uint64(content[int(off)+4+8*i:])
		out = append(out, rank[h]) // 0 = a hash that was never added
	}
	return out
}

func TestVerifC05(t *testing.T) {
	out := vt.Out(t)
	defer out.Close()
	type run struct{ format, small string }
	var runs []run
	for _, format := range []string{"current", "deprecated"} {
		runs = append(runs, run{format, ""}, run{format, "1"}, run{format, "2"}, run{format, "3"})
	}
	for _, r := range runs {
		format := r.format
		childOut := filepath.Join(t.TempDir(), "obs.ndjson")
		cmd := exec.Command(os.Args[0], "-test.run=^TestVerifC05Child$", "-test.timeout=30m")
		cmd.Env = append(os.Environ(), "VERIF_C05_FORMAT="+format, "VERIF_C05_SMALL="+r.small, "VERIF_OUT="+childOut)
		b, err := cmd.CombinedOutput()
		if err != nil {
			tail := string(b)
			if len(tail) > 600 {
				tail = tail[len(tail)-600:]
			}
			out.Emit(c05Obs{Format: format, Reader: "-", Buckets: []c05Bucket{}, Err: "child failed: " + tail})
			continue
		}
		f, _ := os.ReadFile(childOut)
		for _, line := range strings.Split(string(f), "\n") {
			if strings.TrimSpace(line) != "" {
				out.EmitRaw(line)
			}
		}
	}
	_ = fmt.Sprint
}
