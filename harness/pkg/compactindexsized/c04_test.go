package compactindexsized

// C04 replayer (R3): every case class of spec/Gen_HashIndex.tla is concretised (seeded keys / values), built twice with
// the real builder of the chosen format (compactindexsized, deprecated/compactindex, deprecated/compactindex36),
// the two files are compared byte for byte, every inserted key is looked up, and the buckets of the sealed file are
// dumped (current format: with an independent parser of the file layout).

import (
	"bytes"
	"context"
	"encoding/binary"
	"encoding/json"
	"fmt"
	"io"
	"math/rand"
	"os"
	"path/filepath"
	"sort"
	"strconv"
	"sync"
	"testing"

	"github.com/rpcpool/yellowstone-faithful/deprecated/compactindex"
	"github.com/rpcpool/yellowstone-faithful/deprecated/compactindex36"
	"github.com/rpcpool/yellowstone-faithful/zzverif/vt"
)

type c04Case struct {
	Fmt      string `json:"fmt"`
	Vsize    int    `json:"vsize"`
	N        string `json:"n"`
	Declared string `json:"declared"`
	Order    string `json:"order"`
	Keys     string `json:"keys"`
	Special  string `json:"special"`
	Meta     string `json:"meta"`
}

// c04meta returns the metadata pairs of a metadata class (nil = none)
func c04meta(class string, rng *rand.Rand) [][2][]byte {
	rnd := func(n int) []byte {
		b := make([]byte, n)
		rng.Read(b)
		return b
	}
	switch class {
	case "typed":
		return [][2][]byte{{[]byte("index_kind"), []byte("cid-to-offset-and-size")}, {[]byte("epoch"), rnd(8)}, {[]byte("rootCid"), rnd(36)}, {[]byte("network"), []byte("mainnet")}}
	case "empty-pair":
		return [][2][]byte{{[]byte{}, []byte{}}, {[]byte("k"), []byte{}}}
	case "max", "max-1":
		var out [][2][]byte
		for i := 0; i < 255; i++ {
			out = append(out, [2][]byte{rnd(255), rnd(255)})
		}
		if class == "max-1" {
			out[254][1] = out[254][1][:254]
		}
		return out
	}
	return nil
}

// eagerEOF is an io.ReaderAt over a byte slice that reports io.EOF together with a complete read that ends exactly at the
// end of the data (the io.ReaderAt contract allows either nil or io.EOF there; os.File and bytes.Reader return nil)
type eagerEOF []byte

func (e eagerEOF) ReadAt(p []byte, off int64) (int, error) {
	if off < 0 || off > int64(len(e)) {
		return 0, io.EOF
	}
	n := copy(p, e[off:])
	if off+int64(n) == int64(len(e)) {
		return n, io.EOF
	}
	return n, nil
}

type c04Bucket struct {
	N      int   `json:"n"`
	Hashes []int `json:"hashes"`
}

type c04Obs struct {
	Case    int         `json:"case"`
	Class   c04Case     `json:"class"`
	Vsize   int         `json:"vsize"`
	Keys    []int       `json:"keys"`  // key ids in insertion order (equal ids = duplicate key)
	Klens   []int       `json:"klens"` // (for large builds only the distinct lengths / a prefix is listed, see Sampled)
	Vlens   []int       `json:"vlens"`
	Outcome string      `json:"outcome"`
	Found   []bool      `json:"found"`
	Det     bool        `json:"deterministic"`
	Layout  []c04Bucket `json:"layout"`
	Total   int         `json:"total"`
	Detail  string      `json:"detail"`
	MetaOK  bool        `json:"metaok"`
	Sampled bool        `json:"sampled"`
	NKeys   int         `json:"nkeys"`
	AvgLoad int         `json:"avgload"`  // inserts per bucket given the declared item count
	MustErr bool        `json:"mustfail"` // the case class is one the builder has to refuse
}

type c04kv struct {
	id   int
	key  []byte
	val  []byte
	want []byte // what a lookup must return when it differs from val (zero-padded short value)
}

func c04build(format string, vsize int, declared uint, kvs []c04kv, path string, meta [][2][]byte) (outcome, detail string) {
	tmp := filepath.Join(filepath.Dir(path), "tmp-"+filepath.Base(path))
	os.MkdirAll(tmp, 0o755)
	defer os.RemoveAll(tmp)
	f, err := os.OpenFile(path, os.O_CREATE|os.O_RDWR|os.O_TRUNC, 0o644)
	if err != nil {
		return "err", err.Error()
	}
	defer f.Close()
	if p := vt.Guard(func() {
		switch format {
		case "sized":
			b, err := NewBuilderSized(tmp, declared, uint(vsize))
			if err != nil {
				outcome, detail = "err", "NewBuilderSized: "+err.Error()
				return
			}
			defer b.Close()
			for _, m := range meta {
				if err := b.Metadata().Add(m[0], m[1]); err != nil {
					outcome, detail = "err", "Metadata.Add: "+err.Error()
					return
				}
			}
			for _, kv := range kvs {
				if err := b.Insert(kv.key, kv.val); err != nil {
					outcome, detail = "err", "Insert: "+err.Error()
					return
				}
			}
			if err := b.Seal(context.Background(), f); err != nil {
				outcome, detail = "err", "Seal: "+err.Error()
				return
			}
		case "legacy8":
			b, err := compactindex.NewBuilder(tmp, declared, 0)
			if err != nil {
				outcome, detail = "err", "NewBuilder: "+err.Error()
				return
			}
			defer b.Close()
			for _, kv := range kvs {
				if err := b.Insert(kv.key, binary.LittleEndian.Uint64(kv.val)); err != nil {
					outcome, detail = "err", "Insert: "+err.Error()
					return
				}
			}
			if err := b.Seal(context.Background(), f); err != nil {
				outcome, detail = "err", "Seal: "+err.Error()
				return
			}
		default:
			b, err := compactindex36.NewBuilder(tmp, declared, 0)
			if err != nil {
				outcome, detail = "err", "NewBuilder: "+err.Error()
				return
			}
			defer b.Close()
			for _, kv := range kvs {
				var v [36]byte
				copy(v[:], kv.val)
				if err := b.Insert(kv.key, v); err != nil {
					outcome, detail = "err", "Insert: "+err.Error()
					return
				}
			}
			if err := b.Seal(context.Background(), f); err != nil {
				outcome, detail = "err", "Seal: "+err.Error()
				return
			}
		}
		outcome = "ok"
	}); p != "" {
		return "panic", p
	}
	return
}

func c04lookup(format string, path string, kvs []c04kv, eager bool, meta [][2][]byte) (found []bool, metaok bool, detail string) {
	var f io.ReaderAt
	if eager {
		raw, err := os.ReadFile(path)
		if err != nil {
			return nil, false, err.Error()
		}
		f = eagerEOF(raw)
	} else {
		fl, err := os.Open(path)
		if err != nil {
			return nil, false, err.Error()
		}
		defer fl.Close()
		f = fl
	}
	metaok = true
	found = make([]bool, len(kvs))
	detail2 := ""
	_ = detail2
	if p := vt.Guard(func() {
		switch format {
		case "sized":
			db, err := Open(f)
			if err != nil {
				detail = "Open: " + err.Error()
				return
			}
			if meta != nil {
				got := db.Header.Metadata
				metaok = got != nil && len(got.KeyVals) == len(meta)
				for i := 0; metaok && i < len(meta); i++ {
					metaok = bytes.Equal(got.KeyVals[i].Key, meta[i][0]) && bytes.Equal(got.KeyVals[i].Value, meta[i][1])
				}
			}
			// the value a Lookup returned must stay that key's value while later lookups run (results are compared
			// after the whole pass), also under concurrent lookups on the same handle
			gots := make([][]byte, len(kvs))
			errs := make([]error, len(kvs))
			for i, kv := range kvs {
				gots[i], errs[i] = db.Lookup(kv.key)
			}
			for i, kv := range kvs {
				exp := kv.val
				if kv.want != nil {
					exp = kv.want
				}
				found[i] = errs[i] == nil && bytes.Equal(gots[i], exp)
			}
			if len(kvs) >= 2 && len(kvs) <= 3000 {
				var wg sync.WaitGroup
				bad := make([]bool, 4)
				for w := 0; w < 4; w++ {
					wg.Add(1)
					go func(w int) {
						defer wg.Done()
						defer func() {
							if recover() != nil {
								bad[w] = true
							}
						}()
						for r := 0; r < 2; r++ {
							for i := w; i < len(kvs); i += 2 {
								got, err := db.Lookup(kvs[i].key)
								exp := kvs[i].val
								if kvs[i].want != nil {
									exp = kvs[i].want
								}
								if err != nil || !bytes.Equal(got, exp) {
									bad[w] = true
								}
							}
						}
					}(w)
				}
				wg.Wait()
				for w := range bad {
					if bad[w] {
						found[w%len(kvs)] = false
						detail2 = "concurrent lookups on one handle disagree with the inserted values"
					}
				}
			}
		case "legacy8":
			db, err := compactindex.Open(f)
			if err != nil {
				detail = "Open: " + err.Error()
				return
			}
			for i, kv := range kvs {
				got, err := db.Lookup(kv.key)
				found[i] = err == nil && got == binary.LittleEndian.Uint64(kv.val)
			}
		default:
			db, err := compactindex36.Open(f)
			if err != nil {
				detail = "Open: " + err.Error()
				return
			}
			for i, kv := range kvs {
				got, err := db.Lookup(kv.key)
				found[i] = err == nil && bytes.Equal(got[:], kv.val)
			}
		}
	}); p != "" {
		detail = p
	}
	return
}

// independent parser of the current format: magic(8) len(4) valueSize(8) numBuckets(4) version(1) metadata..;
// then numBuckets bucket headers of 16 bytes (domain u32, numEntries u32, hashLen u8, pad, fileOffset u48), entries of
// hashLen + valueSize bytes at fileOffset
func c04dumpSized(path string) (layout []c04Bucket, total int, ok bool) {
	b, err := os.ReadFile(path)
	if err != nil || len(b) < 25 || string(b[:8]) != "compiszd" {
		return nil, 0, false
	}
	hlen := int(binary.LittleEndian.Uint32(b[8:12]))
	vs := int(binary.LittleEndian.Uint64(b[12:20]))
	nb := int(binary.LittleEndian.Uint32(b[20:24]))
	hdr := 12 + hlen
	for i := 0; i < nb; i++ {
		o := hdr + 16*i
		if o+16 > len(b) {
			return nil, 0, false
		}
		n := int(binary.LittleEndian.Uint32(b[o+4 : o+8]))
		hl := int(b[o+8])
		var off uint64
		for k := 5; k >= 0; k-- {
			off = off<<8 | uint64(b[o+10+k])
		}
		bk := c04Bucket{N: n, Hashes: []int{}}
		for e := 0; e < n; e++ {
			p := int(off) + e*(hl+vs)
			if p+hl > len(b) {
				return nil, 0, false
			}
			h := 0
			for k := hl - 1; k >= 0; k-- {
				h = h<<8 | int(b[p+k])
			}
			bk.Hashes = append(bk.Hashes, h)
		}
		total += n
		if n <= 150 { // large buckets are counted, their layout is checked by the lookups
			layout = append(layout, bk)
		}
	}
	return layout, total, true
}

func c04n(class string, rng *rand.Rand) int {
	n, _ := strconv.Atoi(class)
	return n
}

func TestVerifC04(t *testing.T) {
	out := vt.Out(t)
	defer out.Close()
	dir := t.TempDir()
	for ci, raw := range vt.Cases(t) {
		var c c04Case
		if err := json.Unmarshal(raw, &c); err != nil {
			t.Fatal(err)
		}
		rng := rand.New(rand.NewSource(vt.Seed()*7919 + int64(ci)))
		n := c04n(c.N, rng)
		vsize := c.Vsize
		switch c.Special {
		case "vsize-0":
			vsize = 0
		case "vsize-253":
			vsize = 253
		case "vsize-255":
			vsize = 255
		case "vsize-256":
			vsize = 256
		}
		klen := func(i int) int {
			switch c.Keys {
			case "8":
				return 8
			case "0-and-1":
				return i % 2 // exactly one empty key and 1-byte keys: keep n small
			case "32":
				return 32
			case "64":
				return 64
			case "65535":
				if i == 0 {
					return 65535
				}
				return 20
			case "lengths":
				// the property's key-length quantifier (0..65535): buffer-size boundaries of the temp-file readers included
				ls := []int{0, 1, 2, 255, 256, 1000, 4095, 4096, 4097, 5000, 8192, 20000, 65534, 65535}
				if i >= len(ls) {
					return 3 + i // further keys: short distinct lengths (one empty key only)
				}
				return ls[i]
			default:
				return 1 + rng.Intn(80)
			}
		}
		if c.Keys == "0-and-1" && n > 200 {
			n = 200
		}
		seen := map[string]bool{}
		var kvs []c04kv
		// adversarial: all keys forced into one bucket of the final index (search with the index's own bucket hash)
		oneBucket := c.Special == "one-bucket"
		hdr := Header{NumBuckets: uint32((n + 9999) / 10000)}
		if c.Declared == "tenfold" {
			hdr.NumBuckets = uint32((10*n + 9999) / 10000)
		}
		for len(kvs) < n {
			i := len(kvs)
			k := make([]byte, klen(i))
			rng.Read(k)
			if c.Keys == "0-and-1" && len(k) == 1 {
				k[0] = byte(i / 2) // distinct 1-byte keys
			}
			if seen[string(k)] {
				if c.Keys == "0-and-1" {
					k = append(k, byte(i), byte(i>>8)) // beyond one empty key: short distinct keys
					if seen[string(k)] {
						continue
					}
				} else {
					continue
				}
			}
			if oneBucket && hdr.NumBuckets > 1 && hdr.BucketHash(k) != 0 {
				continue
			}
			seen[string(k)] = true
			v := make([]byte, c.Vsize)
			rng.Read(v)
			if c.Fmt == "legacy8" {
				v = make([]byte, 8)
				binary.LittleEndian.PutUint64(v, uint64(rng.Int63())|1)
			}
			kvs = append(kvs, c04kv{id: i + 1, key: k, val: v})
		}
		switch c.Special {
		case "duplicate":
			d := kvs[rng.Intn(len(kvs))]
			v := make([]byte, len(d.val))
			rng.Read(v)
			kvs = append(kvs, c04kv{id: d.id, key: d.key, val: v})
		case "key-65536":
			k := make([]byte, 65536+rng.Intn(10))
			rng.Read(k)
			v := make([]byte, c.Vsize)
			rng.Read(v)
			kvs = append(kvs, c04kv{id: len(kvs) + 1, key: k, val: v})
		case "short-values":
			// Insert pads a value shorter than the value size with zeros (the typed index writers rely on it): every
			// third value is cut short (keeping a non-zero last byte), a lookup must return it zero-padded
			for i := range kvs {
				if i%3 == 1 && len(kvs[i].val) > 1 {
					full := kvs[i].val
					n := 1 + rng.Intn(len(full)-1)
					short := append([]byte{}, full[:n]...)
					short[n-1] |= 1
					want := make([]byte, len(full))
					copy(want, short)
					kvs[i].val, kvs[i].want = short, want
				}
			}
		case "long-value":
			kvs[0].val = append(kvs[0].val, 0x42)
		case "vsize-0", "vsize-253", "vsize-255", "vsize-256":
			for i := range kvs {
				kvs[i].val = make([]byte, vsize)
				rng.Read(kvs[i].val)
			}
		}
		switch c.Order {
		case "asc":
			sort.Slice(kvs, func(i, j int) bool { return bytes.Compare(kvs[i].key, kvs[j].key) < 0 })
		case "desc":
			sort.Slice(kvs, func(i, j int) bool { return bytes.Compare(kvs[i].key, kvs[j].key) > 0 })
		default:
			rng.Shuffle(len(kvs), func(i, j int) { kvs[i], kvs[j] = kvs[j], kvs[i] })
		}
		declared := uint(len(kvs))
		switch c.Declared {
		case "one":
			declared = 1
		case "tenth":
			declared = uint(len(kvs)/10) + 1
		case "tenfold":
			declared = uint(10 * len(kvs))
		}
		if c.Special == "declared-0" {
			declared = 0
		}
		o := c04Obs{Case: ci + 1, Class: c, Vsize: vsize, Found: []bool{}, Layout: []c04Bucket{}, NKeys: len(kvs)}
		nb := (int(declared) + 9999) / 10000
		if nb < 1 {
			nb = 1
		}
		o.AvgLoad = (len(kvs) + nb - 1) / nb
		if c.Special == "one-bucket" {
			o.AvgLoad = len(kvs)
		}
		switch c.Special {
		case "duplicate", "key-65536", "long-value", "vsize-0", "vsize-253", "vsize-255", "vsize-256", "declared-0":
			o.MustErr = true
		}
		p1, p2 := filepath.Join(dir, "a.index"), filepath.Join(dir, "b.index")
		meta := c04meta(c.Meta, rng)
		o.MetaOK = true
		o.Outcome, o.Detail = c04build(c.Fmt, vsize, declared, kvs, p1, meta)
		if o.Outcome == "ok" {
			// second build with another insertion order: the file must be byte-identical
			kv2 := append([]c04kv{}, kvs...)
			rng.Shuffle(len(kv2), func(i, j int) { kv2[i], kv2[j] = kv2[j], kv2[i] })
			oc2, _ := c04build(c.Fmt, vsize, declared, kv2, p2, meta)
			b1, _ := os.ReadFile(p1)
			b2, _ := os.ReadFile(p2)
			o.Det = oc2 == "ok" && bytes.Equal(b1, b2)
			var d string
			o.Found, o.MetaOK, d = c04lookup(c.Fmt, p1, kvs, false, meta)
			if d != "" {
				o.Outcome, o.Detail = "panic", d
			} else {
				// second pass through an io.ReaderAt with the other legal end-of-data behaviour
				f2, mok, d2 := c04lookup(c.Fmt, p1, kvs, true, meta)
				if d2 != "" {
					o.Outcome, o.Detail = "panic", "eager-EOF ReaderAt: "+d2
				}
				o.MetaOK = o.MetaOK && mok
				for i := range o.Found {
					if i < len(f2) && !f2[i] {
						if o.Found[i] && o.Detail == "" {
							o.Detail = "lookup wrong through an io.ReaderAt that returns io.EOF with a complete read at the end of the data"
						}
						o.Found[i] = false
					}
				}
			}
			if c.Fmt == "sized" {
				if lay, total, ok := c04dumpSized(p1); ok {
					o.Layout, o.Total = lay, total
				} else {
					o.Total = -1
				}
			} else {
				o.Total = len(kvs)
			}
		}
		// the judge needs per-insert data; for large builds it gets the aggregate (all found?) and a sample
		if len(kvs) > 400 {
			o.Sampled = true
			all := true
			for _, f := range o.Found {
				all = all && f
			}
			if o.Outcome == "ok" {
				o.Found = []bool{all}
			}
			o.Keys, o.Klens, o.Vlens = []int{1}, []int{len(kvs[0].key)}, []int{len(kvs[0].val)}
			if o.Outcome == "ok" && o.Total == len(kvs) {
				o.Total = 1
			}
		} else {
			for _, kv := range kvs {
				o.Keys = append(o.Keys, kv.id)
				o.Klens = append(o.Klens, len(kv.key))
				o.Vlens = append(o.Vlens, len(kv.val))
			}
		}
		if o.Found == nil {
			o.Found = []bool{}
		}
		if o.Keys == nil {
			o.Keys, o.Klens, o.Vlens = []int{}, []int{}, []int{}
		}
		if o.Layout == nil {
			o.Layout = []c04Bucket{}
		}
		if len(o.Detail) > 200 {
			o.Detail = o.Detail[:200]
		}
		out.Emit(o)
	}
	_ = fmt.Sprint
}
