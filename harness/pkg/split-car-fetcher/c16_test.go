package splitcarfetcher

// C16 replayer (reader side): every vector of <= MaxPieces pieces of 0..MaxSize bytes x every (offset, length)
// on the real MultiReaderAt (the space enumerated exhaustively by spec/MultiReaderAt.tla), seeded large
// vectors, and the real SplitCarReader over synthetic pieces (header + content + optional padding) opened
// through a local-file reader and through a remote-like reader type.

import (
	"bytes"
	"encoding/base64"
	"encoding/binary"
	"fmt"
	"io"
	"math/rand"
	"os"
	"path/filepath"
	"strconv"
	"sync"
	"testing"

	"github.com/anjor/carlet"
	"github.com/rpcpool/yellowstone-faithful/zzverif/vt"
)

type c16Read struct {
	Off   int64  `json:"off"`
	Ln    int    `json:"ln"`
	N     int    `json:"n"`
	Err   string `json:"err"`
	Bytes []int  `json:"bytes"`
}

type c16Obs struct {
	Kind   string    `json:"kind"`
	Via    string    `json:"via"`
	Sizes  []int     `json:"sizes"`
	Concat []int     `json:"concat"`
	Reads  []c16Read `json:"reads"`
	Err    string    `json:"err"`
	Span   bool      `json:"span"` // some read spans >= 2 pieces or touches a zero-length piece
}

func c16errName(err error) string {
	switch {
	case err == nil:
		return "nil"
	case err == io.EOF:
		return "eof"
	default:
		return "other"
	}
}

func c16ints(b []byte) []int {
	o := make([]int, len(b))
	for i, x := range b {
		o[i] = int(x)
	}
	return o
}

func c16read(r io.ReaderAt, off int64, ln int) c16Read {
	x := c16Read{Off: off, Ln: ln, Bytes: []int{}}
	p := make([]byte, ln)
	for i := range p {
		p[i] = 0xEE
	}
	if pm := vt.Guard(func() {
		n, err := r.ReadAt(p, off)
		x.N, x.Err = n, c16errName(err)
		if n >= 0 && n <= ln {
			x.Bytes = c16ints(p[:n])
		}
	}); pm != "" {
		x.Err = "other"
	}
	return x
}

func TestVerifC16Vectors(t *testing.T) {
	out := vt.Out(t)
	defer out.Close()
	maxPieces, _ := strconv.Atoi(os.Getenv("VERIF_C16_PIECES"))
	maxSize, _ := strconv.Atoi(os.Getenv("VERIF_C16_SIZE"))
	if maxPieces == 0 {
		maxPieces, maxSize = 3, 3
	}
	nvec := 0
	var rec func(sizes []int)
	check := func(sizes []int, via string) {
		var readers []io.ReaderAt
		var szs []int64
		var all []byte
		b := byte(1)
		for _, s := range sizes {
			seg := make([]byte, s)
			for i := range seg {
				seg[i] = b
				b++
			}
			all = append(all, seg...)
			if via == "section" { // as NewSplitCarReader does: a SectionReader window into a larger file
				file := append(append([]byte{0xAA, 0xBB}, seg...), 0xCC, 0xDD, 0xEE)
				readers = append(readers, io.NewSectionReader(bytes.NewReader(file), 2, int64(s)))
			} else {
				readers = append(readers, bytes.NewReader(seg))
			}
			szs = append(szs, int64(s))
		}
		m := NewMultiReaderAt(readers, szs)
		o := c16Obs{Kind: "reads", Via: "MultiReaderAt/" + via, Sizes: sizes, Concat: c16ints(all)}
		for off := 0; off <= len(all)+2; off++ {
			for ln := 0; ln <= len(all)+2; ln++ {
				o.Reads = append(o.Reads, c16read(m, int64(off), ln))
			}
		}
		o.Span = len(sizes) >= 2
		out.Emit(o)
		nvec++
	}
	rec = func(sizes []int) {
		if len(sizes) > 0 {
			check(sizes, "bytes")
			if len(sizes) <= 3 {
				check(sizes, "section")
			}
		}
		if len(sizes) == maxPieces {
			return
		}
		for s := 0; s <= maxSize; s++ {
			rec(append(append([]int{}, sizes...), s))
		}
	}
	rec(nil)
	// seeded large vectors
	rng := vt.Rand()
	nbig := 20
	if !vt.Quick() {
		nbig = 300
	}
	for k := 0; k < nbig; k++ {
		np := 1 + rng.Intn(12)
		var readers []io.ReaderAt
		var szs []int64
		var all []byte
		sizes := []int{}
		for i := 0; i < np; i++ {
			s := rng.Intn(90)
			if rng.Intn(5) == 0 {
				s = 0
			}
			seg := make([]byte, s)
			rng.Read(seg)
			all = append(all, seg...)
			readers = append(readers, bytes.NewReader(seg))
			szs = append(szs, int64(s))
			sizes = append(sizes, s)
		}
		m := NewMultiReaderAt(readers, szs)
		o := c16Obs{Kind: "reads", Via: "MultiReaderAt/large", Sizes: sizes, Concat: c16ints(all), Span: true}
		for q := 0; q < 60; q++ {
			off := rng.Intn(len(all) + 3)
			ln := rng.Intn(len(all) + 3)
			o.Reads = append(o.Reads, c16read(m, int64(off), ln))
		}
		o.Reads = append(o.Reads, c16concurrent(m, all, sizes, int64(k))...)
		out.Emit(o)
	}
	t.Logf("vectors=%d large=%d", nvec, nbig)
}

// c16concurrent: readers on several goroutines, each staying inside its own piece-sized window (so that consecutive reads
// of different goroutines hit different pieces). A read is judged like any other; only reads that differ from what the
// concatenation holds are recorded (at most 8), plus one witness read per goroutine.
func c16concurrent(r io.ReaderAt, concat []byte, sizes []int, seed int64) []c16Read {
	var out []c16Read
	if len(concat) < 4 {
		return out
	}
	var mu sync.Mutex
	var wg sync.WaitGroup
	starts := []int{0}
	for _, s := range sizes {
		starts = append(starts, starts[len(starts)-1]+s)
	}
	for g := 0; g < 4; g++ {
		wg.Add(1)
		go func(g int) {
			defer wg.Done()
			rng := rand.New(rand.NewSource(seed + int64(g)))
			pi := g % len(sizes)
			for k := 0; k < 1500; k++ {
				if k%200 == 0 {
					pi = rng.Intn(len(sizes))
				}
				lo, hi := starts[pi], starts[pi+1]
				if hi-lo < 1 {
					pi = (pi + 1) % len(sizes)
					continue
				}
				off := lo + rng.Intn(hi-lo)
				ln := 1 + rng.Intn(hi-off)
				rd := c16read(r, int64(off), ln)
				good := rd.N == ln && (rd.Err == "nil" || (rd.Err == "eof" && off+ln == len(concat))) && bytes.Equal(concat[off:off+ln], func() []byte {
					b := make([]byte, len(rd.Bytes))
					for i, x := range rd.Bytes {
						b[i] = byte(x)
					}
					return b
				}())
				mu.Lock()
				if (!good && len(out) < 8) || k == 0 {
					out = append(out, rd)
				}
				mu.Unlock()
			}
		}(g)
	}
	wg.Wait()
	return out
}

type c16Remote struct { // a reader type that is neither FileSplitCarReader nor the HTTP reader (e.g. a custom remote)
	*bytes.Reader
	size int64
}

func (r *c16Remote) Close() error { return nil }
func (r *c16Remote) Size() int64  { return r.size }

func TestVerifC16Pieces(t *testing.T) {
	out := vt.Out(t)
	defer out.Close()
	rng := vt.Rand()
	dir := t.TempDir()
	nset := 40
	if !vt.Quick() {
		nset = 400
	}
	for k := 0; k < nset; k++ {
		hdr := make([]byte, 1+rng.Intn(60))
		rng.Read(hdr)
		prefix := binary.AppendUvarint(nil, uint64(len(hdr)))
		concat := append(append([]byte{}, prefix...), hdr...)
		meta := &carlet.CarPiecesAndMetadata{OriginalCarHeader: base64.StdEncoding.EncodeToString(hdr), OriginalCarHeaderSize: uint64(len(prefix) + len(hdr))}
		np := 1 + rng.Intn(5)
		padded := rng.Intn(2) == 0
		files := map[string][]byte{}
		sizes := []int{len(concat)}
		for i := 0; i < np; i++ {
			ph := make([]byte, 1+rng.Intn(40))
			rng.Read(ph)
			content := make([]byte, rng.Intn(70))
			if rng.Intn(6) == 0 {
				content = content[:0]
			}
			rng.Read(content)
			file := append(append([]byte{}, ph...), content...)
			if padded {
				pad := make([]byte, rng.Intn(30))
				rng.Read(pad) // trailing bytes after the content region (subset node, upload padding)
				file = append(file, pad...)
			}
			name := filepath.Join(dir, fmt.Sprintf("set%d-piece%d.car", k, i))
			files[name] = file
			meta.CarPieces = append(meta.CarPieces, carlet.CarFile{Name: name, HeaderSize: uint64(len(ph)), ContentSize: uint64(len(content))})
			concat = append(concat, content...)
			sizes = append(sizes, len(content))
		}
		via := "SplitCarReader/remote-like"
		creator := func(cf carlet.CarFile) (ReaderAtCloserSize, error) {
			return &c16Remote{bytes.NewReader(files[cf.Name]), int64(len(files[cf.Name]))}, nil
		}
		if !padded && k%2 == 0 {
			via = "SplitCarReader/local-file"
			for n, b := range files {
				if err := os.WriteFile(n, b, 0o644); err != nil {
					t.Fatal(err)
				}
			}
			creator = func(cf carlet.CarFile) (ReaderAtCloserSize, error) { return NewFileSplitCarReader(cf.Name) }
		}
		o := c16Obs{Kind: "reads", Via: via, Sizes: sizes, Concat: c16ints(concat), Span: true}
		var scr *SplitCarReader
		var err error
		if pm := vt.Guard(func() { scr, err = NewSplitCarReader(meta, creator) }); pm != "" {
			o.Err = pm
		} else if err != nil {
			o.Err = "NewSplitCarReader: " + err.Error()
		} else {
			total := len(concat)
			// sequential scan past the end, then seeded windows incl. reads past the true end
			o.Reads = append(o.Reads, c16read(scr, 0, total+17))
			o.Reads = append(o.Reads, c16read(scr, int64(total), 5), c16read(scr, int64(total+3), 4), c16read(scr, int64(total-1), 9))
			for q := 0; q < 50; q++ {
				off := rng.Intn(total + 4)
				ln := rng.Intn(total + 4)
				o.Reads = append(o.Reads, c16read(scr, int64(off), ln))
			}
			scr.Close()
		}
		if o.Reads == nil {
			o.Reads = []c16Read{}
		}
		out.Emit(o)
	}
}
