package splitcarfetcher

// C17: the io.ReaderAt wrapper over the range cache (HTTPSingleFileRemoteReaderAt.ReadAt), driven with a
// byte-function remote instead of HTTP: offset >= size => EOF, a read reaching past the end is refused.

import (
	"errors"
	"io"
	"net/http"
	"testing"

	rangecache "github.com/rpcpool/yellowstone-faithful/range-cache"
	"github.com/rpcpool/yellowstone-faithful/zzverif/vt"
)

func c17ByteAt(i int64) byte { return byte((((i % 251) * 7) + ((i / 251) % 13)) % 256) }

type c17Call struct {
	Op    string `json:"op"`
	S     int64  `json:"s"`
	L     int64  `json:"l"`
	Up    bool   `json:"up"`
	Res   string `json:"res"`
	N     int    `json:"n"`
	Bytes []int  `json:"bytes"`
	Err   string `json:"err"`
	Th    int    `json:"th"`
}

type c17Obs struct {
	Kind    string    `json:"kind"`
	Case    int       `json:"case"`
	Size    int64     `json:"size"`
	Calls   []c17Call `json:"calls"`
	Fatal   string    `json:"fatal"`
	Fetches int       `json:"fetches"`
	Nontriv bool      `json:"nontrivial"`
}

func TestVerifC17ReadAt(t *testing.T) {
	out := vt.Out(t)
	defer out.Close()
	rng := vt.Rand()
	for k := 0; k < 40; k++ {
		size := int64(1 + rng.Intn(60))
		down := false
		fetch := func(p []byte, off int64) (int, error) {
			if down {
				return 0, errors.New("remote down")
			}
			for i := range p {
				p[i] = c17ByteAt(off + int64(i))
			}
			return len(p), nil
		}
		rr := &HTTPSingleFileRemoteReaderAt{url: "x", contentLength: size, client: http.DefaultClient, ca: rangecache.NewRangeCache(size, "x", fetch)}
		o := c17Obs{Kind: "readat", Case: k + 1, Size: size, Nontriv: true}
		for step := 0; step < 60; step++ {
			if rng.Intn(12) == 0 {
				down = !down
			}
			off := int64(rng.Intn(int(size) + 4))
			l := int64(rng.Intn(int(size) + 4))
			if rng.Intn(4) == 0 {
				off = size - int64(rng.Intn(int(min(size, 8))+1))
			}
			c := c17Call{Op: "readat", S: off, L: l, Up: !down, Bytes: []int{}}
			if p := vt.Guard(func() {
				buf := make([]byte, l)
				for i := range buf {
					buf[i] = 0xEE
				}
				n, err := rr.ReadAt(buf, off)
				c.N = n
				for _, b := range buf[:n] {
					c.Bytes = append(c.Bytes, int(b))
				}
				switch {
				case err == nil:
					c.Res = "ok"
				case errors.Is(err, io.EOF):
					c.Res = "eof"
				default:
					c.Res, c.Err = "err", err.Error()
				}
			}); p != "" {
				c.Res, c.Err = "panic", p
			}
			o.Calls = append(o.Calls, c)
		}
		out.Emit(o)
	}
}
