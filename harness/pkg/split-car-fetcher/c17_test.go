package splitcarfetcher

// C17: the io.ReaderAt wrapper over the range cache (HTTPSingleFileRemoteReaderAt.ReadAt), driven with a
// byte-function remote instead of HTTP: offset >= size => EOF, a read reaching past the end is refused.

import (
	"bytes"
	"context"
	"errors"
	"fmt"
	"io"
	"net/http"
	"net/http/httptest"
	"strconv"
	"testing"
	"time"

	rangecache "github.com/rpcpool/yellowstone-faithful/range-cache"
	"github.com/rpcpool/yellowstone-faithful/zzverif/vt"
)

func c17ByteAt(i int64) byte { return byte((((i % 251) * 7) + ((i / 251) % 13)) % 256) }

type c17Call struct {
	Op    string `json:"op"`
	S     int64  `json:"s"`
	L     int64  `json:"l"`
	Up    bool   `json:"up"`
	Res   string `json:"res"`
	N     int    `json:"n"`
	Bytes []int  `json:"bytes"`
	Err   string `json:"err"`
	Th    int    `json:"th"`
}

type c17Obs struct {
	Kind    string    `json:"kind"`
	Case    int       `json:"case"`
	Size    int64     `json:"size"`
	Calls   []c17Call `json:"calls"`
	Fatal   string    `json:"fatal"`
	Fetches int       `json:"fetches"`
	Nontriv bool      `json:"nontrivial"`
}

func TestVerifC17ReadAt(t *testing.T) {
	out := vt.Out(t)
	defer out.Close()
	rng := vt.Rand()
	for k := 0; k < 40; k++ {
		size := int64(1 + rng.Intn(60))
		down := false
		fetch := func(p []byte, off int64) (int, error) {
			if down {
				return 0, errors.New("remote down")
			}
			for i := range p {
				p[i] = c17ByteAt(off + int64(i))
			}
			return len(p), nil
		}
		rr := &HTTPSingleFileRemoteReaderAt{url: "x", contentLength: size, client: http.DefaultClient, ca: rangecache.NewRangeCache(size, "x", fetch)}
		o := c17Obs{Kind: "readat", Case: k + 1, Size: size, Nontriv: true}
		for step := 0; step < 60; step++ {
			if rng.Intn(12) == 0 {
				down = !down
			}
			off := int64(rng.Intn(int(size) + 4))
			l := int64(rng.Intn(int(size) + 4))
			if rng.Intn(4) == 0 {
				off = size - int64(rng.Intn(int(min(size, 8))+1))
			}
			c := c17Call{Op: "readat", S: off, L: l, Up: !down, Bytes: []int{}}
			if p := vt.Guard(func() {
				buf := make([]byte, l)
				for i := range buf {
					buf[i] = 0xEE
				}
				n, err := rr.ReadAt(buf, off)
				c.N = n
				for _, b := range buf[:n] {
					c.Bytes = append(c.Bytes, int(b))
				}
				switch {
				case err == nil:
					c.Res = "ok"
				case errors.Is(err, io.EOF):
					c.Res = "eof"
				default:
					c.Res, c.Err = "err", err.Error()
				}
			}); p != "" {
				c.Res, c.Err = "panic", p
			}
			o.Calls = append(o.Calls, c)
		}
		out.Emit(o)
	}
}

// TestVerifC17HTTP: the same wrapper over a real HTTP remote (loopback httptest server) whose behaviour is switched
// between calls: healthy range server, 503 with an error page, a body shorter than the requested range, an empty 200,
// a server that ignores Range and sends the whole file, a dropped connection.  `up` = the server was healthy during the call.
func TestVerifC17HTTP(t *testing.T) {
	out := vt.Out(t)
	defer out.Close()
	rng := vt.Rand()
	size := int64(2000 + rng.Intn(300))
	file := make([]byte, size)
	for i := range file {
		file[i] = c17ByteAt(int64(i))
	}
	fileB := make([]byte, size)
	for i := range fileB {
		fileB[i] = file[i] ^ 0x5A
	}
	mode := "ok"
	srv := httptest.NewServer(http.HandlerFunc(func(w http.ResponseWriter, r *http.Request) {
		if r.Method == "HEAD" {
			w.Header().Set("Content-Length", strconv.FormatInt(size, 10))
			w.Header().Set("Accept-Ranges", "bytes")
			return
		}
		if r.URL.Query().Get("id") == "B" {
			// a second remote file under the same host and path, told apart by the query string only (piece gateways
			// address pieces like this): same size, every byte differs
			http.ServeContent(w, r, "f", time.Time{}, bytes.NewReader(fileB))
			return
		}
		switch mode {
		case "ok":
			http.ServeContent(w, r, "f", time.Time{}, bytes.NewReader(file))
		case "503":
			w.WriteHeader(503)
			w.Write(bytes.Repeat([]byte("service unavailable "), 400))
		case "short":
			var a, b int64
			fmt.Sscanf(r.Header.Get("Range"), "bytes=%d-%d", &a, &b)
			if b >= size {
				b = size - 1
			}
			n := (b - a + 1) / 2
			w.Header().Set("Content-Range", fmt.Sprintf("bytes %d-%d/%d", a, a+n-1, size))
			w.Header().Set("Content-Length", strconv.FormatInt(n, 10))
			w.WriteHeader(206)
			w.Write(file[a : a+n])
		case "empty":
			w.WriteHeader(200)
		case "whole":
			w.Header().Set("Content-Length", strconv.FormatInt(size, 10))
			w.WriteHeader(200)
			w.Write(file)
		case "wholecut":
			// a server without Range support (200, whole file) whose transfer is cut after some bytes
			k := int(size) / 3
			if hj, ok := w.(http.Hijacker); ok {
				c, buf, _ := hj.Hijack()
				fmt.Fprintf(buf, "HTTP/1.1 200 OK\r\nContent-Length: %d\r\nContent-Type: application/octet-stream\r\n\r\n", size)
				buf.Write(file[:k])
				buf.Flush()
				c.Close()
			}
		case "drop":
			if hj, ok := w.(http.Hijacker); ok {
				c, _, _ := hj.Hijack()
				c.Close()
			}
		}
	}))
	defer srv.Close()
	for k, bad := range []string{"503", "short", "empty", "whole", "wholecut", "drop"} {
		mode = "ok"
		rr, _, err := NewRemoteHTTPFileAsIoReaderAt(context.Background(), srv.URL+"/f")
		o := c17Obs{Kind: "readat", Case: 100 + k, Size: size, Nontriv: true}
		if err != nil {
			o.Fatal = "open: " + err.Error()
			out.Emit(o)
			continue
		}
		steps := 36
		if bad == "drop" {
			steps = 14
		}
		for step := 0; step < steps; step++ {
			switch {
			case step%6 == 2 || step%6 == 3:
				mode = bad
			default:
				mode = "ok"
			}
			if bad == "drop" && step%6 == 3 {
				mode = "ok"
			}
			l := int64(1 + rng.Intn(300))
			off := int64(rng.Intn(int(size - l)))
			if step%6 == 2 {
				off = 0 // (a full reply is acceptable for a read from the start: the first faulty read starts there)
				if bad == "wholecut" {
					l = size/3 + 50 + int64(rng.Intn(100)) // longer than what arrives before the cut
				}
			}
			if step%6 >= 4 {
				// after the remote recovered: reads nested in / overlapping the range that failed just before
				prev := o.Calls[len(o.Calls)-1]
				off, l = prev.S+int64(rng.Intn(3)), prev.L-int64(rng.Intn(3))-2
				if l < 1 {
					l = 1
				}
				if off+l > size {
					off = size - l
				}
			}
			c := c17Call{Op: "readat", S: off, L: l, Up: mode == "ok", Bytes: []int{}}
			if p := vt.Guard(func() {
				buf := make([]byte, l)
				for i := range buf {
					buf[i] = 0xEE
				}
				n, err := rr.ReadAt(buf, off)
				c.N = n
				for _, b := range buf[:n] {
					c.Bytes = append(c.Bytes, int(b))
				}
				switch {
				case err == nil:
					c.Res = "ok"
				case err == io.EOF: // (a transport error that merely wraps EOF is an error, not the end of the file)
					c.Res = "eof"
				default:
					c.Res, c.Err = "err", err.Error()
				}
			}); p != "" {
				c.Res, c.Err = "panic", p
			}
			c.Err = bad + ": " + c.Err
			o.Calls = append(o.Calls, c)
		}
		rr.Close()
		out.Emit(o)
	}
	// a remote file larger than 4 GiB (epoch CARs are hundreds of GiB): reads around the 4 GiB mark. The judge's integers are
	// 32 bits wide, so the observation is recorded relative to `base`: the virtual file holds c17ByteAt(off - base) at
	// off >= base, and offsets / size are reported minus base.
	{
		const base = int64(1)<<32 - 1500
		const vsize = int64(1)<<32 + 3000
		huge := httptest.NewServer(http.HandlerFunc(func(w http.ResponseWriter, r *http.Request) {
			if r.Method == "HEAD" {
				w.Header().Set("Content-Length", strconv.FormatInt(vsize, 10))
				w.Header().Set("Accept-Ranges", "bytes")
				return
			}
			var a, b int64
			if n, _ := fmt.Sscanf(r.Header.Get("Range"), "bytes=%d-%d", &a, &b); n != 2 || a < 0 || b < a || a >= vsize {
				w.WriteHeader(416)
				return
			}
			if b >= vsize {
				b = vsize - 1
			}
			if b-a > 1<<20 {
				b = a + 1<<20 // (never asked for by this phase)
			}
			buf := make([]byte, b-a+1)
			for i := range buf {
				if off := a + int64(i); off >= base {
					buf[i] = c17ByteAt(off - base)
				}
			}
			w.Header().Set("Content-Range", fmt.Sprintf("bytes %d-%d/%d", a, b, vsize))
			w.Header().Set("Content-Length", strconv.Itoa(len(buf)))
			w.WriteHeader(206)
			w.Write(buf)
		}))
		rr, _, err := NewRemoteHTTPFileAsIoReaderAt(context.Background(), huge.URL+"/huge")
		o := c17Obs{Kind: "readat", Case: 300, Size: vsize - base, Nontriv: true}
		if err != nil {
			o.Fatal = "open: " + err.Error()
		} else {
			reads := [][2]int64{{base, 40}, {1<<32 - 10, 20}, {1 << 32, 64}, {1<<32 + 5, 100}, {1<<32 + 1000, 700}, {1<<32 - 300, 200}, {1<<32 + 5, 100}, {vsize - 50, 50}, {vsize - 20, 40}, {base + 7, 3}}
			for k := 0; k < 12; k++ {
				reads = append(reads, [2]int64{base + int64(rng.Intn(4400)), int64(1 + rng.Intn(90))})
			}
			for _, rd := range reads {
				off, l := rd[0], rd[1]
				c := c17Call{Op: "readat", S: off - base, L: l, Up: true, Bytes: []int{}}
				if p := vt.Guard(func() {
					buf := make([]byte, l)
					n, err := rr.ReadAt(buf, off)
					c.N = n
					for _, b := range buf[:n] {
						c.Bytes = append(c.Bytes, int(b))
					}
					switch {
					case err == nil:
						c.Res = "ok"
					case err == io.EOF:
						c.Res = "eof"
					default:
						c.Res, c.Err = "err", err.Error()
					}
				}); p != "" {
					c.Res, c.Err = "panic", p
				}
				c.Err = fmt.Sprintf("6 GiB-class remote, real offset %d: %s", off, c.Err)
				o.Calls = append(o.Calls, c)
			}
			rr.Close()
		}
		huge.Close()
		out.Emit(o)
	}
	// two remote files open at the same time whose URLs differ in the query string only: each handle must return its own
	// file's bytes (file B's bytes are recorded with the 0x5A mask removed, so both handles are judged by the same rule)
	mode = "ok"
	ra, _, errA := NewRemoteHTTPFileAsIoReaderAt(context.Background(), srv.URL+"/f?id=A")
	rb, _, errB := NewRemoteHTTPFileAsIoReaderAt(context.Background(), srv.URL+"/f?id=B")
	oa := c17Obs{Kind: "readat", Case: 200, Size: size, Nontriv: true}
	ob := c17Obs{Kind: "readat", Case: 201, Size: size, Nontriv: true}
	if errA != nil || errB != nil {
		oa.Fatal = fmt.Sprintf("open: %v %v", errA, errB)
		out.Emit(oa)
		return
	}
	for step := 0; step < 24; step++ {
		l := int64(1 + rng.Intn(300))
		off := int64(rng.Intn(int(size - l)))
		if step%4 == 3 {
			off = size - l // reads ending at the end of the file
		}
		for who, rr := range []io.ReaderAt{ra, rb} {
			if step%2 == 1 {
				rr = []io.ReaderAt{rb, ra}[who]
				who = 1 - who
			}
			c := c17Call{Op: "readat", S: off, L: l, Up: true, Bytes: []int{}}
			if p := vt.Guard(func() {
				buf := make([]byte, l)
				n, err := rr.ReadAt(buf, off)
				c.N = n
				for _, b := range buf[:n] {
					if who == 1 {
						b ^= 0x5A
					}
					c.Bytes = append(c.Bytes, int(b))
				}
				switch {
				case err == nil:
					c.Res = "ok"
				case err == io.EOF:
					c.Res = "eof"
				default:
					c.Res, c.Err = "err", err.Error()
				}
			}); p != "" {
				c.Res, c.Err = "panic", p
			}
			c.Err = []string{"file A", "file B (same path, other query)"}[who] + ": " + c.Err
			if who == 0 {
				oa.Calls = append(oa.Calls, c)
			} else {
				ob.Calls = append(ob.Calls, c)
			}
		}
	}
	ra.Close()
	rb.Close()
	out.Emit(oa)
	out.Emit(ob)
}
