package rangecache

// C17 replayer (R3): TLC-generated histories of spec/RangeCache.tla executed on the real RangeCache
// (fetcher = closure over the remote file, can be told to fail), seeded long histories on a 1 MiB file,
// and concurrent readers (run in a child process under the race detector).

import (
	"context"
	"encoding/json"
	"errors"
	"fmt"
	"io"
	"math/rand"
	"os"
	"os/exec"
	"strings"
	"sync"
	"sync/atomic"
	"testing"
	"time"

	"github.com/rpcpool/yellowstone-faithful/zzverif/vt"
)

func c17ByteAt(i int64) byte { return byte((((i % 251) * 7) + ((i / 251) % 13)) % 256) }

type c17Op struct {
	Op string    `json:"op"`
	S  int64     `json:"s"`
	L  int64     `json:"l"`
	D  [][]int64 `json:"d"` // expire: ranges to expire
}

type c17Case struct {
	Size int64   `json:"size"`
	Ops  []c17Op `json:"ops"`
}

type c17Call struct {
	Op    string `json:"op"`
	S     int64  `json:"s"`
	L     int64  `json:"l"`
	Up    bool   `json:"up"`
	Res   string `json:"res"`
	N     int    `json:"n"`
	Bytes []int  `json:"bytes"`
	Err   string `json:"err"`
	Th    int    `json:"th"`
}

type c17Obs struct {
	Kind    string    `json:"kind"`
	Case    int       `json:"case"`
	Size    int64     `json:"size"`
	Calls   []c17Call `json:"calls"`
	Fatal   string    `json:"fatal"`
	Fetches int       `json:"fetches"`
	Nontriv bool      `json:"nontrivial"`
}

type c17Remote struct {
	size    int64
	down    atomic.Bool
	fetches atomic.Int64
}

func (r *c17Remote) fetch(p []byte, off int64) (int, error) {
	k := r.fetches.Add(1)
	if r.down.Load() {
		// a failed fetch comes in several flavours: nothing read and a transport error, nothing read and io.EOF (the remote
		// closed the connection), part of the range read and io.EOF / io.ErrUnexpectedEOF, a wrapped error
		half := len(p) / 2
		switch k % 5 {
		case 1:
			return 0, io.EOF
		case 2:
			for i := 0; i < half; i++ {
				p[i] = c17ByteAt(off + int64(i))
			}
			return half, io.EOF
		case 3:
			for i := 0; i < half; i++ {
				p[i] = c17ByteAt(off + int64(i))
			}
			return half, io.ErrUnexpectedEOF
		case 4:
			return 0, fmt.Errorf("fetch: %w", io.EOF)
		}
		return 0, errors.New("remote down")
	}
	for i := range p {
		p[i] = c17ByteAt(off + int64(i))
	}
	return len(p), nil
}

func c17ints(b []byte) []int {
	o := make([]int, len(b))
	for i, x := range b {
		o[i] = int(x)
	}
	return o
}

func c17get(rc *RangeCache, rem *c17Remote, s, l int64, th int) c17Call {
	c, _ := c17getHold(rc, rem, s, l, th)
	return c
}

// c17held: a result a caller keeps while it goes on reading (the bytes handed out must stay what they were)
type c17held struct {
	idx int
	b   []byte
}

// c17recheck rewrites the recorded bytes of every kept result whose content changed after it was returned, so that the
// judge sees what the caller ends up holding
func c17recheck(calls []c17Call, held []c17held) {
	for _, h := range held {
		now := c17ints(h.b)
		same := len(now) == len(calls[h.idx].Bytes)
		for i := 0; same && i < len(now); i++ {
			same = now[i] == calls[h.idx].Bytes[i]
		}
		if !same {
			calls[h.idx].Bytes = now
			calls[h.idx].Err = "the returned bytes changed after a later call (result kept by the caller)"
		}
	}
}

func c17getHold(rc *RangeCache, rem *c17Remote, s, l int64, th int) (c17Call, []byte) {
	c := c17Call{Op: "get", S: s, L: l, Up: !rem.down.Load(), Bytes: []int{}, Th: th}
	var got []byte
	if p := vt.Guard(func() {
		var err error
		got, err = rc.GetRange(context.Background(), s, l)
		if err != nil {
			c.Res, c.Err = "err", err.Error()
			return
		}
		c.Res, c.N, c.Bytes = "ok", len(got), c17ints(got)
	}); p != "" {
		c.Res, c.Err = "panic", p
	}
	return c, got
}

// expire exactly the given ranges: make them old, everything else fresh, then run the real GC pass
func c17expire(rc *RangeCache, d [][]int64) {
	old := map[Range]bool{}
	for _, r := range d {
		old[Range{r[0], r[1]}] = true
	}
	rc.mu.Lock()
	for r, e := range rc.cache {
		if old[r] {
			e.LastRead = time.Now().Add(-2 * time.Hour)
		} else {
			e.LastRead = time.Now()
		}
		rc.cache[r] = e
	}
	rc.mu.Unlock()
	rc.DeleteOldEntries(context.Background(), time.Hour)
}

func c17runCase(c *c17Case) c17Obs {
	rem := &c17Remote{size: c.Size}
	rc := NewRangeCache(c.Size, "x", rem.fetch)
	o := c17Obs{Kind: "history", Size: c.Size}
	sawFail, sawSuper := false, false
	var held []c17held
	for _, op := range c.Ops {
		switch op.Op {
		case "get":
			before := rem.fetches.Load()
			call, kept := c17getHold(rc, rem, op.S, op.L, 0)
			if call.Res == "ok" {
				held = append(held, c17held{len(o.Calls), kept})
			}
			if call.Res == "err" && !call.Up {
				sawFail = true
			}
			if call.Res == "ok" && rem.fetches.Load() == before && len(rc.cache) > 0 {
				sawSuper = true
			}
			o.Calls = append(o.Calls, call)
		case "set":
			v := make([]byte, op.L)
			for i := range v {
				v[i] = c17ByteAt(op.S + int64(i))
			}
			err := rc.SetRange(context.Background(), op.S, op.L, v)
			e := ""
			if err != nil {
				e = err.Error()
			}
			o.Calls = append(o.Calls, c17Call{Op: "set", S: op.S, L: op.L, Up: !rem.down.Load(), Err: e, Bytes: []int{}})
		case "expire":
			c17expire(rc, op.D)
			o.Calls = append(o.Calls, c17Call{Op: "expire", Up: !rem.down.Load(), Bytes: []int{}})
		case "toggle":
			rem.down.Store(!rem.down.Load())
			o.Calls = append(o.Calls, c17Call{Op: "toggle", Up: !rem.down.Load(), Bytes: []int{}})
		}
	}
	c17recheck(o.Calls, held)
	o.Fetches = int(rem.fetches.Load())
	o.Nontriv = sawFail || sawSuper
	return o
}

func TestVerifC17Histories(t *testing.T) {
	cases := vt.Cases(t)
	out := vt.Out(t)
	defer out.Close()
	for i, raw := range cases {
		var c c17Case
		if err := json.Unmarshal(raw, &c); err != nil {
			t.Fatal(err)
		}
		o := c17runCase(&c)
		o.Case = i + 1
		out.Emit(o)
	}
	// seeded long histories on a 1 MiB file with short reads (overlapping, nested, adjacent windows)
	rng := vt.Rand()
	nlong := 20
	if !vt.Quick() {
		nlong = 300
	}
	for k := 0; k < nlong; k++ {
		size := int64(1 << 20)
		if k%4 == 1 {
			size = int64(50 + rng.Intn(400))
		}
		c := c17Case{Size: size}
		base := rng.Int63n(size)
		for step := 0; step < 120; step++ {
			switch x := rng.Intn(20); {
			case x == 0:
				c.Ops = append(c.Ops, c17Op{Op: "toggle"})
			case x == 1:
				c.Ops = append(c.Ops, c17Op{Op: "expire", D: nil}) // nothing old: GC pass must keep everything
			case x == 2:
				s := base + int64(rng.Intn(64)) - 32
				l := int64(rng.Intn(48))
				if s >= 0 && s+l <= size {
					c.Ops = append(c.Ops, c17Op{Op: "set", S: s, L: l})
				}
			default:
				if rng.Intn(8) == 0 {
					base = rng.Int63n(size)
				}
				s := base + int64(rng.Intn(64)) - 32
				l := int64(rng.Intn(48))
				if rng.Intn(15) == 0 {
					s = size - int64(rng.Intn(40)) // windows that straddle the end of the file
				}
				c.Ops = append(c.Ops, c17Op{Op: "get", S: s, L: l})
			}
		}
		o := c17runCase(&c)
		o.Kind = "long"
		o.Case = k + 1
		out.Emit(o)
	}
	// expire-all through the public API only (max age -1 s), then re-read
	{
		c := c17Case{Size: 40}
		rem := &c17Remote{size: 40}
		rc := NewRangeCache(40, "x", rem.fetch)
		o := c17Obs{Kind: "history", Size: 40, Case: 0}
		for round := 0; round < 3; round++ {
			for s := int64(0); s < 30; s += 7 {
				o.Calls = append(o.Calls, c17get(rc, rem, s, 10, 0))
			}
			rc.DeleteOldEntries(context.Background(), -1*time.Second)
			o.Calls = append(o.Calls, c17Call{Op: "expire", Up: true, Bytes: []int{}})
		}
		_ = c
		o.Nontriv = true
		out.Emit(o)
	}
	t.Logf("histories=%d long=%d", len(cases), nlong)
}

// ---- concurrent readers -------------------------------------------------------------------------
// The concurrent run happens in a child process (this binary re-executed) so that a fatal runtime error
// (concurrent map writes) or a race-detector report is attributed to the run instead of killing the driver.

func TestVerifC17ConcurrentChild(t *testing.T) {
	if os.Getenv("VERIF_C17_CHILD") == "" {
		t.Skip("child only")
	}
	out := vt.Out(t)
	defer out.Close()
	rng := vt.Rand()
	rounds := 30
	if !vt.Quick() {
		rounds = 400
	}
	for round := 0; round < rounds; round++ {
		size := int64(64 + rng.Intn(200))
		rem := &c17Remote{size: size}
		rc := NewRangeCache(size, "x", rem.fetch)
		nth := 2 + rng.Intn(6)
		var mu sync.Mutex
		o := c17Obs{Kind: "concurrent", Size: size, Case: round + 1, Nontriv: true}
		var inflight sync.RWMutex // toggling the remote only while no call is in flight keeps `up` exact
		var wg sync.WaitGroup
		seeds := make([]int64, nth)
		for i := range seeds {
			seeds[i] = rng.Int63()
		}
		stop := make(chan struct{})
		go func() { // expiry and remote failures interleaved with the readers
			r := rand.New(rand.NewSource(seeds[0] ^ 0x5a5a))
			for {
				select {
				case <-stop:
					return
				default:
				}
				switch r.Intn(3) {
				case 0:
					rc.DeleteOldEntries(context.Background(), -1*time.Second)
				case 1:
					inflight.Lock()
					rem.down.Store(!rem.down.Load())
					inflight.Unlock()
				}
				time.Sleep(time.Duration(r.Intn(200)) * time.Microsecond)
			}
		}()
		for th := 0; th < nth; th++ {
			wg.Add(1)
			go func(th int) {
				defer wg.Done()
				r := rand.New(rand.NewSource(seeds[th]))
				base := r.Int63n(size)
				for step := 0; step < 150; step++ {
					if r.Intn(10) == 0 {
						base = r.Int63n(size)
					}
					s := base + int64(r.Intn(24)) - 12
					l := int64(r.Intn(20))
					inflight.RLock()
					c := c17get(rc, rem, s, l, th+1)
					inflight.RUnlock()
					mu.Lock()
					o.Calls = append(o.Calls, c)
					mu.Unlock()
				}
			}(th)
		}
		wg.Wait()
		close(stop)
		o.Fetches = int(rem.fetches.Load())
		out.Emit(o)
	}
}

func TestVerifC17Concurrent(t *testing.T) {
	out := vt.Out(t)
	defer out.Close()
	childOut := os.Getenv("VERIF_OUT") + ".child"
	os.Remove(childOut)
	cmd := exec.Command(os.Args[0], "-test.run=^TestVerifC17ConcurrentChild$", "-test.timeout=20m")
	cmd.Env = append(os.Environ(), "VERIF_C17_CHILD=1", "VERIF_OUT="+childOut, "GORACE=halt_on_error=1 exitcode=66")
	b, err := cmd.CombinedOutput()
	// copy the child's complete records
	if f, e := os.ReadFile(childOut); e == nil {
		for _, line := range strings.Split(string(f), "\n") {
			if strings.TrimSpace(line) == "" {
				continue
			}
			var o c17Obs
			if json.Unmarshal([]byte(line), &o) == nil {
				out.Emit(o)
			}
		}
	}
	if err != nil {
		s := string(b)
		fatal := ""
		switch {
		case strings.Contains(s, "WARNING: DATA RACE"):
			fatal = "data race reported by the race detector: " + c17firstRepoFrame(s)
		case strings.Contains(s, "fatal error:"):
			i := strings.Index(s, "fatal error:")
			e := strings.Index(s[i:], "\n")
			fatal = s[i:i+e] + " @ " + c17firstRepoFrame(s[i:])
		default:
			t.Fatalf("concurrent child failed without a runtime diagnosis: %v\n%s", err, s[max(0, len(s)-2000):])
		}
		out.Emit(c17Obs{Kind: "concurrent", Size: 1, Calls: []c17Call{}, Fatal: fatal, Nontriv: true})
	}
}

func c17firstRepoFrame(s string) string {
	for _, line := range strings.Split(s, "\n") {
		line = strings.TrimSpace(line)
		if strings.Contains(line, "/range-cache/") && strings.Contains(line, ".go:") && !strings.Contains(line, "zz_verif") && !strings.Contains(line, "/harness/") {
			f := strings.Fields(line)[0]
			if i := strings.Index(f, "range-cache/"); i >= 0 {
				f = f[i:]
			}
			return f
		}
	}
	return "?"
}

var _ = fmt.Sprintf
