package linkedlog

// C06 (record framing): directed search for batches whose serialized record length sits on both sides
// of the uvarint width boundaries (128, 16 384), written with the real LinkedLog.Put and read back with
// Read / ReadWithSize exactly as the gsfa reader does (offset + total size from the index).

import (
	"math/rand"
	"os"
	"path/filepath"
	"sort"
	"testing"

	"github.com/gagliardetto/solana-go"
	"github.com/rpcpool/yellowstone-faithful/indexes"
	"github.com/rpcpool/yellowstone-faithful/zzverif/vt"
)

type frObs struct {
	Kind       string      `json:"kind"`
	PayloadLen int         `json:"payloadLen"` // uvarint value stored in the record = |zstd| + 9
	Total      int         `json:"total"`      // bytes written = what the index stores as size
	Put        [][4]uint64 `json:"put"`        // entries newest first, as they must be read
	Got        [][4]uint64 `json:"got"`
	GotSized   [][4]uint64 `json:"gotSized"`
	PrevOK     bool        `json:"prevOk"`
	Err        string      `json:"err"`
	ErrRead    string      `json:"errRead"` // LinkedLog.Read is not used by the readers: recorded, not judged
}

func frEntries(rng *rand.Rand, n, repeat int) []*OffsetAndSizeAndSlot {
	out := make([]*OffsetAndSizeAndSlot, 0, n)
	for i := 0; i < n; i++ {
		e := &OffsetAndSizeAndSlot{Offset: rng.Uint64() >> 20, Size: uint64(rng.Intn(1 << 20)), Slot: uint64(rng.Intn(1 << 28)), Flags: Bitmap(rng.Intn(8))}
		if i < repeat && i > 0 {
			*e = *out[0]
			e.Offset = out[0].Offset + uint64(i)
		}
		out = append(out, e)
	}
	return out
}

func TestVerifC06Framing(t *testing.T) {
	out := vt.Out(t)
	defer out.Close()
	rng := vt.Rand()
	// target payload lengths: both sides of every width boundary of the stored value AND of the total
	targets := map[int]bool{}
	for _, b := range []int{128, 16384} {
		for d := -5; d <= 4; d++ {
			targets[b+d] = false
		}
	}
	if !vt.Quick() {
		for i := 0; i < 60; i++ {
			targets[20+rng.Intn(40000)] = false
		}
	}
	dir := t.TempDir()
	ll, err := NewLinkedLog(filepath.Join(dir, "log"))
	if err != nil {
		t.Fatal(err)
	}
	type put struct {
		off   uint64
		size  uint32
		want  []*OffsetAndSizeAndSlot
		plen  int
		prev  indexes.OffsetAndSize
		prevW indexes.OffsetAndSize
	}
	var puts []put
	var last indexes.OffsetAndSize
	var key solana.PublicKey
	tries, hit := 0, 0
	var tlist []int
	for k := range targets {
		tlist = append(tlist, k)
	}
	sort.Ints(tlist)
	// the stored payload length of a candidate batch is measured through the public API only (a scratch log): the record
	// Put writes is uvarint(payload length) ++ payload, and Put reports the record's total size
	scratch, err := NewLinkedLog(filepath.Join(dir, "scratch-log"))
	if err != nil {
		t.Fatal(err)
	}
	plenOf := func(es []*OffsetAndSizeAndSlot) int {
		cp := make([]*OffsetAndSizeAndSlot, len(es))
		for i := range es {
			c := *es[i]
			cp[len(es)-1-i] = &c
		}
		total := 0
		_, err := scratch.Put(
			func(pk solana.PublicKey) (indexes.OffsetAndSize, error) { return indexes.OffsetAndSize{}, nil },
			func(pk solana.PublicKey, offset uint64, ln uint32) error { total = int(ln); return nil },
			KeyToOffsetAndSizeAndBlocktime{Key: key, Values: cp},
		)
		if err != nil {
			t.Fatal(err)
		}
		w := 1
		if total-1 >= 128 {
			w = 2
		}
		if total-2 >= 16384 {
			w = 3
		}
		return total - w
	}
	for _, target := range tlist {
		// directed fit: random (incompressible) entries; add / drop entries and widen / narrow one
		// entry's uvarint-encoded offset until the serialized record has exactly the target length
		es := frEntries(rng, (target-20)/12+1, 0)
		ok := false
		for step := 0; step < 4000; step++ {
			tries++
			d := target - plenOf(es)
			if d == 0 {
				ok = true
				break
			}
			switch {
			case d >= 14:
				es = append(es, frEntries(rng, 1, 0)...)
			case d <= -14 && len(es) > 1:
				es = es[:len(es)-1]
			default:
				e := es[rng.Intn(len(es))]
				w := frUvarintLen(e.Offset) + d
				if w < 1 {
					w = 1
				}
				if w > 9 {
					w = 9
				}
				// a value whose uvarint encoding is w bytes wide
				lo := uint64(1) << (7 * uint(w-1))
				if w == 1 {
					lo = 0
				}
				e.Offset = lo + uint64(rng.Int63n(1<<6))
			}
		}
		if !ok {
			continue
		}
		// Put reverses its argument in place: keep the expected (newest-first) order separately
		want := make([]*OffsetAndSizeAndSlot, len(es))
		arg := make([]*OffsetAndSizeAndSlot, len(es))
		for i := range es {
			c := *es[i]
			want[i] = &c
			arg[len(es)-1-i] = es[i]
		}
		plen := target
		targets[plen] = true
		hit++
		p := put{want: want, plen: plen, prevW: last}
		_, err = ll.Put(
			func(pk solana.PublicKey) (indexes.OffsetAndSize, error) { return last, nil },
			func(pk solana.PublicKey, offset uint64, ln uint32) error {
				p.off, p.size = offset, ln
				last = indexes.OffsetAndSize{Offset: offset, Size: uint64(ln)}
				return nil
			},
			KeyToOffsetAndSizeAndBlocktime{Key: key, Values: arg},
		)
		if err != nil {
			t.Fatal(err)
		}
		puts = append(puts, p)
	}
	if err := ll.Flush(); err != nil {
		t.Fatal(err)
	}
	conv := func(es []OffsetAndSizeAndSlot) [][4]uint64 {
		o := [][4]uint64{}
		for _, e := range es {
			o = append(o, [4]uint64{e.Offset, e.Size, e.Slot, uint64(e.Flags)})
		}
		return o
	}
	for _, p := range puts {
		o := frObs{Kind: "framing", PayloadLen: p.plen, Total: int(p.size), Put: [][4]uint64{}, Got: [][4]uint64{}, GotSized: [][4]uint64{}}
		for _, e := range p.want {
			o.Put = append(o.Put, [4]uint64{e.Offset, e.Size, e.Slot, uint64(e.Flags)})
		}
		if pm := vt.Guard(func() {
			got, prev, err := ll.Read(p.off)
			if err != nil {
				o.ErrRead = err.Error()
			} else {
				o.Got = conv(got)
				o.PrevOK = prev == p.prevW
			}
			got2, prev2, err := ll.ReadWithSize(p.off, uint64(p.size))
			if err != nil {
				o.Err += "ReadWithSize: " + err.Error() + "; "
			} else {
				o.GotSized = conv(got2)
				o.PrevOK = o.PrevOK && prev2 == p.prevW
			}
		}); pm != "" {
			o.Err += pm
		}
		out.Emit(o)
	}
	missed := 0
	for _, d := range targets {
		if !d {
			missed++
		}
	}
	t.Logf("framing: %d records written, %d target lengths not reached after %d tries", len(puts), missed, tries)
	_ = os.Remove
}

func frUvarintLen(x uint64) int {
	n := 1
	for x >= 0x80 {
		x >>= 7
		n++
	}
	return n
}
