package gsfa

// C06 replayer (R3): forces TLC-generated schedules of spec/GsfaWriter.tla on the real writer through the
// `vh` hook gates (build tag verif), reads every address back with the real reader and records the
// observation for the TLC judge (spec/Trace_Gsfa.tla). Injected with `go test -overlay`.

import (
	"context"
	"encoding/json"
	"fmt"
	"math/rand"
	"os"
	"runtime"
	"strconv"
	"strings"
	"sync/atomic"
	"testing"
	"time"

	"github.com/gagliardetto/solana-go"
	"github.com/ipfs/go-cid"
	"github.com/rpcpool/yellowstone-faithful/indexes"
	"github.com/rpcpool/yellowstone-faithful/indexmeta"
	"github.com/rpcpool/yellowstone-faithful/zzverif/vt"
)

type c06Case struct {
	Pushed []struct {
		Addrs    []string `json:"addrs"`
		Periodic bool     `json:"periodic"`
	} `json:"pushed"`
	Ev []struct {
		Th string `json:"th"`
		Pt string `json:"pt"`
	} `json:"ev"`
	Read     map[string][]int `json:"read"`
	Expected map[string][]int `json:"expected"`
}

// one pushed entry as the judge sees it
type c06Push struct {
	E     [4]uint64 `json:"e"` // offset(=id), size, slot, flags
	Addrs []string  `json:"addrs"`
}

type c06Obs struct {
	Kind     string                 `json:"kind"`
	Case     int                    `json:"case"`
	Pushed   []c06Push              `json:"pushed"`
	Addrs    []string               `json:"addrs"`
	Got      map[string][][4]uint64 `json:"got"`
	Err      string                 `json:"err"`
	Diverged string                 `json:"diverged"`
	Conform  bool                   `json:"conform"` // read-back equals the model's prediction (drift only)
	Note     string                 `json:"note"`
}

func c06goid() int64 {
	var buf [64]byte
	n := runtime.Stack(buf[:], false)
	f := strings.Fields(string(buf[:n]))
	id, _ := strconv.ParseInt(f[1], 10, 64)
	return id
}

type c06arrival struct{ th, pt string }

var c06root = cid.MustParse("bafyreics5uul5lbtxslcigtoa5fkba7qgwu7cyb7ih7z6fzsh4lgfgraau")

func c06key(name string) solana.PublicKey {
	var pk solana.PublicKey // "a0" is the all-zero key = System Program (also the zero value of a parked buffer's key)
	if name != "a0" {
		n, _ := strconv.Atoi(strings.TrimPrefix(name, "a"))
		pk[0] = byte(n)
		pk[1] = byte(n >> 8)
		pk[2] = byte(n >> 16)
		pk[31] = 0x77
	}
	return pk
}

func c06flags(id int) (hasMeta, isSuccess, isVote bool) {
	return id%2 == 0, id%3 != 0, id%5 == 0
}

func c06flagBits(id int) uint64 {
	m, s, v := c06flags(id)
	var b uint64
	if m {
		b |= 1
	}
	if s {
		b |= 2
	}
	if v {
		b |= 4
	}
	return b
}

func c06pushes(c *c06Case) []c06Push {
	out := make([]c06Push, len(c.Pushed))
	for i, p := range c.Pushed {
		slot := uint64(i*1000 + 1)
		if p.Periodic {
			slot = uint64(i*1000 + 500)
		}
		out[i] = c06Push{E: [4]uint64{uint64(i + 1), uint64(7 + i), slot, c06flagBits(i + 1)}, Addrs: p.Addrs}
	}
	return out
}

func c06drive(w *GsfaWriter, pushes []c06Push) error {
	for i, p := range pushes {
		var keys solana.PublicKeySlice
		for _, a := range p.Addrs {
			keys = append(keys, c06key(a))
		}
		// a transaction's account list may name an address more than once (it is a list, the entry is recorded once per
		// address): every third push repeats its first address at the end (non-adjacent when there are >= 2 addresses),
		// every seventh right after itself
		if len(keys) > 0 && i%3 == 1 {
			keys = append(keys, keys[0])
		}
		if len(keys) > 0 && i%7 == 3 {
			keys = append(solana.PublicKeySlice{keys[0]}, keys...)
		}
		m, s, v := c06flags(i + 1)
		if err := w.Push(p.E[0], p.E[1], p.E[2], keys, m, s, v); err != nil {
			return err
		}
	}
	return w.Close()
}

func c06readBack(dir string, addrs []string) (map[string][][4]uint64, string) {
	r, err := NewGsfaReader(dir)
	if err != nil {
		return nil, "reader: " + err.Error()
	}
	defer r.Close()
	got := map[string][][4]uint64{}
	for _, a := range addrs {
		got[a] = [][4]uint64{}
		locs, err := r.Get(context.Background(), c06key(a), 1<<30)
		if err != nil {
			if strings.Contains(err.Error(), "not found") {
				continue // an address without history reads as empty
			}
			return nil, "get " + a + ": " + err.Error()
		}
		for _, l := range locs {
			got[a] = append(got[a], [4]uint64{l.Offset, l.Size, l.Slot, uint64(l.Flags)})
		}
	}
	return got, ""
}

// gated replay; returns the index dir, a divergence description, an error description
func c06replay(t *testing.T, c *c06Case, pushes []c06Push) (dir string, diverged string, errs string) {
	dir = t.TempDir() + "/idx"
	arrive := make(chan c06arrival, 4)
	grant := map[string]chan struct{}{"M": make(chan struct{}), "B": make(chan struct{})}
	var mainID atomic.Int64
	var free atomic.Bool
	verifHook = func(pt string) {
		if free.Load() {
			return
		}
		th := "B"
		if c06goid() == mainID.Load() {
			th = "M"
		}
		arrive <- c06arrival{th, pt}
		<-grant[th]
	}
	defer func() { verifHook = nil }()
	mainDone := make(chan error, 1)
	tmp := t.TempDir()
	go func() {
		mainID.Store(c06goid())
		w, err := NewGsfaWriter(dir, indexmeta.Meta{}, 0, c06root, indexes.NetworkMainnet, tmp)
		if err != nil {
			mainDone <- err
			return
		}
		mainDone <- c06drive(w, pushes)
	}()
	parked := map[string]string{}
	finished := false
	var mainErr error
	wait := func(th string) bool {
		deadline := time.After(20 * time.Second)
		for parked[th] == "" && !(th == "M" && finished) {
			select {
			case a := <-arrive:
				parked[a.th] = a.pt
			case mainErr = <-mainDone:
				finished = true
			case <-deadline:
				return false
			}
		}
		return true
	}
	for i, e := range c.Ev {
		if !wait(e.Th) || parked[e.Th] != e.Pt {
			diverged = fmt.Sprintf("step %d: script wants %s.%s, thread is at %q (finished=%v)", i, e.Th, e.Pt, parked[e.Th], finished)
			break
		}
		parked[e.Th] = ""
		grant[e.Th] <- struct{}{}
		if e.Pt == "bgDone" {
			continue // the done signal is a rendezvous with waitBg
		}
		if !wait(e.Th) {
			diverged = fmt.Sprintf("step %d: %s did not reach its next gate after %s", i, e.Th, e.Pt)
			break
		}
	}
	// release everything and let the run finish free-running
	free.Store(true)
	deadline := time.After(30 * time.Second)
	for !finished {
		for th, pt := range parked {
			if pt != "" {
				parked[th] = ""
				select {
				case grant[th] <- struct{}{}:
				case <-time.After(2 * time.Second):
				}
			}
		}
		select {
		case a := <-arrive:
			select {
			case grant[a.th] <- struct{}{}:
			case <-time.After(2 * time.Second):
			}
		case mainErr = <-mainDone:
			finished = true
		case <-deadline:
			return dir, diverged, "HANG"
		case <-time.After(time.Millisecond):
		}
	}
	go func() { // a background goroutine may still arrive at a gate that was entered before `free`
		for {
			select {
			case a := <-arrive:
				select {
				case grant[a.th] <- struct{}{}:
				case <-time.After(time.Second):
				}
			case <-time.After(200 * time.Millisecond):
				return
			}
		}
	}()
	if mainErr != nil {
		return dir, diverged, "writer: " + mainErr.Error()
	}
	return dir, diverged, ""
}

func c06free(t *testing.T, pushes []c06Push) (string, string) {
	dir := t.TempDir() + "/idx"
	done := make(chan error, 1)
	tmp := t.TempDir()
	go func() {
		w, err := NewGsfaWriter(dir, indexmeta.Meta{}, 0, c06root, indexes.NetworkMainnet, tmp)
		if err != nil {
			done <- err
			return
		}
		done <- c06drive(w, pushes)
	}()
	select {
	case err := <-done:
		if err != nil {
			return dir, "writer: " + err.Error()
		}
		return dir, ""
	case <-time.After(120 * time.Second):
		return dir, "HANG: Push/Close did not return within 120 s without any gating"
	}
}

func c06conv(m map[string][]int, pushes []c06Push) map[string][][4]uint64 {
	out := map[string][][4]uint64{}
	for a, ids := range m {
		out[a] = [][4]uint64{}
		for _, id := range ids {
			out[a] = append(out[a], pushes[id-1].E)
		}
	}
	return out
}

func c06eq(a, b map[string][][4]uint64, addrs []string) bool {
	for _, k := range addrs {
		if len(a[k]) != len(b[k]) {
			return false
		}
		for i := range a[k] {
			if a[k][i] != b[k][i] {
				return false
			}
		}
	}
	return true
}

// TestVerifC06Schedules replays every TLC-generated behaviour (push history + gated schedule).
func TestVerifC06Schedules(t *testing.T) {
	cases := vt.Cases(t)
	out := vt.Out(t)
	defer out.Close()
	addrs := []string{"a0", "a1"}
	n, conform, div := 0, 0, 0
	for _, raw := range cases {
		var c c06Case
		if err := json.Unmarshal(raw, &c); err != nil {
			t.Fatal(err)
		}
		n++
		pushes := c06pushes(&c)
		dir, d, e := c06replay(t, &c, pushes)
		note := ""
		if e != "" {
			// a replayer problem must not become a verdict: repeat the same history without gates
			note = "gated run: " + e + "; repeated free-running"
			dir, e = c06free(t, pushes)
		}
		o := c06Obs{Kind: "schedule", Case: n, Pushed: pushes, Addrs: addrs, Diverged: d, Err: e, Note: note}
		if e == "" {
			o.Got, o.Err = c06readBack(dir, addrs)
		}
		if o.Got == nil {
			o.Got = map[string][][4]uint64{"a0": {}, "a1": {}}
		}
		o.Conform = d == "" && o.Err == "" && c06eq(o.Got, c06conv(c.Read, pushes), addrs)
		if o.Conform {
			conform++
		}
		if d != "" {
			div++
			if div <= 3 {
				t.Logf("case %d diverged: %s", n, d)
			}
		}
		out.Emit(o)
	}
	t.Logf("cases=%d conform-to-model=%d diverged=%d", n, conform, div)
}

// TestVerifC06Real drives the writer with its real constants (no literal shrinking, free-running
// goroutines): per-address counts around the batch size, interleaved addresses, the System Program key,
// and (VERIF_C06_PERIODIC=1) enough distinct addresses to trigger the periodic partial flush.
func TestVerifC06Real(t *testing.T) {
	out := vt.Out(t)
	defer out.Close()
	rng := rand.New(rand.NewSource(vt.Seed() + 1000*int64(len(os.Getenv("VERIF_C06_RUN")))))
	run, _ := strconv.Atoi(os.Getenv("VERIF_C06_RUN"))
	rng = rand.New(rand.NewSource(vt.Seed()*131 + int64(run)))
	batch := itemsPerBatch
	counts := []int{1, 2, batch - 1, batch, batch + 1, 2*batch - 1, 2 * batch, 2*batch + 1, 2*batch + batch/2, 3 * batch}
	// a few seeded extra counts
	for i := 0; i < 4; i++ {
		counts = append(counts, 1+rng.Intn(3*batch+5))
	}
	if batch < 10 {
		// shrunk thresholds: many more addresses, up to 6 full batches each (keeps the number of distinct
		// batch counts below the shrunk popRank list size, as it is with the real constants)
		for i := 0; i < 26; i++ {
			counts = append(counts, 1+rng.Intn(6*batch+1))
		}
	}
	type slotT struct {
		name string
		left int
	}
	var pool []slotT
	var addrs []string
	for i, c := range counts {
		name := fmt.Sprintf("a%d", i) // a0 = System Program (zero key)
		pool = append(pool, slotT{name, c})
		addrs = append(addrs, name)
	}
	var pushes []c06Push
	periodic := os.Getenv("VERIF_C06_PERIODIC") != ""  // pushes at slot%500==0 (partial flush of small lists)
	withBulk := os.Getenv("VERIF_C06_PERIODIC") == "1" // plus > 100 000 distinct addresses (real threshold)
	id := 0
	add := func(names []string, slot uint64) {
		id++
		pushes = append(pushes, c06Push{E: [4]uint64{uint64(id), uint64(100 + id%50000), slot, c06flagBits(id)}, Addrs: names})
	}
	slot := uint64(1)
	bulk := 0
	if withBulk {
		// >100 000 distinct addresses with one entry each, then a push at slot%500==0 flushes the small lists
		bulk = 100_050
		for i := 0; i < bulk; i++ {
			add([]string{fmt.Sprintf("a%d", 1000+i)}, slot)
			slot++
			if slot%500 == 0 {
				slot++
			}
		}
		for i := 0; i < 40; i++ {
			addrs = append(addrs, fmt.Sprintf("a%d", 1000+rng.Intn(bulk)))
		}
	}
	for len(pool) > 0 {
		// pick 1..3 distinct addresses that still need entries
		k := 1 + rng.Intn(3)
		if k > len(pool) {
			k = len(pool)
		}
		idxs := rng.Perm(len(pool))[:k]
		var names []string
		for _, ix := range idxs {
			names = append(names, pool[ix].name)
			pool[ix].left--
		}
		if withBulk && rng.Intn(50) == 0 {
			names = append(names, fmt.Sprintf("a%d", 1000+rng.Intn(bulk))) // second record for a bulk address
			if len(addrs) < 120 {
				addrs = append(addrs, names[len(names)-1])
			}
		}
		s := slot
		if periodic && rng.Intn(map[bool]int{true: 40, false: 5}[withBulk]) == 0 {
			s = (slot/500 + 1) * 500
			slot = s
		}
		add(names, s)
		slot++
		if slot%500 == 0 {
			slot++
		}
		np := pool[:0]
		for _, p := range pool {
			if p.left > 0 {
				np = append(np, p)
			}
		}
		pool = np
	}
	dir, e := c06free(t, pushes)
	// the judge only needs the pushes that mention a judged address (a projection of the history)
	judged := map[string]bool{}
	uniq := addrs[:0]
	for _, a := range addrs {
		if !judged[a] {
			judged[a] = true
			uniq = append(uniq, a)
		}
	}
	addrs = uniq
	var proj []c06Push
	for _, p := range pushes {
		for _, a := range p.Addrs {
			if judged[a] {
				proj = append(proj, p)
				break
			}
		}
	}
	o := c06Obs{Kind: "real", Case: run, Pushed: proj, Addrs: addrs, Err: e, Note: fmt.Sprintf("pushes=%d periodic=%v counts=%v", len(pushes), periodic, counts)}
	if e == "" {
		o.Got, o.Err = c06readBack(dir, addrs)
	}
	if o.Got == nil {
		o.Got = map[string][][4]uint64{}
		for _, a := range addrs {
			o.Got[a] = [][4]uint64{}
		}
	}
	out.Emit(o)
	t.Logf("real run %d: pushes=%d judged addrs=%d err=%q", run, len(pushes), len(addrs), o.Err)
}
