package gsfa

// C07 replayer (reader level): every (batch layout per epoch, limit, before, until) enumerated by spec/GsfaPaging.tla
// and every (history with slots, limit, before, until) of spec/GsfaSlotWindow.tla is executed on the real
// GsfaReaderMultiepoch over address-index directories written with the real record writer (one linked-log record per
// modelled batch); the fetcher maps a location to a synthetic transaction node carrying signature id and slot.

import (
	"context"
	"encoding/json"
	"fmt"
	"os"
	"strings"
	"testing"

	"github.com/gagliardetto/solana-go"
	"github.com/rpcpool/yellowstone-faithful/gsfa/linkedlog"
	"github.com/rpcpool/yellowstone-faithful/indexes"
	"github.com/rpcpool/yellowstone-faithful/indexmeta"
	"github.com/rpcpool/yellowstone-faithful/ipld/ipldbindcode"
	"github.com/rpcpool/yellowstone-faithful/zzverif/vt"
)

type c07Entry struct {
	ID   int `json:"id"`
	Slot int `json:"slot"`
}

type c07Case struct {
	// page cases
	Sizes [][]int `json:"sizes"`
	// window cases
	Hist   [][][]c07Entry `json:"hist"`
	Limit  int            `json:"limit"`
	Before int            `json:"before"`
	Until  int            `json:"until"`
	Kind   string         `json:"kind"`
}

type c07Obs struct {
	Kind    string       `json:"kind"`
	Hist    [][]int      `json:"hist"`  // page: ids per epoch, newest epoch first
	Whist   [][]c07Entry `json:"whist"` // window: entries per epoch
	Limit   int          `json:"limit"`
	Before  int          `json:"before"`
	Until   int          `json:"until"`
	Result  []int        `json:"result"`
	Wresult []c07Entry   `json:"wresult"`
	Err     string       `json:"err"`
	Multi   bool         `json:"multi"` // >= 2 epochs contribute entries (or a boundary falls inside a batch)
}

func c07sig(id int) solana.Signature {
	var s solana.Signature
	s[0], s[1], s[2], s[63] = byte(id), byte(id>>8), byte(id>>16), 0x5a
	return s
}

func c07id(s solana.Signature) int { return int(s[0]) | int(s[1])<<8 | int(s[2])<<16 }

var c07addr = solana.MustPublicKeyFromBase58("Vote111111111111111111111111111111111111111")

// build one epoch's address index: batches[0] is the NEWEST batch; inside a batch entries are newest first
func c07buildEpoch(t *testing.T, epoch uint64, batches [][]c07Entry, withAddr bool) *GsfaReader {
	dir := t.TempDir() + "/idx"
	w, err := NewGsfaWriter(dir, indexmeta.Meta{}, epoch, c06root, indexes.NetworkMainnet, t.TempDir())
	if err != nil {
		t.Fatal(err)
	}
	// another address is always present so that the index is never empty
	other := solana.MustPublicKeyFromBase58("Stake11111111111111111111111111111111111111")
	if err := w.flushKVs(linkedlog.KeyToOffsetAndSizeAndBlocktime{Key: other, Values: []*linkedlog.OffsetAndSizeAndSlot{{Offset: 999999, Size: 1, Slot: epoch * 432000}}}); err != nil {
		t.Fatal(err)
	}
	if withAddr {
		for bi := len(batches) - 1; bi >= 0; bi-- { // oldest batch is written first
			b := batches[bi]
			vals := make([]*linkedlog.OffsetAndSizeAndSlot, 0, len(b))
			for i := len(b) - 1; i >= 0; i-- { // Put reverses: pass oldest first
				vals = append(vals, &linkedlog.OffsetAndSizeAndSlot{Offset: uint64(b[i].ID), Size: 1, Slot: uint64(b[i].Slot)})
			}
			if err := w.flushKVs(linkedlog.KeyToOffsetAndSizeAndBlocktime{Key: c07addr, Values: vals}); err != nil {
				t.Fatal(err)
			}
		}
	}
	if err := w.Close(); err != nil {
		t.Fatal(err)
	}
	r, err := NewGsfaReader(dir)
	if err != nil {
		t.Fatal(err)
	}
	r.SetEpoch(epoch)
	return r
}

func c07fetch(epochNum uint64, loc linkedlog.OffsetAndSizeAndSlot) (*ipldbindcode.Transaction, error) {
	sig := c07sig(int(loc.Offset))
	data := append([]byte{1}, sig[:]...)
	return &ipldbindcode.Transaction{Kind: 0, Slot: int(loc.Slot), Data: ipldbindcode.DataFrame{Kind: 6, Data: data}}, nil
}

// flatten the per-epoch result map in descending epoch order (the reader's contract towards its callers)
func c07flatten(m EpochToTransactionObjects, epochs []uint64) []c07Entry {
	out := []c07Entry{}
	for _, e := range epochs {
		for _, tx := range m[e] {
			s, _ := tx.Signature()
			out = append(out, c07Entry{ID: c07id(s), Slot: tx.Slot})
		}
	}
	return out
}

func TestVerifC07Reader(t *testing.T) {
	out := vt.Out(t)
	defer out.Close()
	type built struct {
		multi  *GsfaReaderMultiepoch
		epochs []uint64
		hist   [][]c07Entry
		close  func()
	}
	cache := map[string]*built{}
	get := func(key string, hist [][][]c07Entry) *built {
		if b, ok := cache[key]; ok {
			return b
		}
		if len(cache) > 64 {
			for k, b := range cache {
				b.close()
				delete(cache, k)
			}
		}
		b := &built{}
		var readers []*GsfaReader
		n := len(hist)
		for k, batches := range hist { // k = 0 is the newest epoch
			epoch := uint64(10 + n - k)
			r := c07buildEpoch(t, epoch, batches, len(batches) > 0)
			readers = append(readers, r)
			b.epochs = append(b.epochs, epoch)
			flat := []c07Entry{}
			for _, bt := range batches {
				flat = append(flat, bt...)
			}
			b.hist = append(b.hist, flat)
		}
		m, err := NewGsfaReaderMultiepoch(readers)
		if err != nil {
			t.Fatal(err)
		}
		b.multi = m
		b.close = func() {
			for _, r := range readers {
				r.Close()
			}
		}
		cache[key] = b
		return b
	}
	const Lm = 3 // epoch length used by spec/GsfaSlotWindow.tla
	// the model's first / middle / last slot of an epoch are the real first slot, a middle slot and the real last slot
	real := func(v int) int { return (v/Lm)*432000 + []int{0, 1000, 431999}[v%Lm] }
	for _, raw := range vt.Cases(t) {
		var c c07Case
		if err := json.Unmarshal(raw, &c); err != nil {
			t.Fatal(err)
		}
		if c.Kind == "window" {
			// epochs of the model: hist[0] = epoch number 1 (newest), hist[1] = epoch number 0; real epochs 1 and 0
			hist := make([][][]c07Entry, len(c.Hist))
			for k := range c.Hist {
				for _, b := range c.Hist[k] {
					nb := make([]c07Entry, len(b))
					for i, e := range b {
						nb[i] = c07Entry{ID: e.ID, Slot: real(e.Slot)}
					}
					hist[k] = append(hist[k], nb)
				}
			}
			key := "w" + fmt.Sprint(hist)
			b, ok := cache[key]
			if !ok {
				if len(cache) > 64 {
					for k, x := range cache {
						x.close()
						delete(cache, k)
					}
				}
				b = &built{}
				var readers []*GsfaReader
				for k, batches := range hist {
					epoch := uint64(len(hist) - 1 - k)
					r := c07buildEpoch(t, epoch, batches, len(batches) > 0)
					readers = append(readers, r)
					b.epochs = append(b.epochs, epoch)
					flat := []c07Entry{}
					for _, bt := range batches {
						flat = append(flat, bt...)
					}
					b.hist = append(b.hist, flat)
				}
				m, err := NewGsfaReaderMultiepoch(readers)
				if err != nil {
					t.Fatal(err)
				}
				b.multi = m
				b.close = func() {
					for _, r := range readers {
						r.Close()
					}
				}
				cache[key] = b
			}
			o := c07Obs{Kind: "window", Whist: b.hist, Limit: c.Limit, Before: real(c.Before), Until: real(c.Until), Result: []int{}, Wresult: []c07Entry{}, Hist: [][]int{}}
			if p := vt.Guard(func() {
				m, err := b.multi.GetBeforeUntilSlot(context.Background(), c07addr, c.Limit, uint64(real(c.Before)), uint64(real(c.Until)), c07fetch)
				if err != nil {
					o.Err = err.Error()
					return
				}
				o.Wresult = c07flatten(m, b.epochs)
			}); p != "" {
				o.Err = p
			}
			o.Multi = len(b.hist) >= 2 && len(b.hist[0]) > 0 && len(b.hist[1]) > 0
			out.Emit(o)
			continue
		}
		// page case: ids are numbered newest-first over the whole history
		var hist [][][]c07Entry
		id := 0
		total := 0
		for _, ep := range c.Sizes {
			for _, n := range ep {
				total += n
			}
		}
		for k, ep := range c.Sizes {
			var batches [][]c07Entry
			for _, n := range ep {
				var b []c07Entry
				for i := 0; i < n; i++ {
					id++
					b = append(b, c07Entry{ID: id, Slot: (len(c.Sizes)-k)*432000 + (total - id)})
				}
				batches = append(batches, b)
			}
			hist = append(hist, batches)
		}
		b := get("p"+fmt.Sprint(c.Sizes), hist)
		o := c07Obs{Kind: "page", Limit: c.Limit, Before: c.Before, Until: c.Until, Result: []int{}, Wresult: []c07Entry{}, Whist: [][]c07Entry{}}
		for _, h := range b.hist {
			ids := []int{}
			for _, e := range h {
				ids = append(ids, e.ID)
			}
			o.Hist = append(o.Hist, ids)
		}
		var before, until *solana.Signature
		if c.Before != 0 {
			s := c07sig(c.Before) // total+1 = a signature that is not in the history
			before = &s
		}
		if c.Until != 0 {
			s := c07sig(c.Until)
			until = &s
		}
		if p := vt.Guard(func() {
			m, err := b.multi.GetBeforeUntil(context.Background(), c07addr, c.Limit, before, until, c07fetch)
			if err != nil {
				o.Err = err.Error()
				return
			}
			for _, e := range c07flatten(m, b.epochs) {
				o.Result = append(o.Result, e.ID)
			}
		}); p != "" {
			o.Err = p
		}
		contributing := 0
		for _, h := range b.hist {
			if len(h) > 0 {
				contributing++
			}
		}
		o.Multi = contributing >= 2
		out.Emit(o)
	}
	for _, b := range cache {
		b.close()
	}
	_ = os.Remove
	_ = strings.Contains
}
