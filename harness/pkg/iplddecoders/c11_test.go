package iplddecoders

// C11 replayer (R3): every node shape of spec/LedgerCodec.tla is instantiated with seeded concrete values (long lists,
// large buffers, 64-bit extremes, negative hashes), encoded with the reference encoder (bindnode + dag-cbor) and decoded
// with the fast decoder and with the schema-driven ("classic") decoder; the accessor-visible projections of both are
// compared, the fast decoder's presence flags are compared with the shape, and the decoders of every other kind must
// reject the bytes. Plus every node of the fixture CARs.

import (
	"bytes"
	"encoding/json"
	"fmt"
	"math"
	"math/rand"
	"os"
	"path/filepath"
	"reflect"
	"testing"

	"github.com/ipfs/go-cid"
	carv1 "github.com/ipld/go-car"
	"github.com/ipld/go-ipld-prime/codec/dagcbor"
	"github.com/ipld/go-ipld-prime/datamodel"
	cidlink "github.com/ipld/go-ipld-prime/linking/cid"
	"github.com/ipld/go-ipld-prime/node/bindnode"
	"github.com/multiformats/go-multicodec"
	"github.com/rpcpool/yellowstone-faithful/ipld/ipldbindcode"
	"github.com/rpcpool/yellowstone-faithful/zzverif/vt"
)

type c11Frame struct {
	Hash   string `json:"hash"`
	Index  string `json:"index"`
	Total  string `json:"total"`
	Next   string `json:"next"`
	Nlinks int    `json:"nlinks"`
}

type c11Case struct {
	Kind   string   `json:"kind"`
	Frame  c11Frame `json:"frame"`
	Frame2 c11Frame `json:"frame2"`
	Opt    string   `json:"opt"`
	Nlist  int      `json:"nlist"`
}

type c11Inst struct {
	Encoded   bool   `json:"encoded"`
	Fastok    bool   `json:"fastok"`
	Classicok bool   `json:"classicok"`
	Same      bool   `json:"same"`
	Presence  bool   `json:"presence"`
	Cross     bool   `json:"cross"`
	Detail    string `json:"detail"`
}

type c11Obs struct {
	c11Case
	Case      int       `json:"case"`
	Instances []c11Inst `json:"instances"`
}

func c11enc(v any) ([]byte, error) {
	var n datamodel.Node
	switch x := v.(type) {
	case *ipldbindcode.Epoch:
		n = bindnode.Wrap(x, ipldbindcode.Prototypes.Epoch.Type()).Representation()
	case *ipldbindcode.Subset:
		n = bindnode.Wrap(x, ipldbindcode.Prototypes.Subset.Type()).Representation()
	case *ipldbindcode.Block:
		n = bindnode.Wrap(x, ipldbindcode.Prototypes.Block.Type()).Representation()
	case *ipldbindcode.Entry:
		n = bindnode.Wrap(x, ipldbindcode.Prototypes.Entry.Type()).Representation()
	case *ipldbindcode.Transaction:
		n = bindnode.Wrap(x, ipldbindcode.Prototypes.Transaction.Type()).Representation()
	case *ipldbindcode.Rewards:
		n = bindnode.Wrap(x, ipldbindcode.Prototypes.Rewards.Type()).Representation()
	case *ipldbindcode.DataFrame:
		n = bindnode.Wrap(x, ipldbindcode.Prototypes.DataFrame.Type()).Representation()
	}
	var buf bytes.Buffer
	var err error
	if p := vt.Guard(func() { err = dagcbor.Encode(n, &buf) }); p != "" {
		return nil, fmt.Errorf("%s", p)
	}
	return buf.Bytes(), err
}

type c11gen struct {
	rng   *rand.Rand
	class int
}

func (g *c11gen) link() datamodel.Link {
	b := make([]byte, 8)
	g.rng.Read(b)
	// links are CIDs of any codec / hash function (the schema says Link, not "dag-cbor sha2-256 link"): mostly what the
	// archives use, sometimes raw or dag-pb, sometimes a sha2-512 digest
	codec, mh := uint64(multicodec.DagCbor), uint64(multicodec.Sha2_256)
	switch g.rng.Intn(8) {
	case 0:
		codec = uint64(multicodec.Raw)
	case 1:
		codec = uint64(multicodec.DagPb)
	case 2:
		mh = uint64(multicodec.Sha2_512)
	}
	bd := cid.V1Builder{MhLength: -1, MhType: mh, Codec: codec}
	c, _ := bd.Sum(b)
	return cidlink.Link{Cid: c}
}
func (g *c11gen) links(n int) ipldbindcode.List__Link {
	out := ipldbindcode.List__Link{}
	for i := 0; i < n; i++ {
		out = append(out, g.link())
	}
	return out
}

// list length class 0,1,2 -> concrete length (2 = "many")
func (g *c11gen) length(class int) int {
	switch class {
	case 0:
		return 0
	case 1:
		return 1
	}
	// "long lists": a Subset links thousands of blocks in real archives; 8192 / 8193 straddle a common decoder limit
	lens := []int{2, 3, 17, 300, 5000, 8192, 8193, 20000}
	if g.class >= 0 {
		return lens[g.class%len(lens)]
	}
	return lens[g.rng.Intn(5)]
}
func (g *c11gen) int_(neg bool) int {
	// the schema's Int is signed: negative values are schema-conforming for every integer field
	c := []int{0, 1, 23, 24, 255, 256, 65535, 65536, math.MaxInt32, math.MaxInt32 + 1, math.MaxInt64, g.rng.Intn(1 << 40), -1, -24, -25, -256, math.MinInt64}
	if g.class >= 0 && !neg {
		return c[g.class%len(c)] // every integer of this instance is drawn from one class (classes are enumerated per shape)
	}
	if neg {
		c = []int{-1, -24, -25, -256, math.MinInt64, -g.rng.Intn(1<<40) - 1}
	}
	return c[g.rng.Intn(len(c))]
}
func (g *c11gen) opt(state string, v int) **int {
	switch state {
	case "omitted":
		return nil
	case "null":
		var p *int
		return &p
	}
	return c11pp(v)
}
func c11pp(v int) **int { p := &v; return &p }

func (g *c11gen) frame(s c11Frame) ipldbindcode.DataFrame {
	d := make([]byte, []int{0, 1, 40, 5000, 200000}[g.rng.Intn(5)])
	if len(d) > 5000 && g.rng.Intn(4) != 0 {
		d = d[:100]
	}
	g.rng.Read(d)
	f := ipldbindcode.DataFrame{Kind: 6, Hash: g.opt(s.Hash, g.int_(g.rng.Intn(3) == 0)), Index: g.opt(s.Index, g.int_(false)), Total: g.opt(s.Total, g.int_(false)), Data: d}
	switch s.Next {
	case "null":
		var p *ipldbindcode.List__Link
		f.Next = &p
	case "present":
		n := s.Nlinks
		if n == 2 {
			n = g.length(2)
			if n > 300 {
				n = 300
			}
		}
		l := g.links(n)
		p := &l
		f.Next = &p
	}
	return f
}

func (g *c11gen) node(c *c11Case) any {
	switch c.Kind {
	case "dataframe":
		f := g.frame(c.Frame)
		return &f
	case "transaction":
		return &ipldbindcode.Transaction{Kind: 0, Data: g.frame(c.Frame), Metadata: g.frame(c.Frame2), Slot: g.int_(false), Index: g.opt(c.Opt, g.int_(false))}
	case "rewards":
		return &ipldbindcode.Rewards{Kind: 5, Slot: g.int_(false), Data: g.frame(c.Frame)}
	case "entry":
		h := make([]byte, []int{0, 1, 32, 64}[g.rng.Intn(4)])
		g.rng.Read(h)
		return &ipldbindcode.Entry{Kind: 1, NumHashes: g.int_(false), Hash: h, Transactions: g.links(g.length(c.Nlist))}
	case "block":
		shr := ipldbindcode.List__Shredding{}
		for i := g.length(c.Nlist); i > 0 && len(shr) < 30000; i-- {
			shr = append(shr, ipldbindcode.Shredding{EntryEndIdx: g.int_(false), ShredEndIdx: []int{-1, g.int_(false)}[g.rng.Intn(2)]})
		}
		return &ipldbindcode.Block{Kind: 2, Slot: g.int_(false), Shredding: shr, Entries: g.links(g.length(c.Nlist)),
			Meta: ipldbindcode.SlotMeta{Parent_slot: g.int_(false), Blocktime: g.int_(false), Block_height: g.opt(c.Opt, g.int_(false))}, Rewards: g.link()}
	case "subset":
		return &ipldbindcode.Subset{Kind: 3, First: g.int_(false), Last: g.int_(false), Blocks: g.links(g.length(c.Nlist))}
	default:
		return &ipldbindcode.Epoch{Kind: 4, Epoch: g.int_(false), Subsets: g.links(g.length(c.Nlist))}
	}
}

// accessor-visible projection: optional-nullable fields (**T) read as "none" when absent or null; link lists as sequences
// (absent, null and empty all read as an empty sequence)
func c11proj(v reflect.Value) any {
	switch v.Kind() {
	case reflect.Ptr, reflect.Interface:
		if v.IsNil() {
			if v.Kind() == reflect.Ptr && (v.Type().Elem().Kind() == reflect.Ptr) {
				inner := v.Type().Elem().Elem()
				if inner.Kind() == reflect.Slice {
					return []any{}
				}
			}
			if v.Kind() == reflect.Ptr && v.Type().Elem().Kind() == reflect.Slice {
				return []any{}
			}
			return "none"
		}
		return c11proj(v.Elem())
	case reflect.Slice:
		if v.Type().Elem().Kind() == reflect.Uint8 {
			return fmt.Sprintf("%x", v.Bytes())
		}
		out := []any{}
		for i := 0; i < v.Len(); i++ {
			out = append(out, c11proj(v.Index(i)))
		}
		return out
	case reflect.Struct:
		if c, ok := v.Interface().(cidlink.Link); ok {
			return c.Cid.String()
		}
		m := map[string]any{}
		for i := 0; i < v.NumField(); i++ {
			if v.Type().Field(i).IsExported() {
				m[v.Type().Field(i).Name] = c11proj(v.Field(i))
			}
		}
		return m
	default:
		return fmt.Sprint(v.Interface())
	}
}

func c11framePresence(f *ipldbindcode.DataFrame, s c11Frame) bool {
	_, h := f.GetHash()
	_, i := f.GetIndex()
	_, t := f.GetTotal()
	nx, n := f.GetNext()
	okNext := n == (s.Next == "present") || (len(nx) == 0 && s.Nlinks == 0) // an absent and an empty list are the same to callers
	return h == (s.Hash == "present") && i == (s.Index == "present") && t == (s.Total == "present") && okNext
}

type c11dec struct {
	kind    string
	fast    func([]byte) (any, error)
	classic func([]byte) (any, error)
}

var c11decs = []c11dec{
	{"transaction", func(b []byte) (any, error) { return _DecodeTransactionFast(b) }, func(b []byte) (any, error) { return _DecodeTransactionClassic(b) }},
	{"entry", func(b []byte) (any, error) { return _DecodeEntryFast(b) }, func(b []byte) (any, error) { return _DecodeEntryClassic(b) }},
	{"block", func(b []byte) (any, error) { return _DecodeBlockFast(b) }, func(b []byte) (any, error) { return _DecodeBlockClassic(b) }},
	{"subset", func(b []byte) (any, error) { return _DecodeSubsetFast(b) }, func(b []byte) (any, error) { return _DecodeSubsetClassic(b) }},
	{"epoch", func(b []byte) (any, error) { return _DecodeEpochFast(b) }, func(b []byte) (any, error) { return _DecodeEpochClassic(b) }},
	{"rewards", func(b []byte) (any, error) { return _DecodeRewardsFast(b) }, func(b []byte) (any, error) { return _DecodeRewardsClassic(b) }},
	{"dataframe", func(b []byte) (any, error) { return _DecodeDataFrameFast(b) }, func(b []byte) (any, error) { return _DecodeDataFrameClassic(b) }},
}

func c11check(c *c11Case, raw []byte) c11Inst {
	x := c11Inst{Encoded: true, Presence: true}
	var fast, classic any
	var ferr, cerr error
	for _, d := range c11decs {
		if d.kind == c.Kind {
			if p := vt.Guard(func() { fast, ferr = d.fast(raw) }); p != "" {
				ferr = fmt.Errorf("%s", p)
			}
			if p := vt.Guard(func() { classic, cerr = d.classic(raw) }); p != "" {
				cerr = fmt.Errorf("%s", p)
			}
		} else {
			var e error
			if p := vt.Guard(func() { _, e = d.fast(raw) }); p == "" && e == nil {
				x.Cross = true
				x.Detail += "accepted by the " + d.kind + " decoder; "
			}
		}
	}
	// the kind-dispatching entry point (GetKind + DecodeAny: what the DAG traverser and the dump tools call) is part of
	// "the hand-written decoder": it has to accept the node as the same kind with the same content
	if ferr == nil {
		var av any
		var aerr error
		if p := vt.Guard(func() { av, aerr = DecodeAny(raw) }); p != "" {
			aerr = fmt.Errorf("%s", p)
		}
		switch {
		case aerr != nil:
			ferr = fmt.Errorf("DecodeAny: %v", aerr)
		case reflect.TypeOf(av) != reflect.TypeOf(fast):
			ferr = fmt.Errorf("DecodeAny returned a %T for a %s node", av, c.Kind)
		case !reflect.DeepEqual(c11proj(reflect.ValueOf(av)), c11proj(reflect.ValueOf(fast))):
			ferr = fmt.Errorf("DecodeAny and the %s decoder disagree", c.Kind)
		}
	}
	x.Fastok, x.Classicok = ferr == nil, cerr == nil
	if ferr != nil {
		x.Detail += "fast: " + ferr.Error() + "; "
	}
	if cerr != nil {
		x.Detail += "classic: " + cerr.Error() + "; "
	}
	if x.Fastok && x.Classicok {
		a, b := c11proj(reflect.ValueOf(fast)), c11proj(reflect.ValueOf(classic))
		x.Same = reflect.DeepEqual(a, b)
		if !x.Same {
			ja, _ := json.Marshal(a)
			jb, _ := json.Marshal(b)
			if len(ja) > 300 {
				ja = ja[:300]
			}
			if len(jb) > 300 {
				jb = jb[:300]
			}
			x.Detail += fmt.Sprintf("fast=%s classic=%s", ja, jb)
		}
		if c.Kind != "" {
			switch n := fast.(type) {
			case *ipldbindcode.DataFrame:
				x.Presence = c11framePresence(n, c.Frame)
			case *ipldbindcode.Transaction:
				_, hi := n.GetPositionIndex()
				x.Presence = c11framePresence(&n.Data, c.Frame) && c11framePresence(&n.Metadata, c.Frame2) && hi == (c.Opt == "present")
			case *ipldbindcode.Rewards:
				x.Presence = c11framePresence(&n.Data, c.Frame)
			case *ipldbindcode.Block:
				_, hh := n.GetBlockHeight()
				x.Presence = hh == (c.Opt == "present")
			}
		}
	}
	if len(x.Detail) > 700 {
		x.Detail = x.Detail[:700]
	}
	return x
}

func TestVerifC11(t *testing.T) {
	out := vt.Out(t)
	defer out.Close()
	g := &c11gen{rng: vt.Rand(), class: -1}
	var prevEnc []byte
	ninst := 2
	if !vt.Quick() {
		ninst = 5
	}
	for ci, raw := range vt.Cases(t) {
		var c c11Case
		if err := json.Unmarshal(raw, &c); err != nil {
			t.Fatal(err)
		}
		o := c11Obs{c11Case: c, Case: ci + 1}
		n := ninst
		if c.Kind != "transaction" {
			n = 17 // one instance per integer class (the list-length classes rotate with it)
		}
		for k := 0; k < n; k++ {
			g.class = -1
			if c.Kind != "transaction" || k == 0 {
				g.class = k + ci // transactions: one class-driven instance per shape, rotating over the classes
			}
			enc, err := c11enc(g.node(&c))
			if err != nil {
				o.Instances = append(o.Instances, c11Inst{Encoded: false, Detail: err.Error()})
				continue
			}
			// what a decoder returns for a conforming node must not depend on what it was fed before: the previous node is
			// decoded again truncated and with trailing bytes (results ignored) before this one
			if prevEnc != nil {
				DecodeAny(prevEnc[:len(prevEnc)/2])
				DecodeAny(append(append([]byte{}, prevEnc...), enc...))
				DecodeAny([]byte{0x9f, 0x00})
			}
			prevEnc = enc
			o.Instances = append(o.Instances, c11check(&c, enc))
		}
		out.Emit(o)
	}
	// every node of the fixture CARs
	files, _ := filepath.Glob("fixtures/*.car")
	if len(files) == 0 {
		files, _ = filepath.Glob("../fixtures/*.car")
	}
	for _, fn := range files {
		f, err := os.Open(fn)
		if err != nil {
			continue
		}
		cr, err := carv1.NewCarReader(f)
		if err != nil {
			f.Close()
			continue
		}
		o := c11Obs{c11Case: c11Case{Kind: "fixture:" + filepath.Base(fn)}, Case: 0}
		for {
			blk, err := cr.Next()
			if err != nil {
				break
			}
			data := blk.RawData()
			if len(data) < 2 {
				continue
			}
			k := Kind(data[1])
			cc := c11Case{Kind: map[Kind]string{KindTransaction: "transaction", KindEntry: "entry", KindBlock: "block", KindSubset: "subset", KindEpoch: "epoch", KindRewards: "rewards", KindDataFrame: "dataframe"}[k]}
			x := c11check(&cc, data)
			x.Presence = true // the shape of a fixture node is not known: only agreement and cross-kind rejection are judged
			if len(o.Instances) < 3000 {
				o.Instances = append(o.Instances, x)
			}
		}
		f.Close()
		out.Emit(o)
	}
}
