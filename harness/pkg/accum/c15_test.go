package accum

// C15 replayer (R3): TLC-generated CAR layouts + reader/flusher schedules forced on the real
// ObjectAccumulator through a gated io.Reader (one section per granted Read) and a gated callback;
// plus free-running runs (instantaneous / slow / randomly delayed consumer, GOMAXPROCS 1..16, blocks with
// more children than the preallocation, more pending groups than the queue capacity).

import (
	"bytes"
	"context"
	"encoding/json"
	"fmt"
	"io"
	"math/rand"
	"runtime"
	"testing"
	"time"

	"github.com/ipfs/go-cid"
	carv1 "github.com/ipld/go-car"
	"github.com/ipld/go-car/util"
	"github.com/multiformats/go-multicodec"
	"github.com/rpcpool/yellowstone-faithful/carreader"
	"github.com/rpcpool/yellowstone-faithful/iplddecoders"
	"github.com/rpcpool/yellowstone-faithful/zzverif/vt"
)

type c15Sec struct {
	Kind string `json:"kind"` // F (flush kind = Block), K (kept), I (ignored)
	Body int    `json:"body"` // len(cid)+len(data)
	Off  uint64 `json:"off"`  // true offset, measured while writing
}

type c15Case struct {
	Hdr int      `json:"hdr"`
	Cap int      `json:"cap"`
	Car []c15Sec `json:"car"`
	Ev  []string `json:"ev"`
}

type c15Group struct {
	Parent [3]uint64   `json:"parent"`
	Kids   [][3]uint64 `json:"kids"`
}

type c15Obs struct {
	Kind      string     `json:"kind"`
	Case      int        `json:"case"`
	Mode      string     `json:"mode"`
	Hdr       uint64     `json:"hdr"`
	Car       []c15Sec   `json:"car"`
	Ignore    []int      `json:"ignore"`
	Delivered []c15Group `json:"delivered"`
	Err       string     `json:"err"`
	Late      bool       `json:"late"`
	Diverged  string     `json:"diverged"`
}

func c15cid(data []byte) cid.Cid {
	bd := cid.V1Builder{MhLength: -1, MhType: uint64(multicodec.Sha2_256), Codec: uint64(multicodec.DagCbor)}
	c, err := bd.Sum(data)
	if err != nil {
		panic(err)
	}
	return c
}

// node bytes of exactly n bytes whose second byte is the kind: CBOR array [kind, bytes(pad)]
func c15node(kind byte, n int, salt uint64) []byte {
	if n < 12 {
		n = 12
	}
	var hdr []byte
	var l int
	switch {
	case n-3 < 24:
		l = n - 3
		hdr = []byte{0x40 + byte(l)}
	case n-4 < 256 && n-4 >= 24:
		l = n - 4
		hdr = []byte{0x58, byte(l)}
	default:
		l = n - 5
		hdr = []byte{0x59, byte(l >> 8), byte(l)}
	}
	out := append([]byte{0x82, kind}, hdr...)
	pad := make([]byte, l)
	for i := range pad {
		pad[i] = byte(salt >> (8 * (uint(i) % 8)))
		salt = salt*6364136223846793005 + 1442695040888963407
	}
	return append(out, pad...)
}

type c15Built struct {
	chunks [][]byte // chunk 0 = header, then one chunk per section
	secs   []c15Sec
	hdr    uint64
	cids   map[string]int
}

// concrete kind bytes: F -> Block(2); K / I drawn from the remaining kinds according to the ignore set
func c15build(secs []c15Sec, ignore []int, rng *rand.Rand) *c15Built {
	b := &c15Built{cids: map[string]int{}}
	ign := map[int]bool{}
	for _, k := range ignore {
		ign[k] = true
	}
	var keep, igs []byte
	for _, k := range []int{0, 1, 3, 4, 5, 6} {
		if ign[k] {
			igs = append(igs, byte(k))
		} else {
			keep = append(keep, byte(k))
		}
	}
	var hb bytes.Buffer
	if err := carv1.WriteHeader(&carv1.CarHeader{Roots: []cid.Cid{c15cid([]byte("root"))}, Version: 1}, &hb); err != nil {
		panic(err)
	}
	b.hdr = uint64(hb.Len())
	b.chunks = append(b.chunks, hb.Bytes())
	off := b.hdr
	for j, s := range secs {
		var kind byte
		switch s.Kind {
		case "F":
			kind = 2
		case "K":
			kind = keep[rng.Intn(len(keep))]
		default:
			kind = igs[rng.Intn(len(igs))]
		}
		data := c15node(kind, s.Body-36, uint64(j+1)*7919+uint64(rng.Int63()))
		c := c15cid(data)
		var sb bytes.Buffer
		if err := util.LdWrite(&sb, c.Bytes(), data); err != nil {
			panic(err)
		}
		b.secs = append(b.secs, c15Sec{Kind: s.Kind, Body: len(c.Bytes()) + len(data), Off: off})
		b.cids[c.KeyString()] = j + 1
		off += uint64(sb.Len())
		b.chunks = append(b.chunks, sb.Bytes())
	}
	return b
}

type c15arrival struct{ who string }

// gated reader: the header is served freely; every section (and the final EOF) needs a grant
type c15Reader struct {
	chunks [][]byte
	i      int
	rest   []byte
	arrive chan c15arrival
	grant  chan struct{}
	free   *bool
}

func (r *c15Reader) Read(p []byte) (int, error) {
	if len(r.rest) > 0 {
		n := copy(p, r.rest)
		r.rest = r.rest[n:]
		return n, nil
	}
	if r.i > 0 && r.arrive != nil && !*r.free {
		r.arrive <- c15arrival{"R"}
		<-r.grant
	}
	if r.i >= len(r.chunks) {
		return 0, io.EOF
	}
	c := r.chunks[r.i]
	r.i++
	n := copy(p, c)
	r.rest = c[n:]
	return n, nil
}
func (r *c15Reader) Close() error { return nil }

type c15Sink struct {
	b      *c15Built
	groups []c15Group
	live   [][]ObjectWithMetadata // the slices as delivered (to detect later mutation)
	livep  []*ObjectWithMetadata
}

func (s *c15Sink) conv(o *ObjectWithMetadata) [3]uint64 {
	if o == nil {
		return [3]uint64{0, 0, 0}
	}
	id := uint64(s.b.cids[o.Cid.KeyString()])
	// delivering an object means delivering ITS bytes: data that does not hash to the object's CID is another object's
	// (id 0 = no object of the CAR), at delivery time and later (late-mutation check)
	if id != 0 && !c15cid(o.ObjectData).Equals(o.Cid) {
		id = 0
	}
	return [3]uint64{id, o.Offset, o.SectionLength}
}

func (s *c15Sink) record(parent *ObjectWithMetadata, kids []ObjectWithMetadata) {
	g := c15Group{Parent: s.conv(parent), Kids: [][3]uint64{}}
	for i := range kids {
		g.Kids = append(g.Kids, s.conv(&kids[i]))
	}
	s.groups = append(s.groups, g)
	s.live = append(s.live, kids)
	s.livep = append(s.livep, parent)
}

// late reports whether something delivered earlier was modified afterwards
func (s *c15Sink) late() bool {
	for gi, g := range s.groups {
		if s.conv(s.livep[gi]) != g.Parent || len(s.live[gi]) != len(g.Kids) {
			return true
		}
		for i := range s.live[gi] {
			if s.conv(&s.live[gi][i]) != g.Kids[i] {
				return true
			}
		}
	}
	return false
}

func c15ignoreKinds(ignore []int) []iplddecoders.Kind {
	var out []iplddecoders.Kind
	for _, k := range ignore {
		out = append(out, iplddecoders.Kind(k))
	}
	return out
}

func c15gated(c *c15Case, b *c15Built, ignore []int) (o c15Obs) {
	o = c15Obs{Kind: "gated", Mode: "schedule", Hdr: b.hdr, Car: b.secs, Ignore: ignore, Delivered: []c15Group{}}
	free := false
	arrive := make(chan c15arrival, 4)
	rd := &c15Reader{chunks: b.chunks, arrive: arrive, grant: make(chan struct{}), free: &free}
	cbGrant := make(chan struct{})
	cbDone := make(chan struct{}, 4)
	sink := &c15Sink{b: b}
	cr, err := carreader.New(rd)
	if err != nil {
		o.Err = "carreader.New: " + err.Error()
		return
	}
	cb := func(parent *ObjectWithMetadata, kids []ObjectWithMetadata) error {
		if !free {
			arrive <- c15arrival{"F"}
			<-cbGrant
		}
		sink.record(parent, kids)
		if !free {
			cbDone <- struct{}{}
		}
		return nil
	}
	acc := NewObjectAccumulator(cr, iplddecoders.KindBlock, cb, c15ignoreKinds(ignore)...)
	runDone := make(chan string, 1)
	go func() {
		var e error
		p := vt.Guard(func() { e = acc.Run(context.Background()) })
		switch {
		case p != "":
			runDone <- p
		case e != nil:
			runDone <- "Run: " + e.Error()
		default:
			runDone <- ""
		}
	}()
	parked := map[string]bool{}
	finished := false
	wait := func(who string, d time.Duration) bool {
		deadline := time.After(d)
		for !parked[who] {
			select {
			case a := <-arrive:
				parked[a.who] = true
			case e := <-runDone:
				finished, o.Err = true, e
				return false
			case <-deadline:
				return false
			}
		}
		return true
	}
	for i, e := range c.Ev {
		if !wait(e, 3*time.Second) {
			o.Diverged = fmt.Sprintf("step %d: schedule wants %s but it is not at its gate (finished=%v)", i, e, finished)
			break
		}
		parked[e] = false
		if e == "R" {
			rd.grant <- struct{}{}
		} else {
			cbGrant <- struct{}{}
			select {
			case <-cbDone:
			case <-time.After(3 * time.Second):
				o.Diverged = fmt.Sprintf("step %d: callback did not return", i)
			}
		}
		if o.Diverged != "" {
			break
		}
	}
	// let everything run to completion
	deadline := time.After(20 * time.Second)
	for !finished {
		select {
		case a := <-arrive:
			if o.Diverged == "" {
				o.Diverged = "extra " + a.who + " step after the end of the schedule"
			}
			if a.who == "R" {
				rd.grant <- struct{}{}
			} else {
				cbGrant <- struct{}{}
				<-cbDone
			}
		case e := <-runDone:
			finished, o.Err = true, e
		case <-deadline:
			o.Err = "HANG: Run did not return"
			finished = true
		default:
			for who, p := range parked {
				if p {
					parked[who] = false
					if who == "R" {
						rd.grant <- struct{}{}
					} else {
						cbGrant <- struct{}{}
						<-cbDone
					}
				}
			}
			time.Sleep(200 * time.Microsecond)
		}
	}
	o.Delivered = sink.groups
	if o.Delivered == nil {
		o.Delivered = []c15Group{}
	}
	o.Late = sink.late()
	return
}

func c15free(b *c15Built, ignore []int, mode string, rng *rand.Rand) (o c15Obs) {
	o = c15Obs{Kind: "free", Mode: mode, Hdr: b.hdr, Car: b.secs, Ignore: ignore, Delivered: []c15Group{}}
	free := true
	rd := &c15Reader{chunks: b.chunks, free: &free}
	if mode == "bulkread" { // the whole file in one Read, as from a local file
		all := bytes.Join(b.chunks, nil)
		rd = &c15Reader{chunks: [][]byte{all}, free: &free}
	}
	cr, err := carreader.New(rd)
	if err != nil {
		o.Err = "carreader.New: " + err.Error()
		return
	}
	sink := &c15Sink{b: b}
	seed := rng.Int63()
	drng := rand.New(rand.NewSource(seed))
	cb := func(parent *ObjectWithMetadata, kids []ObjectWithMetadata) error {
		switch mode {
		case "slow":
			time.Sleep(300 * time.Microsecond)
		case "random":
			if drng.Intn(3) == 0 {
				time.Sleep(time.Duration(drng.Intn(400)) * time.Microsecond)
			} else {
				runtime.Gosched()
			}
		}
		sink.record(parent, kids)
		if mode == "appender" && parent != nil {
			// what the CAR splitter does with a delivered group: family := append(children, *parent) - a write into the
			// spare capacity of the delivered slice, which therefore must not be shared with the reader any more
			fam := append(kids, *parent)
			_ = fam
			if drng.Intn(2) == 0 {
				time.Sleep(50 * time.Microsecond) // let the reader run ahead
			}
		}
		return nil
	}
	acc := NewObjectAccumulator(cr, iplddecoders.KindBlock, cb, c15ignoreKinds(ignore)...)
	done := make(chan string, 1)
	go func() {
		var e error
		p := vt.Guard(func() { e = acc.Run(context.Background()) })
		switch {
		case p != "":
			done <- p
		case e != nil:
			done <- "Run: " + e.Error()
		default:
			done <- ""
		}
	}()
	select {
	case e := <-done:
		o.Err = e
	case <-time.After(120 * time.Second):
		o.Err = "HANG: Run did not return within 120 s"
		return
	}
	o.Delivered = sink.groups
	if o.Delivered == nil {
		o.Delivered = []c15Group{}
	}
	o.Late = sink.late()
	return
}

var c15small = []int{40, 41, 60, 100, 126, 127}
var c15large = []int{128, 129, 130, 300, 16383, 16384, 16385, 16400, 16511, 16512, 20000}

func c15concrete(secs []c15Sec, rng *rand.Rand) []c15Sec {
	out := make([]c15Sec, len(secs))
	for i, s := range secs {
		out[i] = s
		if s.Body <= 127 {
			out[i].Body = c15small[rng.Intn(len(c15small))]
		} else {
			out[i].Body = c15large[rng.Intn(len(c15large))]
		}
	}
	return out
}

// ("every ignore-set": also sets that name the flush kind itself - a block is the group delimiter whatever the set says)
var c15ignoreSets = [][]int{{1}, {1, 5}, {1, 5, 6}, {0, 1, 5, 6}, {3, 4}, {1, 3, 4, 5, 6}, {1, 2}, {2, 5, 6}}

func TestVerifC15(t *testing.T) {
	cases := vt.Cases(t)
	out := vt.Out(t)
	defer out.Close()
	rng := vt.Rand()
	for i, raw := range cases {
		var c c15Case
		if err := json.Unmarshal(raw, &c); err != nil {
			t.Fatal(err)
		}
		ignore := c15ignoreSets[rng.Intn(len(c15ignoreSets))]
		b := c15build(c15concrete(c.Car, rng), ignore, rng)
		o := c15gated(&c, b, ignore)
		o.Case = i + 1
		out.Emit(o)
		if i%5 == 0 { // the same layout free-running, whole file in one Read
			o2 := c15free(b, ignore, "bulkread", rng)
			o2.Case = i + 1
			out.Emit(o2)
		}
	}
	t.Logf("gated cases=%d", len(cases))
}

// free-running runs at real scale (unmodified queue capacity and preallocation)
func TestVerifC15Free(t *testing.T) {
	out := vt.Out(t)
	defer out.Close()
	rng := vt.Rand()
	type shape struct {
		name   string
		blocks int
		kids   func(i int) int
		trail  int
	}
	shapes := []shape{
		{"many-small-groups", 1500, func(i int) int { return i % 4 }, 3},
		{"over-preallocation", 3, func(i int) int { return []int{5001, 0, 4999}[i] }, 0},
		{"exact-preallocation", 2, func(i int) int { return 5000 }, 5000},
		{"no-blocks", 0, func(i int) int { return 0 }, 7},
		{"trailing-only-ignored", 2, func(i int) int { return 2 }, 0},
	}
	n := 0
	procs := []int{1, 2, 16}
	for si, sh := range shapes {
		if vt.Quick() && si == 2 {
			continue
		}
		var secs []c15Sec
		for bl := 0; bl < sh.blocks; bl++ {
			for k := 0; k < sh.kids(bl); { // sh.kids counts the *kept* children of the block
				kind := "K"
				if rng.Intn(4) == 0 {
					kind = "I"
				} else {
					k++
				}
				secs = append(secs, c15Sec{Kind: kind, Body: 100 + 28*rng.Intn(2)})
			}
			secs = append(secs, c15Sec{Kind: "F", Body: 100 + 28*rng.Intn(2)})
		}
		for k := 0; k < sh.trail; k++ {
			kind := "K"
			if sh.name == "trailing-only-ignored" || rng.Intn(5) == 0 {
				kind = "I"
			}
			secs = append(secs, c15Sec{Kind: kind, Body: 120 + rng.Intn(16)})
		}
		ignore := c15ignoreSets[rng.Intn(len(c15ignoreSets))]
		b := c15build(c15concrete(secs, rng), ignore, rng)
		for mi, mode := range []string{"instant", "slow", "random", "bulkread", "appender"} {
			if len(secs) > 4000 && mode == "slow" {
				continue
			}
			old := runtime.GOMAXPROCS(procs[(si+mi)%len(procs)])
			o := c15free(b, ignore, mode, rng)
			runtime.GOMAXPROCS(old)
			o.Case = n
			o.Mode = sh.name + "/" + mode + fmt.Sprintf("/procs=%d", procs[(si+mi)%len(procs)])
			n++
			out.Emit(o)
		}
	}
	t.Logf("free runs=%d", n)
}
