package main

// C14 replayer (R3): every (frame count, fan-out, fault) of spec/DataFrames.tla, with seeded payloads (0..200 KiB),
// CRC64 / legacy FNV / no checksum, the frame chain on the metadata or on the transaction-data side; executed through
// tooling.LoadDataFromDataFrames, getTransactionAndMetaFromNode, parseTransactionAndMetaFromNode (storage.go) and
// accum.ObjectsToTransactionsAndMetadata. Results of earlier reassemblies are compared again after later ones.

import (
	"bytes"
	"context"
	"encoding/json"
	"fmt"
	"hash/crc64"
	"hash/fnv"
	"math/rand"
	"sync"
	"testing"

	"github.com/gagliardetto/solana-go"
	"github.com/ipfs/go-cid"
	"github.com/ipld/go-ipld-prime/codec/dagcbor"
	cidlink "github.com/ipld/go-ipld-prime/linking/cid"
	"github.com/ipld/go-ipld-prime/node/bindnode"
	"github.com/multiformats/go-multicodec"
	"github.com/rpcpool/yellowstone-faithful/accum"
	"github.com/rpcpool/yellowstone-faithful/ipld/ipldbindcode"
	"github.com/rpcpool/yellowstone-faithful/iplddecoders"
	old_faithful_grpc "github.com/rpcpool/yellowstone-faithful/old-faithful-proto/old-faithful-grpc"
	"github.com/rpcpool/yellowstone-faithful/third_party/solana_proto/confirmed_block"
	"github.com/rpcpool/yellowstone-faithful/tooling"
	"github.com/rpcpool/yellowstone-faithful/zzverif/fixture"
	"github.com/rpcpool/yellowstone-faithful/zzverif/vt"
	"google.golang.org/protobuf/proto"
)

type c14Case struct {
	N     int `json:"n"`
	Fan   int `json:"fan"`
	Fault struct {
		Kind string `json:"kind"`
		I    int    `json:"i"`
		J    int    `json:"j"`
	} `json:"fault"`
}

type c14Obs struct {
	Case     int    `json:"case"`
	N        int    `json:"n"`
	Fan      int    `json:"fan"`
	Fault    any    `json:"fault"`
	Checksum string `json:"checksum"`
	Side     string `json:"side"`
	Size     int    `json:"size"`
	Via      string `json:"via"`
	Outcome  string `json:"outcome"`
	Late     bool   `json:"late"`
	Detail   string `json:"detail"`
}

func c14cid(data []byte) cid.Cid {
	bd := cid.V1Builder{MhLength: -1, MhType: uint64(multicodec.Sha2_256), Codec: uint64(multicodec.DagCbor)}
	c, _ := bd.Sum(data)
	return c
}

func c14pp(i int) **int { p := &i; return &p }

func c14encodeFrame(f *ipldbindcode.DataFrame) []byte {
	n := bindnode.Wrap(f, ipldbindcode.Prototypes.DataFrame.Type()).Representation()
	var buf bytes.Buffer
	if err := dagcbor.Encode(n, &buf); err != nil {
		panic(err)
	}
	return buf.Bytes()
}

func c14checksum(kind string, payload []byte) (int, bool) {
	switch kind {
	case "crc64":
		return int(crc64.Checksum(payload, crc64.MakeTable(crc64.ISO))), true
	case "fnv":
		h := fnv.New64a()
		h.Write(payload)
		return int(h.Sum64()), true
	}
	return 0, false
}

type c14chain struct {
	first  ipldbindcode.DataFrame
	store  map[string]*ipldbindcode.DataFrame // cid -> frame (continuation frames)
	order  []cid.Cid                          // cids by frame index (index 0 = undefined)
	frames []ipldbindcode.DataFrame
}

// build the chain of n frames over payload with the schema-comment layout; tag distinguishes payloads
func c14build(payload []byte, n, fan int, checksum string) *c14chain {
	ch := &c14chain{store: map[string]*ipldbindcode.DataFrame{}, order: make([]cid.Cid, n), frames: make([]ipldbindcode.DataFrame, n)}
	hash, hasHash := c14checksum(checksum, payload)
	sz := (len(payload) + n - 1) / n
	for i := n - 1; i >= 0; i-- {
		lo, hi := i*sz, (i+1)*sz
		if lo > len(payload) {
			lo = len(payload)
		}
		if hi > len(payload) {
			hi = len(payload)
		}
		next := ipldbindcode.List__Link{}
		if i%fan == 0 {
			for j := i + 1; j <= i+fan && j < n; j++ {
				next = append(next, cidlink.Link{Cid: ch.order[j]})
			}
		}
		np := &next
		fr := ipldbindcode.DataFrame{Kind: 6, Data: payload[lo:hi], Next: &np}
		if hasHash {
			fr.Hash, fr.Index, fr.Total = c14pp(hash), c14pp(i), c14pp(n)
		} else if n > 1 {
			fr.Index = c14pp(i) // legacy frames still carry their index
		}
		ch.frames[i] = fr
		if i > 0 {
			c := c14cid(c14encodeFrame(&fr))
			ch.order[i] = c
			f2 := fr
			ch.store[c.KeyString()] = &f2
		}
	}
	ch.first = ch.frames[0]
	return ch
}

func TestVerifC14(t *testing.T) {
	out := vt.Out(t)
	defer out.Close()
	rng := rand.New(rand.NewSource(vt.Seed()))
	type kept struct {
		got  []byte
		want []byte
		o    *c14Obs
	}
	var earlier []kept
	var all []*c14Obs
	checksums := []string{"crc64", "crc64", "fnv", "none"}
	for ci, raw := range vt.Cases(t) {
		var c c14Case
		if err := json.Unmarshal(raw, &c); err != nil {
			t.Fatal(err)
		}
		for rep := 0; rep < 2; rep++ {
			checksum := checksums[(ci+rep)%len(checksums)]
			side := []string{"meta", "data"}[(ci+rep)%2]
			// payloads: the metadata payload is zstd(protobuf) so that every consumer can parse it
			logLen := []int{0, 40, 700, 5000, 60000, 200000}[rng.Intn(6)]
			mk := func(tag byte) (compressed []byte, plain []byte) {
				logb := make([]byte, logLen)
				rng.Read(logb)
				m := &confirmed_block.TransactionStatusMeta{Fee: 5000 + uint64(tag), LogMessages: []string{fmt.Sprintf("%x", logb)}}
				plain, _ = proto.Marshal(m)
				compressed, _ = tooling.CompressZstd(plain)
				return
			}
			metaZ, metaPlain := mk(1)
			otherZ, _ := mk(2)
			// a real transaction
			mktx := func(seed int) []byte {
				var sig solana.Signature
				rng.Read(sig[:])
				pad := make([]byte, 10+rng.Intn(600))
				rng.Read(pad)
				tx := &solana.Transaction{Signatures: []solana.Signature{sig}, Message: solana.Message{
					AccountKeys: []solana.PublicKey{{1, byte(seed)}, solana.SystemProgramID}, Header: solana.MessageHeader{NumRequiredSignatures: 1, NumReadonlyUnsignedAccounts: 1},
					Instructions: []solana.CompiledInstruction{{ProgramIDIndex: 1, Accounts: []uint16{0}, Data: pad}}}}
				b, _ := tx.MarshalBinary()
				return b
			}
			txb, otherTx := mktx(1), mktx(2)
			payload, other := metaZ, otherZ
			if side == "data" {
				payload, other = txb, otherTx
			}
			// the empty payload (the property's sizes start at 0; its CRC64 is 0, the value a decoder may mistake for "no
			// checksum"): every fourth case replays its second repetition with it, through the reassembly function only
			if rep == 1 && ci%4 == 1 {
				payload, other, side, checksum = []byte{}, []byte("frame of another payload"), "raw", "crc64"
			}
			if c.N > len(payload) && len(payload) > 0 {
				continue
			}
			ch := c14build(payload, c.N, c.Fan, checksum)
			och := c14build(other, c.N, c.Fan, checksum)
			// apply the fault to the frame store / the first frame
			missing := map[string]bool{}
			first := ch.first
			setFrame := func(i int, f ipldbindcode.DataFrame) {
				if i == 0 {
					first = f
				} else {
					f2 := f
					ch.store[ch.order[i].KeyString()] = &f2
				}
			}
			switch c.Fault.Kind {
			case "drop":
				missing[ch.order[c.Fault.I].KeyString()] = true
			case "flip":
				f := ch.frames[c.Fault.I]
				d := append([]byte{}, f.Data...)
				if len(d) == 0 {
					d = []byte{0x55}
				} else {
					d[rng.Intn(len(d))] ^= 1 << uint(rng.Intn(8))
				}
				f.Data = d
				setFrame(c.Fault.I, f)
			case "swap":
				f := ch.frames[c.Fault.I]
				f.Data = och.frames[c.Fault.I].Data // the frame of another payload, under this payload's header fields
				if bytes.Equal(f.Data, ch.frames[c.Fault.I].Data) {
					f.Data = append(append([]byte{}, f.Data...), 0x01)
				}
				setFrame(c.Fault.I, f)
			case "dup":
				// frame i is linked a second time from its group head
				head := ((c.Fault.I - 1) / c.Fan) * c.Fan
				f := ch.frames[head]
				if head != c.Fault.I {
					nx := append(ipldbindcode.List__Link{}, **f.Next...)
					nx = append(nx, cidlink.Link{Cid: ch.order[c.Fault.I]})
					np := &nx
					f.Next = &np
					setFrame(head, f)
				}
			case "renumber":
				fi, fj := ch.frames[c.Fault.I], ch.frames[c.Fault.J]
				if fi.Index != nil && fj.Index != nil {
					fi.Index, fj.Index = c14pp(c.Fault.J), c14pp(c.Fault.I)
					setFrame(c.Fault.I, fi)
					setFrame(c.Fault.J, fj)
				}
			}
			getter := func(ctx context.Context, want cid.Cid) (*ipldbindcode.DataFrame, error) {
				if missing[want.KeyString()] {
					return nil, fmt.Errorf("frame %s not found", want)
				}
				if f, ok := ch.store[want.KeyString()]; ok {
					return f, nil
				}
				return nil, fmt.Errorf("frame %s not found", want)
			}
			single := func(b []byte) ipldbindcode.DataFrame {
				h, _ := c14checksum("crc64", b)
				return ipldbindcode.DataFrame{Kind: 6, Hash: c14pp(h), Index: c14pp(0), Total: c14pp(1), Data: b}
			}
			txNode := &ipldbindcode.Transaction{Kind: 0, Slot: 5, Index: c14pp(0)}
			var wantPlain []byte
			if side == "meta" {
				txNode.Data, txNode.Metadata = single(txb), first
				wantPlain = metaPlain
			} else {
				txNode.Data, txNode.Metadata = first, single(metaZ)
			}
			emit := func(via string, got []byte, want []byte, err error, p string) {
				o := &c14Obs{Case: ci + 1, N: c.N, Fan: c.Fan, Fault: c.Fault, Checksum: checksum, Side: side, Size: len(payload), Via: via}
				switch {
				case p != "":
					o.Outcome, o.Detail = "panic", p
				case err != nil:
					o.Outcome, o.Detail = "error", err.Error()
				case bytes.Equal(got, want):
					o.Outcome = "original"
					earlier = append(earlier, kept{got: got, want: append([]byte{}, want...), o: o})
				default:
					o.Outcome = "different"
				}
				if len(o.Detail) > 120 {
					o.Detail = o.Detail[:120]
				}
				all = append(all, o)
			}
			{
				var got []byte
				var err error
				p := vt.Guard(func() { got, err = tooling.LoadDataFromDataFrames(&first, getter) })
				emit("tooling.LoadDataFromDataFrames", got, payload, err, p)
			}
			if side == "raw" {
				continue
			}
			// the server hands these functions a node it has just decoded from the CAR: the transaction node goes through the
			// reference encoder and the fast decoder first (frames without continuation omit `next`, as the archive writer does)
			{
				n := bindnode.Wrap(txNode, ipldbindcode.Prototypes.Transaction.Type()).Representation()
				var buf bytes.Buffer
				if err := dagcbor.Encode(n, &buf); err == nil {
					if dec, err := iplddecoders.DecodeTransaction(buf.Bytes()); err == nil {
						txNode = dec
					} else {
						emit("iplddecoders.DecodeTransaction", nil, payload, err, "")
						continue
					}
				}
			}
			{
				var gtx, gmeta []byte
				var err error
				p := vt.Guard(func() { gtx, gmeta, err = getTransactionAndMetaFromNode(txNode, getter) })
				if side == "meta" {
					emit("storage.getTransactionAndMetaFromNode", gmeta, wantPlain, err, p)
				} else {
					emit("storage.getTransactionAndMetaFromNode", gtx, txb, err, p)
				}
			}
			{
				var tx solana.Transaction
				var err error
				p := vt.Guard(func() { tx, _, err = parseTransactionAndMetaFromNode(txNode, getter) })
				if side == "data" {
					var got []byte
					if err == nil && p == "" {
						got, _ = tx.MarshalBinary()
					}
					emit("storage.parseTransactionAndMetaFromNode", got, txb, err, p)
				}
			}
			if side == "meta" { // the address indexer's path: frames arrive as CAR objects preceding the transaction
				var objs []accum.ObjectWithMetadata
				for i := 1; i < c.N; i++ {
					k := ch.order[i].KeyString()
					if missing[k] {
						continue
					}
					objs = append(objs, accum.ObjectWithMetadata{Cid: ch.order[i], ObjectData: c14encodeFrame(ch.store[k])})
				}
				rng.Shuffle(len(objs), func(i, j int) { objs[i], objs[j] = objs[j], objs[i] })
				n := bindnode.Wrap(txNode, ipldbindcode.Prototypes.Transaction.Type()).Representation()
				var buf bytes.Buffer
				dagcbor.Encode(n, &buf)
				objs = append(objs, accum.ObjectWithMetadata{Cid: c14cid(buf.Bytes()), ObjectData: buf.Bytes()})
				var got []byte
				var err error
				p := vt.Guard(func() {
					txs, e := accum.ObjectsToTransactionsAndMetadata(&ipldbindcode.Block{Kind: 2, Slot: 5}, objs)
					if e != nil {
						err = e
						return
					}
					if len(txs) != 1 {
						err = fmt.Errorf("%d transactions", len(txs))
						return
					}
					if txs[0].Error != nil {
						err = txs[0].Error
						return
					}
					if txs[0].Metadata == nil || !txs[0].Metadata.IsProtobuf() {
						err = fmt.Errorf("no protobuf metadata")
						return
					}
					got, _ = proto.Marshal(txs[0].Metadata.GetProtobuf())
				})
				emit("accum.ObjectsToTransactionsAndMetadata", got, wantPlain, err, p)
			}
		}
	}
	// late mutation: every result that was the original payload when it was returned must still be
	for _, k := range earlier {
		if !bytes.Equal(k.got, k.want) {
			k.o.Late = true
		}
	}
	for _, o := range all {
		out.Emit(o)
	}
}

// TestVerifC14Server: the rewards payload of a block through the real getBlock handlers (gRPC and JSON-RPC) of a loaded
// epoch - the consumer of LoadDataFromDataFrames that answers clients. A block whose rewards payload is complete must be
// answered with exactly the archived rewards; a block whose rewards payload misses a continuation frame (linked, not in the
// CAR) must be answered with an error, not with other / no rewards.
func TestVerifC14Server(t *testing.T) {
	out := vt.Out(t)
	defer out.Close()
	type plan struct{ frames, drop int }
	plans := []plan{{12, 0}, {12, 7}, {3, 2}, {1, 0}, {6, 1}, {30, 29}}
	spec := fixture.EpochSpec{Epoch: 1, Seed: vt.Seed() + 1400, Fanout: 5, Trailer: true}
	parent := uint64(431999)
	for k, p := range plans {
		slot := uint64(432000 + 2 + 2*k)
		spec.Blocks = append(spec.Blocks, fixture.BlockSpec{Slot: slot, Parent: parent, Blocktime: int64(1700000000 + k), RewardsFrames: p.frames, DropRewardsFrame: p.drop,
			Entries: []fixture.EntrySpec{{Txs: []fixture.TxSpec{{SigID: k + 1, Accounts: []int{1}, DataFrames: 1, MetaFrames: 1}}}}})
		parent = slot
	}
	l := vBuildAndLoad(t, spec, false, vCache(t))
	multi := NewMultiEpoch(&Options{EpochSearchConcurrency: 2})
	multi.AddEpoch(1, l.epoch)
	handler := newMultiEpochHandler(multi, nil)
	for k, p := range plans {
		bt := l.built.Blocks[k]
		fault := map[string]any{"kind": "none", "i": 0, "j": 0}
		if p.drop > 0 {
			fault = map[string]any{"kind": "drop", "i": p.drop, "j": 0}
		}
		base := c14Obs{Case: 1, N: p.frames, Fan: 5, Fault: fault, Checksum: "crc64", Side: "rewards", Size: len(bt.Rewards)}
		{
			o := base
			o.Via = "getBlock-grpc"
			var resp *old_faithful_grpc.BlockResponse
			var err error
			if pm := vt.Guard(func() {
				resp, err = multi.GetBlock(context.Background(), &old_faithful_grpc.BlockRequest{Slot: bt.Spec.Slot})
			}); pm != "" {
				o.Outcome, o.Detail = "panic", pm
			} else if err != nil {
				o.Outcome, o.Detail = "error", err.Error()
			} else if bytes.Equal(resp.Rewards, bt.Rewards) {
				o.Outcome = "original"
			} else {
				o.Outcome, o.Detail = "different", fmt.Sprintf("answered with %d bytes of rewards, archived %d", len(resp.Rewards), len(bt.Rewards))
			}
			out.Emit(o)
		}
		{
			o := base
			o.Via = "getBlock-json"
			_, body, pm := vCall(handler, fmt.Sprintf(`{"jsonrpc":"2.0","id":1,"method":"getBlock","params":[%d,{"encoding":"base64","maxSupportedTransactionVersion":0}]}`, bt.Spec.Slot))
			var resp struct {
				Result map[string]any `json:"result"`
				Error  map[string]any `json:"error"`
			}
			switch {
			case pm != nil:
				o.Outcome, o.Detail = "panic", fmt.Sprint(pm)
			case json.Unmarshal([]byte(body), &resp) != nil || resp.Error != nil || resp.Result == nil:
				o.Outcome, o.Detail = "error", fmt.Sprintf("%.200s", body)
			default:
				got, _ := resp.Result["rewards"].([]any)
				same := len(got) == len(bt.RewardList)
				for i := 0; same && i < len(got); i++ {
					m, _ := got[i].(map[string]any)
					lam, _ := m["lamports"].(float64)
					same = m["pubkey"] == bt.RewardList[i].Pubkey && int64(lam) == bt.RewardList[i].Lamports
				}
				if same {
					o.Outcome = "original"
				} else {
					o.Outcome, o.Detail = "different", fmt.Sprintf("answered with %d rewards, archived %d", len(got), len(bt.RewardList))
				}
			}
			out.Emit(o)
		}
	}
}

// TestVerifC14Concurrent: different intact payloads reassembled by several goroutines at once (as concurrent requests and the
// StreamTransactions workers do): every reassembly must still give the original bytes. One record per payload shape with
// the worst outcome seen.
func TestVerifC14Concurrent(t *testing.T) {
	out := vt.Out(t)
	defer out.Close()
	rng := rand.New(rand.NewSource(vt.Seed() + 1414))
	type shape struct {
		n, fan   int
		checksum string
	}
	shapes := []shape{{1, 1, "crc64"}, {3, 2, "crc64"}, {7, 5, "crc64"}, {12, 5, "crc64"}, {5, 2, "fnv"}, {24, 10, "crc64"}, {2, 1, "crc64"}, {9, 3, "crc64"}}
	rounds := 1500
	if !vt.Quick() {
		rounds = 8000
	}
	type built struct {
		payload []byte
		ch      *c14chain
	}
	var items []built
	for _, s := range shapes {
		payload := make([]byte, 200+rng.Intn(4000))
		rng.Read(payload)
		items = append(items, built{payload, c14build(payload, s.n, s.fan, s.checksum)})
	}
	results := make([]c14Obs, len(shapes))
	var wg sync.WaitGroup
	for k := range shapes {
		wg.Add(1)
		go func(k int) {
			defer wg.Done()
			it, s := items[k], shapes[k]
			o := c14Obs{Case: 1, N: s.n, Fan: s.fan, Fault: map[string]any{"kind": "none", "i": 0, "j": 0}, Checksum: s.checksum, Side: "raw", Size: len(it.payload),
				Via: "tooling.LoadDataFromDataFrames/concurrent", Outcome: "original"}
			getter := func(ctx context.Context, c cid.Cid) (*ipldbindcode.DataFrame, error) {
				f := it.ch.store[c.KeyString()]
				if f == nil {
					return nil, fmt.Errorf("frame %s not found", c)
				}
				f2 := *f
				return &f2, nil
			}
			for r := 0; r < rounds && o.Outcome == "original"; r++ {
				first := it.ch.first
				var got []byte
				var err error
				p := vt.Guard(func() { got, err = tooling.LoadDataFromDataFrames(&first, getter) })
				switch {
				case p != "":
					o.Outcome, o.Detail = "panic", p
				case err != nil:
					o.Outcome, o.Detail = "error", fmt.Sprintf("reassembly %d of %d while %d other payloads are being reassembled: %v", r+1, rounds, len(shapes)-1, err)
				case !bytes.Equal(got, it.payload):
					o.Outcome = "different"
				}
			}
			if len(o.Detail) > 200 {
				o.Detail = o.Detail[:200]
			}
			results[k] = o
		}(k)
	}
	wg.Wait()
	for _, o := range results {
		out.Emit(o)
	}
}
