package main

import (
	"context"
	"encoding/json"
	"flag"
	"fmt"
	"os"
	"os/exec"
	"path/filepath"
	"regexp"
	"runtime/debug"
	"strings"
	"testing"
	"time"

	"github.com/allegro/bigcache/v3"
	"github.com/ipfs/go-cid"
	hugecache "github.com/rpcpool/yellowstone-faithful/huge-cache"
	"github.com/rpcpool/yellowstone-faithful/indexes"
	old_faithful_grpc "github.com/rpcpool/yellowstone-faithful/old-faithful-proto/old-faithful-grpc"
	"github.com/rpcpool/yellowstone-faithful/zzverif/fixture"
	"github.com/urfave/cli/v2"
	"github.com/valyala/fasthttp"
	"google.golang.org/grpc"
)

type loaded struct {
	built   *fixture.Built
	paths   *IndexPaths
	gsfaDir string
	cfg     *Config
	epoch   *Epoch
}

func vCliCtx() *cli.Context {
	app := cli.NewApp()
	cctx := cli.NewContext(app, flag.NewFlagSet("x", flag.ContinueOnError), nil)
	cctx.Context = context.Background()
	return cctx
}

func vCache(t testing.TB) *hugecache.Cache {
	cache, err := hugecache.NewWithConfig(context.Background(), bigcache.DefaultConfig(time.Minute))
	if err != nil {
		t.Fatal(err)
	}
	return cache
}

// vSmallCache: a cache that costs microseconds to create (per-load caches must not mask what a lookup reads from disk)
func vSmallCache(t testing.TB) *hugecache.Cache {
	cfg := bigcache.DefaultConfig(time.Minute)
	cfg.Shards, cfg.MaxEntriesInWindow, cfg.MaxEntrySize, cfg.Verbose = 16, 2000, 500, false
	cache, err := hugecache.NewWithConfig(context.Background(), cfg)
	if err != nil {
		t.Fatal(err)
	}
	return cache
}

func vConfig(epoch uint64, carPath string, paths *IndexPaths, gsfaDir string) *Config {
	ver := uint64(1)
	cfg := &Config{Epoch: &epoch, Version: &ver}
	cfg.Data.Car = &struct {
		URI        URI `json:"uri" yaml:"uri"`
		FromPieces *struct {
			Metadata struct {
				URI URI `json:"uri" yaml:"uri"`
			} `json:"metadata" yaml:"metadata"`
			Deals struct {
				URI URI `json:"uri" yaml:"uri"`
			} `json:"deals" yaml:"deals"`
			PieceToURI map[cid.Cid]PieceURLInfo `json:"piece_to_uri" yaml:"piece_to_uri"`
		} `json:"from_pieces" yaml:"from_pieces"`
	}{URI: URI(carPath)}
	cfg.Indexes.CidToOffsetAndSize.URI = URI(paths.CidToOffsetAndSize)
	cfg.Indexes.SlotToCid.URI = URI(paths.SlotToCid)
	cfg.Indexes.SigToCid.URI = URI(paths.SignatureToCid)
	cfg.Indexes.SigExists.URI = URI(paths.SignatureExists)
	cfg.Indexes.SlotToBlocktime.URI = URI(paths.SlotToBlocktime)
	if gsfaDir != "" {
		cfg.Indexes.Gsfa.URI = URI(gsfaDir)
	}
	cfg.Genesis.URI = URI("radiance/genesis/testdata/mainnet/genesis.tar.bz2")
	return cfg
}

// TestVerifChildIndex runs `index all` (and optionally `index gsfa`) on an existing CAR in a fresh
// process: bucketteer.NewWriter pre-sizes 65 536 buckets and a second instance in the same process
// takes minutes (measured), so every index build gets its own process.
func TestVerifChildIndex(t *testing.T) {
	carPath := os.Getenv("VERIF_CHILD_CAR")
	if carPath == "" {
		t.Skip("child only")
	}
	idxDir := os.Getenv("VERIF_CHILD_IDX")
	ctx := context.Background()
	if os.Getenv("VERIF_CHILD_CANCEL") != "" {
		// an interrupted run (SIGINT cancels the CLI context): whatever it does, it must not report success over incomplete indexes
		c, cancel := context.WithCancel(ctx)
		cancel()
		ctx = c
	}
	paths, _, err := createAllIndexes(ctx, indexes.NetworkMainnet, os.Getenv("VERIF_CHILD_TMP"), carPath, idxDir)
	if err != nil {
		t.Fatalf("createAllIndexes: %v", err)
	}
	if ep := os.Getenv("VERIF_CHILD_GSFA_EPOCH"); ep != "" {
		app := &cli.App{Commands: []*cli.Command{newCmd_Index_gsfa()}}
		if err := app.Run([]string{"x", "gsfa", "--epoch=" + ep, "--sigverify=false", "--tmp-dir=" + os.Getenv("VERIF_CHILD_TMP"), carPath, idxDir}); err != nil {
			t.Fatalf("gsfa: %v", err)
		}
	}
	b, _ := json.Marshal(paths)
	if err := os.WriteFile(filepath.Join(idxDir, "paths.json"), b, 0o644); err != nil {
		t.Fatal(err)
	}
}

// vChildEnv: extra environment for the indexing child of the next vBuild calls (fault switches)
var vChildEnv []string

// vBuild writes the CAR of spec and indexes it in a child process; it does not load an Epoch.
func vBuild(t testing.TB, spec fixture.EpochSpec, withGsfa bool) (*loaded, error) {
	dir := t.TempDir()
	carPath := filepath.Join(dir, fmt.Sprintf("epoch-%d.car", spec.Epoch))
	spec.Trailer = true
	built, err := fixture.Build(spec, carPath)
	if err != nil {
		t.Fatal(err)
	}
	idxDir := filepath.Join(dir, "idx")
	os.MkdirAll(idxDir, 0o755)
	tmp := filepath.Join(dir, "tmp")
	os.MkdirAll(tmp, 0o755)
	cmd := exec.Command(os.Args[0], "-test.run=^TestVerifChildIndex$", "-test.v")
	cmd.Env = append(os.Environ(), "VERIF_CHILD_CAR="+carPath, "VERIF_CHILD_IDX="+idxDir, "VERIF_CHILD_TMP="+tmp)
	cmd.Env = append(cmd.Env, vChildEnv...)
	if withGsfa {
		cmd.Env = append(cmd.Env, fmt.Sprintf("VERIF_CHILD_GSFA_EPOCH=%d", spec.Epoch))
	}
	cmd.Dir, _ = os.Getwd()
	if out, err := cmd.CombinedOutput(); err != nil {
		tail := string(out)
		if len(tail) > 1500 {
			tail = tail[len(tail)-1500:]
		}
		return &loaded{built: built}, fmt.Errorf("index generation failed: %v\n%s", err, tail)
	}
	var paths IndexPaths
	pb, err := os.ReadFile(filepath.Join(idxDir, "paths.json"))
	if err != nil {
		t.Fatal(err)
	}
	if err := json.Unmarshal(pb, &paths); err != nil {
		t.Fatal(err)
	}
	l := &loaded{built: built, paths: &paths}
	if withGsfa {
		dirs, _ := filepath.Glob(filepath.Join(idxDir, "*gsfa.indexdir"))
		if len(dirs) != 1 {
			t.Fatalf("gsfa dirs: %v", dirs)
		}
		l.gsfaDir = dirs[0]
	}
	l.cfg = vConfig(spec.Epoch, carPath, &paths, l.gsfaDir)
	return l, nil
}

func vBuildAndLoad(t testing.TB, spec fixture.EpochSpec, withGsfa bool, cache *hugecache.Cache) *loaded {
	l, err := vBuild(t, spec, withGsfa)
	if err != nil {
		t.Fatal(err)
	}
	ep, err := NewEpochFromConfig(l.cfg, vCliCtx(), cache, nil)
	if err != nil {
		t.Fatalf("NewEpochFromConfig: %v", err)
	}
	l.epoch = ep
	return l
}

var vReSite = regexp.MustCompile(`(?m)^\s+(/[^\s:]+\.go:\d+)`)

func vPanicSite(stack string) string {
	for _, x := range vReSite.FindAllStringSubmatch(stack, -1) {
		if !strings.Contains(x[1], "zz_verif") && !strings.Contains(x[1], "/harness/") && !strings.Contains(x[1], "/go/src/") && !strings.Contains(x[1], "/usr/lib/go") && !strings.Contains(x[1], "/pkg/mod/") && !strings.Contains(x[1], "/zzverif/") {
			return strings.TrimPrefix(x[1], "/repo/")
		}
	}
	return "?"
}

func vCall(h func(*fasthttp.RequestCtx), body string) (status int, out string, panicked any) {
	defer func() {
		if r := recover(); r != nil {
			panicked = fmt.Sprintf("%v @ %s", r, vPanicSite(string(debug.Stack())))
		}
	}()
	var rc fasthttp.RequestCtx
	var req fasthttp.Request
	req.Header.SetMethod("POST")
	req.SetRequestURI("/")
	req.SetBodyString(body)
	rc.Init(&req, nil, nil)
	h(&rc)
	return rc.Response.StatusCode(), string(rc.Response.Body()), nil
}

type fakeTxStream struct {
	grpc.ServerStream
	ctx  context.Context
	sent []*old_faithful_grpc.TransactionResponse
}

func (f *fakeTxStream) Context() context.Context { return f.ctx }
func (f *fakeTxStream) Send(r *old_faithful_grpc.TransactionResponse) error {
	f.sent = append(f.sent, r)
	return nil
}

type fakeBlockStream struct {
	grpc.ServerStream
	ctx  context.Context
	sent []*old_faithful_grpc.BlockResponse
}

func (f *fakeBlockStream) Context() context.Context { return f.ctx }
func (f *fakeBlockStream) Send(r *old_faithful_grpc.BlockResponse) error {
	f.sent = append(f.sent, r)
	return nil
}

func minInt(a, b int) int {
	if a < b {
		return a
	}
	return b
}

func maxInt(a, b int) int {
	if a > b {
		return a
	}
	return b
}
