package main

// Tracing / gating wrapper that replaces MultiEpoch.mu (sync.RWMutex) in an overlay copy of multiepoch.go
// (go/ast rewrite at check time). With rec and gate nil it behaves exactly like sync.RWMutex.

import (
	"runtime"
	"strconv"
	"strings"
	"sync"
)

type verifRWMutex struct {
	inner sync.RWMutex
	gate  func(goid int64, op string)
	rec   func(goid int64, op string, caller string)
	post  func(goid int64, op string) // called while the lock is still held (before RUnlock / Unlock)
}

func verifGoid() int64 {
	var buf [64]byte
	n := runtime.Stack(buf[:], false)
	f := strings.Fields(string(buf[:n]))
	id, _ := strconv.ParseInt(f[1], 10, 64)
	return id
}

func (m *verifRWMutex) pre(op string) {
	if m.rec == nil && m.gate == nil {
		return
	}
	g := verifGoid()
	if m.rec != nil {
		caller := "?"
		if pc, _, _, ok := runtime.Caller(2); ok {
			if f := runtime.FuncForPC(pc); f != nil {
				caller = f.Name()
			}
		}
		m.rec(g, op, caller)
	}
	if m.gate != nil {
		m.gate(g, op)
	}
}
func (m *verifRWMutex) RLock() { m.pre("RLock"); m.inner.RLock() }
func (m *verifRWMutex) RUnlock() {
	if m.post != nil {
		m.post(verifGoid(), "RUnlock")
	}
	m.pre("RUnlock")
	m.inner.RUnlock()
}
func (m *verifRWMutex) Lock() { m.pre("Lock"); m.inner.Lock() }
func (m *verifRWMutex) Unlock() {
	if m.post != nil {
		m.post(verifGoid(), "Unlock")
	}
	m.pre("Unlock")
	m.inner.Unlock()
}
