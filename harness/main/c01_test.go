package main

// C01 replayer (R3): TLC-generated archives (spec/Gen_Ledger.tla) -> real CAR (reference encoder) -> the real
// `index all` (child process) -> every object / slot / signature looked up through the real Epoch, with the CAR
// served from the local file and through the HTTP ReaderAt path (loopback server with Range support).

import (
	"bytes"
	"context"
	"encoding/json"
	"fmt"
	"net/http"
	"net/http/httptest"
	"os"
	"path/filepath"
	"strings"
	"sync"
	"testing"
	"time"

	"github.com/ipfs/go-cid"
	"github.com/rpcpool/yellowstone-faithful/zzverif/fixture"
	"github.com/rpcpool/yellowstone-faithful/zzverif/vt"
)

type c01Sec struct {
	ID   int    `json:"id"`
	Kind string `json:"kind"`
	Body int    `json:"body"`
	Off  uint64 `json:"off"`
}
type c01Blk struct {
	Slot      uint64 `json:"slot"`
	Blocktime int64  `json:"blocktime"`
	Sec       int    `json:"sec"`
}
type c01Tx struct {
	Sig int `json:"sig"`
	Sec int `json:"sec"`
}
type c01Fetch struct {
	Sec  int    `json:"sec"`
	Same bool   `json:"same"`
	Off  uint64 `json:"off"`
	Size uint64 `json:"size"`
	Err  string `json:"err"`
}
type c01Slot struct {
	Slot      uint64 `json:"slot"`
	Sec       int    `json:"sec"`
	Blocktime int64  `json:"blocktime"`
	Err       string `json:"err"`
}
type c01Sig struct {
	Sig    int    `json:"sig"`
	Sec    int    `json:"sec"`
	Exists bool   `json:"exists"`
	Err    string `json:"err"`
}
type c01Obs struct {
	Kind   string     `json:"kind"`
	Case   int        `json:"case"`
	Via    string     `json:"via"`
	Note   string     `json:"note"`
	Hdr    uint64     `json:"hdr"`
	Epoch  aEpoch     `json:"epoch"`
	Secs   []c01Sec   `json:"secs"`
	Blocks []c01Blk   `json:"blocks"`
	Txs    []c01Tx    `json:"txs"`
	Fetch  []c01Fetch `json:"fetch"`
	Slots  []c01Slot  `json:"slots"`
	Sigs   []c01Sig   `json:"sigs"`
	Err    string     `json:"err"`
	Incon  string     `json:"inconclusive"` // index generation itself failed: not a violation of C01 as worded
	Widths []int      `json:"widths"`       // distinct section-length varint widths present
}

func c01truth(ep aEpoch, b *fixture.Built) (o c01Obs) {
	o = c01Obs{Kind: "c01", Hdr: b.HeaderSize, Epoch: ep, Fetch: []c01Fetch{}, Slots: []c01Slot{}, Sigs: []c01Sig{}}
	ws := map[int]bool{}
	for i, s := range b.Sections {
		body := int(s.Length) - uvarintLen(s.Length)
		// s.Length = varint + body; recover the body length
		for w := 1; w <= 5; w++ {
			if uvarintLen(uint64(int(s.Length)-w)) == w {
				body = int(s.Length) - w
				ws[w] = true
				break
			}
		}
		o.Secs = append(o.Secs, c01Sec{ID: i + 1, Kind: aKindNames[s.Kind], Body: body, Off: s.Offset})
	}
	for w := range ws {
		o.Widths = append(o.Widths, w)
	}
	for _, bt := range b.Blocks {
		o.Blocks = append(o.Blocks, c01Blk{Slot: bt.Spec.Slot, Blocktime: bt.Spec.Blocktime, Sec: bt.Section + 1})
		for _, tt := range bt.Txs {
			o.Txs = append(o.Txs, c01Tx{Sig: tt.Spec.SigID, Sec: tt.Section + 1})
		}
	}
	if o.Blocks == nil {
		o.Blocks = []c01Blk{}
	}
	if o.Txs == nil {
		o.Txs = []c01Tx{}
	}
	return
}

func uvarintLen(x uint64) int {
	n := 1
	for x >= 0x80 {
		x >>= 7
		n++
	}
	return n
}

func c01query(o *c01Obs, ep *Epoch, b *fixture.Built) {
	secOf := map[string]int{}
	for i, s := range b.Sections {
		secOf[s.Cid.KeyString()] = i + 1
	}
	ctx := context.Background()
	if p := vt.Guard(func() {
		// the bytes a fetch returned must stay that object's bytes while other objects are fetched: all results are kept
		// and compared after the pass; a second, concurrent pass fetches from four goroutines
		kept := make([][]byte, len(b.Sections))
		kerr := make([]error, len(b.Sections))
		for i, s := range b.Sections {
			kept[i], kerr[i] = ep.GetNodeByCid(ctx, s.Cid)
		}
		concBad := make([]bool, len(b.Sections))
		if len(b.Sections) <= 4000 {
			var wg sync.WaitGroup
			for w := 0; w < 4; w++ {
				wg.Add(1)
				go func(w int) {
					defer wg.Done()
					defer func() { recover() }()
					for i := w % 2; i < len(b.Sections); i += 2 {
						got, err := ep.GetNodeByCid(ctx, b.Sections[i].Cid)
						if err == nil && !bytes.Equal(got, b.Sections[i].Data) {
							concBad[i] = true
						}
					}
				}(w)
			}
			wg.Wait()
		}
		for i, s := range b.Sections {
			f := c01Fetch{Sec: i + 1}
			got, err := kept[i], kerr[i]
			if err != nil {
				f.Err = err.Error()
			} else {
				f.Same = bytes.Equal(got, s.Data) && !concBad[i]
			}
			oas, err := ep.FindOffsetAndSizeFromCid(ctx, s.Cid)
			if err != nil {
				f.Err += " | " + err.Error()
			} else {
				f.Off, f.Size = oas.Offset, oas.Size
			}
			o.Fetch = append(o.Fetch, f)
		}
		for _, bt := range b.Blocks {
			r := c01Slot{Slot: bt.Spec.Slot}
			c, err := ep.FindCidFromSlot(ctx, bt.Spec.Slot)
			if err != nil {
				r.Err = err.Error()
			} else {
				r.Sec = secOf[c.KeyString()]
			}
			bt2, err := ep.GetBlocktime(bt.Spec.Slot)
			if err != nil {
				r.Err += " | " + err.Error()
			} else {
				r.Blocktime = bt2
			}
			o.Slots = append(o.Slots, r)
			for _, tt := range bt.Txs {
				g := c01Sig{Sig: tt.Spec.SigID}
				c, err := ep.FindCidFromSignature(ctx, tt.Sig)
				if err != nil {
					g.Err = err.Error()
				} else {
					g.Sec = secOf[c.KeyString()]
				}
				if ep.sigExists != nil {
					has, err := ep.sigExists.Has(tt.Sig)
					if err != nil {
						g.Err += " | " + err.Error()
					}
					g.Exists = has
				}
				o.Sigs = append(o.Sigs, g)
			}
		}
	}); p != "" {
		o.Err = p
	}
}

// c01small: TLC's integers are 32 bits wide; block times outside that range are replaced - injectively, in the ground
// truth and in the answers alike - by small negative codes before the record is handed to the judge (equality is all
// the judge needs)
func c01small(o *c01Obs) {
	codes := map[int64]int64{}
	m := func(v int64) int64 {
		if v > -(1<<31)+2 && v < 1<<31-2 {
			return v
		}
		if c, ok := codes[v]; ok {
			return c
		}
		codes[v] = -1000000 - int64(len(codes))
		return codes[v]
	}
	ep := o.Epoch
	ep.Blocks = append([]aBlock{}, o.Epoch.Blocks...)
	for i := range ep.Blocks {
		ep.Blocks[i].Blocktime = m(ep.Blocks[i].Blocktime)
	}
	o.Epoch = ep
	o.Blocks = append([]c01Blk{}, o.Blocks...)
	for i := range o.Blocks {
		o.Blocks[i].Blocktime = m(o.Blocks[i].Blocktime)
	}
	for i := range o.Slots {
		o.Slots[i].Blocktime = m(o.Slots[i].Blocktime)
	}
}

// serve a file over loopback HTTP with Range support (the remote CAR path of the server)
func c01serve(path string) *httptest.Server {
	return httptest.NewServer(http.HandlerFunc(func(w http.ResponseWriter, r *http.Request) {
		f, err := os.Open(path)
		if err != nil {
			http.Error(w, err.Error(), 500)
			return
		}
		defer f.Close()
		http.ServeContent(w, r, filepath.Base(path), time.Time{}, f)
	}))
}

func c01run(t *testing.T, out *vt.Recorder, ep aEpoch, spec fixture.EpochSpec, caseNo int, note string) {
	l, err := vBuild(t, spec, false)
	base := c01truth(ep, l.built)
	base.Case, base.Note = caseNo, note
	if err != nil {
		base.Via, base.Incon = "local", err.Error()
		c01small(&base)
		out.Emit(base)
		return
	}
	for _, via := range []string{"local", "http"} {
		o := base
		o.Via = via
		o.Fetch, o.Slots, o.Sigs = []c01Fetch{}, []c01Slot{}, []c01Sig{}
		cfg := vConfig(spec.Epoch, l.built.CarPath, l.paths, "")
		var srv *httptest.Server
		if via == "http" {
			srv = c01serve(l.built.CarPath)
			cfg.Data.Car.URI = URI(srv.URL + "/" + filepath.Base(l.built.CarPath))
		}
		var e *Epoch
		var lerr error
		if p := vt.Guard(func() { e, lerr = NewEpochFromConfig(cfg, vCliCtx(), vCache(t), nil) }); p != "" {
			o.Err = p
		} else if lerr != nil {
			o.Err = "NewEpochFromConfig: " + lerr.Error()
		} else {
			c01query(&o, e, l.built)
			e.Close()
		}
		if srv != nil {
			srv.Close()
		}
		c01small(&o)
		out.Emit(o)
	}
	os.RemoveAll(filepath.Dir(l.built.CarPath))
}

// c01fit searches (padding, frame count) such that some section of a one-transaction CAR has a *body* (CID + data,
// the value of the section's length varint) of exactly `target` bytes
func c01fit(t *testing.T, target int, seed int64) (fixture.TxSpec, bool) {
	dir := t.TempDir()
	small := target < 400 // small bodies: tune a metadata frame (transaction frames must keep the signature in frame 0)
	pad := 0
	if !small {
		pad = target - 330
	}
	for iter := 0; iter < 80; iter++ {
		ts := fixture.TxSpec{SigID: 1, Accounts: []int{1}, DataFrames: 1, MetaFrames: 1, NoMeta: true, Pad: pad}
		if small {
			ts = fixture.TxSpec{SigID: 1, Accounts: []int{1}, DataFrames: 1, MetaFrames: 3, MetaPad: pad}
		}
		spec := fixture.EpochSpec{Epoch: 1, Seed: seed, Fanout: 2, Trailer: false, Blocks: []fixture.BlockSpec{{Slot: 432001, Parent: 432000, Entries: []fixture.EntrySpec{{Txs: []fixture.TxSpec{ts}}}}}}
		b, err := fixture.Build(spec, filepath.Join(dir, "fit.car"))
		if err != nil {
			return ts, false
		}
		best := -1 << 30
		for _, s := range b.Sections {
			if (small && s.Kind != 6) || (!small && s.Kind != 0) {
				continue
			}
			body := len(s.Cid.Bytes()) + len(s.Data)
			if body == target {
				return ts, true
			}
			if d := body - target; d < 0 && d > best {
				best = d
			}
		}
		if best == -1<<30 {
			return ts, false // every candidate section is already larger than the target
		}
		if small {
			pad++ // hex log bytes compress: creep up
		} else {
			pad += -best
		}
	}
	return fixture.TxSpec{}, false
}

func TestVerifC01(t *testing.T) {
	out := vt.Out(t)
	defer out.Close()
	seed := vt.Seed()
	n := 0
	for _, raw := range vt.Cases(t) {
		var a aArch
		if err := json.Unmarshal(raw, &a); err != nil {
			t.Fatal(err)
		}
		for _, ep := range a.Arch {
			n++
			spec := ep.spec(seed*1000+int64(n), 1+n%6)
			note := "generated"
			if n%2 == 0 {
				// "any CAR header length": every second archive has a header longer than 127 bytes (two-byte length prefix)
				spec.LongHeader = true
				note = "generated-long-header"
			}
			c01run(t, out, ep, spec, n, note)
		}
	}
	// directed: blocks in the first and in the last slot of their epoch (and next to them)
	for k, e := range []uint64{0, 3} {
		first, last := e*432000, e*432000+431999
		slots := []uint64{first + 1, first + 2, last - 1, last}
		if e > 0 {
			slots = []uint64{first, first + 1, last - 1, last}
		}
		var blocks []aBlock
		parent := slots[0] - 1
		if e == 0 {
			parent = 0
		}
		for i, sl := range slots {
			blocks = append(blocks, aBlock{Slot: sl, Parent: parent, Blocktime: int64(1600000000 + i), Height: -1,
				Entries: []aEntry{{Txs: []aTx{{Sig: i + 1, Accts: []int{1}, Loaded: []int{}, Dframes: 1, Mframes: 1}}}}})
			parent = sl
		}
		ep := aEpoch{Epoch: e, Blocks: blocks}
		n++
		spec := ep.spec(seed+100+int64(k), 2)
		spec.LongHeader = k == 1
		c01run(t, out, ep, spec, n, "epoch-edge-slots")
	}
	// directed: transaction nodes whose CAR section length sits exactly on / next to the varint width boundaries
	var bt []aTx
	var specTxs []fixture.TxSpec
	sig := 0
	for _, target := range []int{126, 127, 128, 129, 16383, 16384, 16385, 16511, 16512} {
		ts, ok := c01fit(t, target, seed)
		if !ok {
			t.Logf("no shape found for section body length %d", target)
			continue
		}
		sig++
		ts.SigID = sig
		bt = append(bt, aTx{Sig: sig, Accts: []int{1}, Loaded: []int{}, Nometa: ts.NoMeta, Dframes: ts.DataFrames, Mframes: ts.MetaFrames})
		specTxs = append(specTxs, ts)
	}
	// ... and objects of 64 KiB and more (still a three-byte section length; sizes that need the third byte of a 24-bit size field)
	for _, pad := range []int{65400, 70000, 200000} {
		sig++
		ts := fixture.TxSpec{SigID: sig, Accounts: []int{1}, DataFrames: 1, MetaFrames: 1, NoMeta: true, Pad: pad}
		bt = append(bt, aTx{Sig: sig, Accts: []int{1}, Loaded: []int{}, Nometa: true, Dframes: 1, Mframes: 1})
		specTxs = append(specTxs, ts)
	}
	if len(bt) > 0 {
		ep := aEpoch{Epoch: 1, Blocks: []aBlock{{Slot: 432001, Parent: 432000, Blocktime: 1600000001, Height: -1, Entries: []aEntry{{Txs: bt}}}}}
		spec := fixture.EpochSpec{Epoch: 1, Seed: seed, Fanout: 2, Trailer: true, Blocks: []fixture.BlockSpec{{Slot: 432001, Parent: 432000, Blocktime: 1600000001, Entries: []fixture.EntrySpec{{Txs: specTxs}}}}}
		n++
		c01run(t, out, ep, spec, n, "boundary-section-lengths")
	}
	// directed: block times outside the range the slot-to-blocktime index can hold (its values are 32 bits wide): index
	// generation may refuse such a CAR, but must not report success and then answer another block time
	for k, btime := range []int64{1<<32 + 1700000001, 1 << 32, -5} {
		ep := aEpoch{Epoch: 1, Blocks: []aBlock{
			{Slot: 432001, Parent: 432000, Blocktime: 1600000001, Height: -1, Entries: []aEntry{{Txs: []aTx{{Sig: 1, Accts: []int{1}, Loaded: []int{}, Dframes: 1, Mframes: 1}}}}},
			{Slot: 432003, Parent: 432001, Blocktime: btime, Height: -1, Entries: []aEntry{{Txs: []aTx{{Sig: 2, Accts: []int{1}, Loaded: []int{}, Dframes: 1, Mframes: 1}}}}}}}
		n++
		c01run(t, out, ep, ep.spec(seed+int64(k), 2), n, "blocktime-out-of-32-bit-range")
	}
	// directed: `index all` interrupted (its context is cancelled, as SIGINT / SIGTERM do): it may fail, it must not report
	// success and leave indexes that miss entries
	{
		ep := aEpoch{Epoch: 1, Blocks: []aBlock{
			{Slot: 432001, Parent: 432000, Blocktime: 1600000001, Height: -1, Entries: []aEntry{{Txs: []aTx{{Sig: 1, Accts: []int{1}, Loaded: []int{}, Dframes: 1, Mframes: 1}, {Sig: 2, Accts: []int{2}, Loaded: []int{}, Dframes: 2, Mframes: 3}}}}},
			{Slot: 432004, Parent: 432001, Blocktime: 1600000004, Height: -1, Entries: []aEntry{{Txs: []aTx{{Sig: 3, Accts: []int{1}, Loaded: []int{}, Dframes: 1, Mframes: 1}}}}}}}
		n++
		vChildEnv = []string{"VERIF_CHILD_CANCEL=1"}
		c01run(t, out, ep, ep.spec(seed+31, 2), n, "interrupted-index-run")
		vChildEnv = nil
	}
	// directed: many first signatures in one two-byte prefix next to a populated prefix, and item counts
	// around the 10 000-entries-per-bucket boundary of the compact indexes
	sizes := []int{16800}
	if !vt.Quick() {
		sizes = []int{9999, 10001, 16500, 20001}
	}
	for _, total := range sizes {
		var txs []aTx
		var stx []fixture.TxSpec
		var blocks []aBlock
		var sblocks []fixture.BlockSpec
		perBlock := 500
		slot := uint64(2*432000 + 3)
		parent := uint64(2*432000 - 1)
		for i := 0; i < total; i++ {
			txs = append(txs, aTx{Sig: i + 1, Accts: []int{1 + i%3}, Loaded: []int{}, Dframes: 1, Mframes: 1})
			pfx := 0x1234 + 1
			if i%40 == 0 {
				pfx = 0x1235 + 1
			}
			if i%97 == 0 {
				pfx = 0
			}
			stx = append(stx, fixture.TxSpec{SigID: i + 1, Accounts: []int{1 + i%3}, DataFrames: 1, MetaFrames: 1, SigPrefix: pfx})
			if len(txs) == perBlock || i == total-1 {
				blocks = append(blocks, aBlock{Slot: slot, Parent: parent, Blocktime: int64(1600000000 + slot%100000), Height: int64(slot + 7), Entries: []aEntry{{Txs: txs}}})
				h := slot + 7
				sblocks = append(sblocks, fixture.BlockSpec{Slot: slot, Parent: parent, Blocktime: int64(1600000000 + slot%100000), Height: &h, Entries: []fixture.EntrySpec{{Txs: stx}}})
				parent, slot = slot, slot+2
				txs, stx = nil, nil
			}
		}
		n++
		c01run(t, out, aEpoch{Epoch: 2, Blocks: blocks}, fixture.EpochSpec{Epoch: 2, Seed: seed + 7, Trailer: true, Blocks: sblocks}, n, fmt.Sprintf("many-signatures-%d", total))
	}
	t.Logf("epochs=%d", n)
	_ = strings.Contains
	_ = cid.Undef
}
