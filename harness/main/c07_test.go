package main

// C07 replayer (handler level): TLC-generated multi-epoch archives -> real CARs -> real `index all` + real `index gsfa`
// (batch size shrunk in an overlay copy so that an address history spans several linked-log records) -> the real
// getSignaturesForAddress JSON-RPC handler, for every address of the archive and (limit, before, until) drawn from
// its history. Each request is repeated (the pinned handler's order depended on Go's map iteration seed).
// Also C03's last clause: an address without history whose in-bucket hash aliases a stored address.

import (
	"encoding/json"
	"fmt"
	"math/rand"
	"os"
	"path/filepath"
	"sort"
	"sync"
	"testing"

	"github.com/gagliardetto/solana-go"
	"github.com/rpcpool/yellowstone-faithful/zzverif/fixture"
	"github.com/rpcpool/yellowstone-faithful/zzverif/vt"
)

type c07JObs struct {
	Kind    string     `json:"kind"`
	Case    int        `json:"case"`
	Acct    int        `json:"acct"`
	Hist    [][]int    `json:"hist"`
	Whist   [][]string `json:"whist"`
	Limit   int        `json:"limit"`
	Before  int        `json:"before"`
	Until   int        `json:"until"`
	Result  []int      `json:"result"`
	Wresult []string   `json:"wresult"`
	Err     string     `json:"err"`
	Multi   bool       `json:"multi"`
	Alias   bool       `json:"alias"`
	Loaded  []uint64   `json:"loaded"`
}

func c07mentions(t aTx, a int) bool {
	for _, x := range t.Accts {
		if x == a {
			return true
		}
	}
	for _, x := range t.Loaded {
		if x == a {
			return true
		}
	}
	return false
}

// newest-first history of account a per epoch (epochs in descending order)
func c07history(arch []aEpoch, a int) [][]int {
	var out [][]int
	for i := len(arch) - 1; i >= 0; i-- {
		h := []int{}
		bl := arch[i].Blocks
		for j := len(bl) - 1; j >= 0; j-- {
			var txs []aTx
			for _, e := range bl[j].Entries {
				txs = append(txs, e.Txs...)
			}
			for k := len(txs) - 1; k >= 0; k-- {
				if c07mentions(txs[k], a) {
					h = append(h, txs[k].Sig)
				}
			}
		}
		out = append(out, h)
	}
	return out
}

// TestVerifC03Address: C03's last clause needs an address WITHOUT history whose in-bucket hash aliases a stored address
// of the pubkey index (100 buckets): an epoch with thousands of distinct addresses makes the search with the index's
// own hash feasible.
func TestVerifC03Address(t *testing.T) {
	out := vt.Out(t)
	defer out.Close()
	seed := vt.Seed() + 4242
	rng := rand.New(rand.NewSource(seed))
	naddr := 4000
	spec := fixture.EpochSpec{Epoch: 3, Seed: seed, Trailer: true}
	slot := uint64(3*432000 + 1)
	parent := slot - 2
	sig := 0
	for b := 0; b < naddr/200; b++ {
		bs := fixture.BlockSpec{Slot: slot, Parent: parent, Blocktime: int64(1600000000 + slot%100000)}
		es := fixture.EntrySpec{}
		for k := 0; k < 200; k++ {
			sig++
			// three of four transactions are v0 messages with an address-table lookup (their account list cannot be
			// resolved without the metadata), the rest legacy
			es.Txs = append(es.Txs, fixture.TxSpec{SigID: sig, Accounts: []int{1000 + sig}, DataFrames: 1, MetaFrames: 1, Lookups: sig%4 != 0})
		}
		bs.Entries = []fixture.EntrySpec{es}
		spec.Blocks = append(spec.Blocks, bs)
		parent, slot = slot, slot+2
	}
	l, err := vBuild(t, spec, true)
	if err != nil {
		t.Fatal(err)
	}
	e, err := NewEpochFromConfig(l.cfg, vCliCtx(), vCache(t), nil)
	if err != nil {
		t.Fatal(err)
	}
	defer e.Close()
	multi := NewMultiEpoch(&Options{EpochSearchConcurrency: 1})
	multi.AddEpoch(3, e)
	handler := newMultiEpochHandler(multi, nil)
	sigID := map[string]int{}
	stored := map[string]bool{}
	for s, tt := range l.built.TxBySig {
		sigID[s.String()] = tt.Spec.SigID
		for _, k := range tt.Accounts {
			stored[string(k[:])] = true
		}
	}
	idx := filepath.Join(l.gsfaDir, "pubkey-to-offset-and-size.index")
	budget := 6_000_000
	if !vt.Quick() {
		budget = 40_000_000
	}
	aliases := rpcAliases(idx, stored, func(i int) []byte { b := make([]byte, 32); rng.Read(b); return b }, budget, 4)
	var keys []solana.PublicKey
	var isAlias []bool
	for _, k := range aliases {
		var pk solana.PublicKey
		copy(pk[:], k)
		keys = append(keys, pk)
		isAlias = append(isAlias, true)
	}
	for k := 0; k < 3; k++ {
		var pk solana.PublicKey
		rng.Read(pk[:])
		keys = append(keys, pk)
		isAlias = append(isAlias, false)
	}
	// the same requests with one epoch loaded and then with a second epoch (in whose address index these addresses are
	// plainly absent) loaded next to it
	l4, err := vBuild(t, c10spec(4, seed+1), true)
	if err != nil {
		t.Fatal(err)
	}
	e4, err := NewEpochFromConfig(l4.cfg, vCliCtx(), vCache(t), nil)
	if err != nil {
		t.Fatal(err)
	}
	defer e4.Close()
	// ... and addresses aliasing the few addresses of that second, small epoch (a handful of stored addresses in one bucket:
	// each alias costs ~2^24 / n tries, and with several of them every stored address gets aliased sooner or later - also the
	// one whose record is the very first of the linked log, at offset 0)
	stored4 := map[string]bool{}
	for _, tt := range l4.built.TxBySig {
		for _, k := range tt.Accounts {
			stored4[string(k[:])] = true
		}
	}
	want4, budget4 := 8, 45_000_000
	if !vt.Quick() {
		want4, budget4 = 30, 250_000_000
	}
	aliases4 := rpcAliases(filepath.Join(l4.gsfaDir, "pubkey-to-offset-and-size.index"), stored4, func(i int) []byte { b := make([]byte, 32); rng.Read(b); return b }, budget4, want4)
	var keys4 []solana.PublicKey
	for _, k := range aliases4 {
		var pk solana.PublicKey
		copy(pk[:], k)
		keys4 = append(keys4, pk)
	}
	for pass := 0; pass < 2; pass++ {
		if pass == 1 {
			for _, pk := range keys4 {
				keys = append(keys, pk)
				isAlias = append(isAlias, true)
			}
		}
		loadedNow := []uint64{3}
		if pass == 1 {
			multi.ReplaceOrAddEpoch(4, e4)
			loadedNow = []uint64{3, 4}
		}
		for k, pk := range keys {
			o := c07JObs{Kind: "json", Case: 0, Acct: 0, Hist: [][]int{}, Limit: 1000, Result: []int{}, Alias: isAlias[k], Whist: [][]string{}, Wresult: []string{}, Loaded: loadedNow}
			_, body, p := vCall(handler, fmt.Sprintf(`{"jsonrpc":"2.0","id":1,"method":"getSignaturesForAddress","params":["%s",{"limit":1000}]}`, pk))
			var resp struct {
				Result []map[string]any `json:"result"`
				Error  map[string]any   `json:"error"`
			}
			switch {
			case p != nil:
				o.Err = fmt.Sprint(p)
			case json.Unmarshal([]byte(body), &resp) != nil:
				o.Err = fmt.Sprintf("unparsable response %.100q", body)
			case resp.Error != nil:
				// an error answer carries no foreign signatures
			default:
				for _, r := range resp.Result {
					s, _ := r["signature"].(string)
					id, ok := sigID[s]
					if !ok {
						id = -1
					}
					o.Result = append(o.Result, id)
				}
			}
			out.Emit(o)
			// continuation pages: the same address with `before` set to each archived signature of the loaded epochs (an
			// honest client pages with the last signature it was given; for an address without history every page is
			// empty whatever `before` names - in particular when it names a signature of the aliased address's history).
			// One record per address: the union of everything these pages returned.
			if isAlias[k] || k%2 == 0 {
				ob := c07JObs{Kind: "json", Case: 0, Acct: 0, Hist: [][]int{}, Limit: 1000, Result: []int{}, Alias: isAlias[k], Whist: [][]string{}, Wresult: []string{}, Loaded: loadedNow}
				var befores []string
				for sg := range l4.built.TxBySig {
					if pass == 1 {
						befores = append(befores, sg.String())
					}
				}
				var b3 []string
				for sg := range l.built.TxBySig {
					b3 = append(b3, sg.String())
				}
				sort.Strings(b3)
				if len(b3) > 1500 {
					b3 = b3[:1500]
				}
				sort.Strings(befores)
				befores = append(befores, b3...)
				seen := map[int]bool{}
				for _, bs := range befores {
					_, body, p := vCall(handler, fmt.Sprintf(`{"jsonrpc":"2.0","id":1,"method":"getSignaturesForAddress","params":["%s",{"limit":1000,"before":"%s"}]}`, pk, bs))
					var resp struct {
						Result []map[string]any `json:"result"`
					}
					if p != nil {
						ob.Err = fmt.Sprint(p)
						continue
					}
					if json.Unmarshal([]byte(body), &resp) != nil {
						continue
					}
					for _, r := range resp.Result {
						sgs, _ := r["signature"].(string)
						id, ok := sigID[sgs]
						if !ok {
							id = -1
						}
						if !seen[id] {
							seen[id] = true
							ob.Result = append(ob.Result, id)
						}
					}
				}
				if len(ob.Result) > 0 {
					ob.Err = "returned by continuation pages (`before` = an archived signature) " + ob.Err
				}
				out.Emit(ob)
			}
		}
	}
	t.Logf("aliasing addresses found: %d + %d", len(aliases), len(aliases4))
}

// c07sameAsFirst: is `ids` the first `lim` entries of the flattened newest-first history? (only decides which concurrent
// answers are recorded besides every tenth one - the judge decides what is allowed)
func c07sameAsFirst(hist [][]int, ids []int, lim int) bool {
	var flat []int
	for _, h := range hist {
		flat = append(flat, h...)
	}
	if len(flat) > lim {
		flat = flat[:lim]
	}
	if len(flat) != len(ids) {
		return false
	}
	for i := range flat {
		if flat[i] != ids[i] {
			return false
		}
	}
	return true
}

func TestVerifC07Handler(t *testing.T) {
	out := vt.Out(t)
	defer out.Close()
	rng := rand.New(rand.NewSource(vt.Seed() + 5))
	reps := 4
	for ci, raw := range vt.Cases(t) {
		var a aArch
		if err := json.Unmarshal(raw, &a); err != nil {
			t.Fatal(err)
		}
		seed := vt.Seed()*1000 + int64(ci)
		var eps []*loaded
		sigID := map[string]int{}
		var loadedNums []uint64
		multi := NewMultiEpoch(&Options{EpochSearchConcurrency: 2})
		for _, ep := range a.Arch {
			// transactions keep their data in one frame (the address indexer requires it, as in real archives)
			for bi := range ep.Blocks {
				for ei := range ep.Blocks[bi].Entries {
					for ti := range ep.Blocks[bi].Entries[ei].Txs {
						ep.Blocks[bi].Entries[ei].Txs[ti].Dframes = 1
					}
				}
			}
			l, err := vBuild(t, ep.spec(seed, 3), true)
			if err != nil {
				t.Fatalf("case %d: %v", ci+1, err)
			}
			e, err := NewEpochFromConfig(l.cfg, vCliCtx(), vCache(t), nil)
			if err != nil {
				t.Fatalf("case %d: NewEpochFromConfig: %v", ci+1, err)
			}
			l.epoch = e
			eps = append(eps, l)
			// the server reaches the full epoch set step by step: the first epoch with AddEpoch, the others with
			// ReplaceOrAddEpoch (the --watch path), with a request served in between (not judged: it only makes
			// the server do whatever per-set bookkeeping it does before the set changes)
			if len(eps) == 1 {
				multi.AddEpoch(ep.Epoch, e)
			} else {
				for acct := 1; acct <= 3; acct++ {
					vCall(newMultiEpochHandler(multi, nil), fmt.Sprintf(`{"jsonrpc":"2.0","id":1,"method":"getSignaturesForAddress","params":["%s",{"limit":3}]}`, fixture.Account(seed, acct)))
				}
				multi.ReplaceOrAddEpoch(ep.Epoch, e)
			}
			loadedNums = append(loadedNums, ep.Epoch)
			for s, tt := range l.built.TxBySig {
				sigID[s.String()] = tt.Spec.SigID
			}
		}
		handler := newMultiEpochHandler(multi, nil)
		call := func(addr solana.PublicKey, limit int, before, until string) ([]int, string) {
			opts := fmt.Sprintf(`{"limit":%d`, limit)
			if before != "" {
				opts += fmt.Sprintf(`,"before":"%s"`, before)
			}
			if until != "" {
				opts += fmt.Sprintf(`,"until":"%s"`, until)
			}
			opts += "}"
			_, body, p := vCall(handler, fmt.Sprintf(`{"jsonrpc":"2.0","id":1,"method":"getSignaturesForAddress","params":["%s",%s]}`, addr, opts))
			if p != nil {
				return nil, fmt.Sprint(p)
			}
			var resp struct {
				Result []map[string]any `json:"result"`
				Error  map[string]any   `json:"error"`
			}
			if err := json.Unmarshal([]byte(body), &resp); err != nil {
				return nil, fmt.Sprintf("unparsable response %.100q", body)
			}
			if resp.Error != nil {
				return nil, fmt.Sprintf("error response: %v", resp.Error["message"])
			}
			ids := []int{}
			for _, r := range resp.Result {
				s, _ := r["signature"].(string)
				id, ok := sigID[s]
				if !ok {
					id = -1
				}
				ids = append(ids, id)
			}
			return ids, ""
		}
		absentSig := fixture.Sig(seed, 999999).String()
		sigStr := map[int]string{}
		for s, id := range sigID {
			sigStr[id] = s
		}
		for acct := 1; acct <= 3; acct++ {
			hist := c07history(a.Arch, acct)
			var flat []int
			contributing := 0
			for _, h := range hist {
				flat = append(flat, h...)
				if len(h) > 0 {
					contributing++
				}
			}
			total := len(flat)
			choices := append([]int{0}, flat...)
			choices = append(choices, total+1000) // a signature that is not in the history
			addr := fixture.Account(seed, acct)
			type q struct{ limit, before, until int }
			var qs []q
			for _, b := range choices {
				for _, u := range choices {
					for _, lim := range []int{1, 2, total, total + 1, 1000} {
						if lim <= 0 {
							continue
						}
						qs = append(qs, q{lim, b, u})
					}
				}
			}
			rng.Shuffle(len(qs), func(i, j int) { qs[i], qs[j] = qs[j], qs[i] })
			maxq := 40
			if !vt.Quick() {
				maxq = 400
			}
			if len(qs) > maxq {
				qs = qs[:maxq]
			}
			qs = append(qs, q{1000, 0, 0}) // the whole history
			for _, x := range qs {
				bs, us := "", ""
				if x.before != 0 {
					bs = sigStr[x.before]
					if bs == "" {
						bs = absentSig
					}
				}
				if x.until != 0 {
					us = sigStr[x.until]
					if us == "" {
						us = absentSig
					}
				}
				for r := 0; r < reps; r++ {
					ids, e := call(addr, x.limit, bs, us)
					if ids == nil {
						ids = []int{}
					}
					out.Emit(c07JObs{Kind: "json", Case: ci + 1, Acct: acct, Hist: hist, Limit: x.limit, Before: x.before, Until: x.until, Result: ids, Err: e,
						Multi: contributing >= 2, Whist: [][]string{}, Wresult: []string{}, Loaded: loadedNums})
				}
			}
		}
		// concurrent clients: the whole history of every account requested from several goroutines at once through the one
		// handler (the per-epoch readers - pubkey index, linked log, CAR - are shared by all requests); every answer is
		// judged like a sequential one
		{
			rounds := 40
			if !vt.Quick() {
				rounds = 400
			}
			var wg sync.WaitGroup
			var mu sync.Mutex
			var cobs []c07JObs
			for g := 0; g < 9; g++ {
				acct := 1 + g%3
				hist := c07history(a.Arch, acct)
				contributing := 0
				for _, h := range hist {
					if len(h) > 0 {
						contributing++
					}
				}
				addr := fixture.Account(seed, acct)
				wg.Add(1)
				go func(g int) {
					defer wg.Done()
					for r := 0; r < rounds; r++ {
						lim := 1000
						if (g+r)%4 == 3 {
							lim = 2
						}
						ids, e := call(addr, lim, "", "")
						if ids == nil {
							ids = []int{}
						}
						if r%10 == 0 || e != "" || !c07sameAsFirst(hist, ids, lim) {
							mu.Lock()
							cobs = append(cobs, c07JObs{Kind: "json", Case: ci + 1, Acct: acct, Hist: hist, Limit: lim, Result: ids, Err: e,
								Multi: contributing >= 2, Whist: [][]string{}, Wresult: []string{}, Loaded: loadedNums})
							mu.Unlock()
						}
					}
				}(g)
			}
			wg.Wait()
			for _, o := range cobs {
				if o.Err == "" {
					o.Err = ""
				}
				out.Emit(o)
			}
		}
		// C03: addresses without history - random ones and ones aliasing a stored address in the pubkey index
		stored := map[string]bool{}
		for _, l := range eps {
			for _, tt := range l.built.TxBySig {
				for _, k := range tt.Accounts {
					stored[string(k[:])] = true
				}
				for _, k := range tt.Loaded {
					stored[string(k[:])] = true
				}
			}
		}
		var absent []solana.PublicKey
		var isAlias []bool
		for k := 0; k < 3; k++ {
			var pk solana.PublicKey
			rng.Read(pk[:])
			absent = append(absent, pk)
			isAlias = append(isAlias, false)
		}
		for _, l := range eps {
			r2 := rand.New(rand.NewSource(rng.Int63()))
			idx := filepath.Join(l.gsfaDir, "pubkey-to-offset-and-size.index")
			for _, k := range rpcAliases(idx, stored, func(i int) []byte { b := make([]byte, 32); r2.Read(b); return b }, 12_000_000, 1) {
				var pk solana.PublicKey
				copy(pk[:], k)
				absent = append(absent, pk)
				isAlias = append(isAlias, true)
			}
		}
		for k, pk := range absent {
			ids, e := call(pk, 1000, "", "")
			if ids == nil {
				ids = []int{}
			}
			out.Emit(c07JObs{Kind: "json", Case: ci + 1, Acct: 0, Hist: [][]int{}, Limit: 1000, Result: ids, Err: e, Alias: isAlias[k], Whist: [][]string{}, Wresult: []string{}, Loaded: loadedNums})
		}
		for _, l := range eps {
			l.epoch.Close()
			os.RemoveAll(filepath.Dir(l.built.CarPath))
		}
	}
}
