package main

// EpochOps replayer (growth, attached to C09): TLC-simulated sequences of file-system steps and MultiEpoch methods are
// executed on the real MultiEpoch; every reply, the resulting epoch numbers and the set of closed Epoch objects are
// recorded and validated by TLC against EpochOps (Trace_EpochOps).

import (
	"encoding/json"
	"fmt"
	"os"
	"path/filepath"
	"sort"
	"testing"
	"time"

	"github.com/rpcpool/yellowstone-faithful/zzverif/vt"
)

type eoOp struct {
	Op   string `json:"op"`
	Args []any  `json:"args"`
}

type eoObs struct {
	Op      string   `json:"op"`
	Args    []any    `json:"args"`
	Reply   any      `json:"reply"`
	Numbers []uint64 `json:"numbers"`
	Closed  []int    `json:"closed"`
	Served  []int    `json:"served"` // object ids serving the epochs of Numbers (0 = an object the sequence did not create)
}

func TestVerifEpochOps(t *testing.T) {
	out := vt.Out(t)
	defer out.Close()
	for ci, raw := range vt.Cases(t) {
		var c struct {
			Ops []eoOp `json:"ops"`
		}
		if err := json.Unmarshal(raw, &c); err != nil {
			t.Fatal(err)
		}
		dir := t.TempDir()
		multi := NewMultiEpoch(&Options{})
		var objs []*Epoch
		closed := map[int]bool{}
		path := func(f any) string { return filepath.Join(dir, fmt.Sprint(f)+".yml") }
		num := func(v any) int { return int(v.(float64)) }
		if ci > 0 {
			out.Emit(eoObs{Op: "reset", Args: []any{}, Reply: "ok", Numbers: []uint64{}, Closed: []int{}, Served: []int{}})
		}
		for _, op := range c.Ops {
			var reply any = "ok"
			errStr := func(err error, bad string) any {
				if err != nil {
					return bad
				}
				return "ok"
			}
			var pm string
			finished := make(chan struct{})
			go func() {
				defer close(finished)
				pm = vt.Guard(func() {
					switch op.Op {
					case "fsWrite":
						body := fmt.Sprintf("epoch: %d\nversion: %d\n", num(op.Args[1]), num(op.Args[2]))
						if err := os.WriteFile(path(op.Args[0]), []byte(body), 0o644); err != nil {
							t.Fatal(err)
						}
					case "fsDelete":
						os.Remove(path(op.Args[0]))
					case "new":
						cfg, err := LoadConfig(path(op.Args[0]))
						if err != nil || cfg.Epoch == nil {
							reply = "loaderror"
							return
						}
						id := len(objs) + 1
						ep := &Epoch{epoch: *cfg.Epoch, config: cfg}
						ep.onClose = append(ep.onClose, func() error {
							closed[id] = true
							if (id+ci)%2 == 0 {
								// every second object reports an error from its close hook (an I/O error on close, a double close):
								// the epoch set has to end up in the same state
								return fmt.Errorf("close of epoch object %d: input/output error", id)
							}
							return nil
						})
						objs = append(objs, ep)
						reply = id
					case "add":
						ep := objs[num(op.Args[0])-1]
						reply = errStr(multi.AddEpoch(ep.Epoch(), ep), "exists")
					case "remove":
						reply = errStr(multi.RemoveEpoch(uint64(num(op.Args[0]))), "notfound")
					case "replace":
						ep := objs[num(op.Args[0])-1]
						reply = errStr(multi.ReplaceEpoch(ep.Epoch(), ep), "notfound")
					case "replaceOrAdd":
						ep := objs[num(op.Args[0])-1]
						reply = errStr(multi.ReplaceOrAddEpoch(ep.Epoch(), ep), "error")
					case "removeByFile":
						n, err := multi.RemoveEpochByConfigFilepath(path(op.Args[0]))
						if err != nil {
							reply = -1
						} else {
							reply = int(n)
						}
					case "hasSameHash":
						reply = fmt.Sprint(multi.HasEpochWithSameHashAsFile(path(op.Args[0])))
					case "has":
						reply = fmt.Sprint(multi.HasEpoch(uint64(num(op.Args[0]))))
					default:
						t.Fatalf("unknown op %q", op.Op)
					}
				})
			}()
			select {
			case <-finished:
			case <-time.After(5 * time.Second):
				// the operation never returned (it still holds or waits for the epoch-set lock): nothing more can be executed
				out.Emit(eoObs{Op: op.Op, Args: op.Args, Reply: "hang", Numbers: []uint64{}, Closed: []int{}, Served: []int{}})
				return
			}
			if pm != "" {
				reply = "panic: " + pm
			}
			o := eoObs{Op: op.Op, Args: op.Args, Reply: reply, Numbers: multi.GetEpochNumbers(), Closed: []int{}}
			if o.Numbers == nil {
				o.Numbers = []uint64{}
			}
			if o.Args == nil {
				o.Args = []any{}
			}
			for id := range closed {
				o.Closed = append(o.Closed, id)
			}
			sort.Ints(o.Closed)
			o.Served = []int{}
			for _, n := range o.Numbers {
				got, _ := multi.GetEpoch(n)
				id := 0
				for k, x := range objs {
					if x == got {
						id = k + 1
					}
				}
				o.Served = append(o.Served, id)
			}
			// cross-check the edge queries against the numbers (most recent = first, oldest = last)
			if n, err := multi.GetMostRecentAvailableEpochNumber(); (err == nil) != (len(o.Numbers) > 0) || (err == nil && n != o.Numbers[0]) {
				o.Reply = fmt.Sprintf("mostRecent=%d err=%v", n, err)
			}
			if multi.CountEpochs() != len(o.Numbers) {
				o.Reply = fmt.Sprintf("count=%d", multi.CountEpochs())
			}
			out.Emit(o)
		}
	}
}
