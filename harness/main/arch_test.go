package main

// Abstract archive (spec/Ledger.tla vocabulary, JSON produced by spec/Gen_Ledger.tla) -> concrete fixture epochs.

import (
	"github.com/rpcpool/yellowstone-faithful/zzverif/fixture"
)

type aTx struct {
	Sig     int   `json:"sig"`
	Accts   []int `json:"accts"`
	Loaded  []int `json:"loaded"`
	Vote    bool  `json:"vote"`
	V0      bool  `json:"v0"`
	Failed  bool  `json:"failed"`
	Nometa  bool  `json:"nometa"`
	Dframes int   `json:"dframes"`
	Mframes int   `json:"mframes"`
	Pad     int   `json:"pad"`
	Mpad    int   `json:"mpad"`
}

type aEntry struct {
	Txs []aTx `json:"txs"`
}

type aBlock struct {
	Slot      uint64   `json:"slot"`
	Parent    uint64   `json:"parent"`
	Blocktime int64    `json:"blocktime"`
	Height    int64    `json:"height"`
	Entries   []aEntry `json:"entries"`
	Rframes   int      `json:"rframes"`
}

type aEpoch struct {
	Epoch  uint64   `json:"epoch"`
	Blocks []aBlock `json:"blocks"`
}

type aArch struct {
	Arch []aEpoch `json:"arch"`
}

var aPadBytes = []int{0, 180, 17000}     // instruction-data padding per size class (1-, 2-, 3-byte section varint)
var aMetaPadBytes = []int{0, 300, 24000} // incompressible metadata log bytes per size class

func (e aEpoch) spec(seed int64, fanout int) fixture.EpochSpec {
	s := fixture.EpochSpec{Epoch: e.Epoch, Seed: seed, Fanout: fanout, Trailer: true}
	for _, b := range e.Blocks {
		bs := fixture.BlockSpec{Slot: b.Slot, Parent: b.Parent, Blocktime: b.Blocktime, RewardsFrames: b.Rframes}
		if b.Height >= 0 {
			h := uint64(b.Height)
			bs.Height = &h
		}
		for _, en := range b.Entries {
			es := fixture.EntrySpec{}
			for _, t := range en.Txs {
				pad := aPadBytes[t.Pad]
				if t.Dframes > 1 && pad < 150 {
					// the archive writer never splits a payload so finely that the first frame holds less than the
					// signature section (the indexers read the first signature from the first frame)
					pad = 150
				}
				es.Txs = append(es.Txs, fixture.TxSpec{SigID: t.Sig, Accounts: t.Accts, Loaded: t.Loaded, Vote: t.Vote, V0: t.V0, Failed: t.Failed,
					NoMeta: t.Nometa, DataFrames: t.Dframes, MetaFrames: t.Mframes, Pad: pad, MetaPad: aMetaPadBytes[t.Mpad]})
			}
			bs.Entries = append(bs.Entries, es)
		}
		s.Blocks = append(s.Blocks, bs)
	}
	// the signature-prefix space has two ends: the first transactions of every generated epoch get the prefixes
	// 0x0000 and 0xffff (first and last bucket of the sig-exists index), the third one the prefix 0xfffe
	k := 0
	for bi := range s.Blocks {
		for ei := range s.Blocks[bi].Entries {
			for ti := range s.Blocks[bi].Entries[ei].Txs {
				if k < 3 {
					s.Blocks[bi].Entries[ei].Txs[ti].SigPrefix = []int{65536, 1, 65535}[k]
				}
				k++
			}
		}
	}
	return s
}

var aKindNames = []string{"tx", "entry", "block", "subset", "epoch", "rewards", "frame"}
