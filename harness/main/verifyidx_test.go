package main

// Index-verifier replayer (growth, attached to C01): the repository's own oracles for "every lookup is right" -
// verifyAllIndexes (`index all --verify`, `verify-index all`) and the four stand-alone VerifyIndex_* functions - are run on
// real archives whose index files carry exactly one deviation chosen by TLC (spec/VerifyIdx.tla: Classes). What the
// deviated files answer for the keys of the CAR is read back through the real index readers and recorded together with
// every tool's verdict; TLC (Trace_VerifyIdx) recomputes the verdict from the recorded content.

import (
	"context"
	"encoding/binary"
	"encoding/json"
	"fmt"
	"os"
	"path/filepath"
	"testing"

	"github.com/gagliardetto/solana-go"
	"github.com/ipfs/go-cid"
	"github.com/rpcpool/yellowstone-faithful/bucketteer"
	"github.com/rpcpool/yellowstone-faithful/indexes"
	"github.com/rpcpool/yellowstone-faithful/indexmeta"
	"github.com/rpcpool/yellowstone-faithful/zzverif/fixture"
	"github.com/rpcpool/yellowstone-faithful/zzverif/vt"
)

type viObj struct {
	Kind string `json:"kind"`
	Key  int    `json:"key"`
	Len  int    `json:"len"`
}

type viC2O struct {
	Found bool `json:"found"`
	Off   int  `json:"off"`
	Size  int  `json:"size"`
}

type viK2C struct {
	Found bool `json:"found"`
	Obj   int  `json:"obj"`
}

type viIdx struct {
	C2O    []viC2O `json:"c2o"`
	S2C    []viK2C `json:"s2c"`
	G2C    []viK2C `json:"g2c"`
	SX     []bool  `json:"sx"`
	SXRoot bool    `json:"sxroot"`
}

type viDev struct {
	Index string `json:"index"`
	What  string `json:"what"`
	At    int    `json:"at"`
}

type viObs struct {
	Case     int               `json:"case"`
	Car      []viObj           `json:"car"`
	Hdr      int               `json:"hdr"`
	Idx      viIdx             `json:"idx"`
	Dev      viDev             `json:"dev"`
	Pos      string            `json:"pos"`
	Verdicts map[string]string `json:"verdicts"`
	Errs     map[string]string `json:"errs"`
	Panic    string            `json:"panic"`
	Incon    string            `json:"inconclusive"`
}

type viClass struct {
	Index string `json:"index"`
	What  string `json:"what"`
	Pos   string `json:"pos"`
}

type viArchive struct {
	l      *loaded
	sigOf  map[int]solana.Signature // section -> first signature (transactions)
	slotOf map[int]uint64           // section -> slot (blocks)
	pos    map[string]int           // cid -> 1-based section number
}

func viLoad(l *loaded) *viArchive {
	a := &viArchive{l: l, sigOf: map[int]solana.Signature{}, slotOf: map[int]uint64{}, pos: map[string]int{}}
	for _, b := range l.built.Blocks {
		a.slotOf[b.Section] = b.Spec.Slot
		for _, tx := range b.Txs {
			a.sigOf[tx.Section] = tx.Sig
		}
	}
	for i, s := range l.built.Sections {
		a.pos[s.Cid.KeyString()] = i + 1
	}
	return a
}

// the abstract car: one object per section, key = position (the model's CIDs / keys are positions)
func (a *viArchive) car() []viObj {
	out := make([]viObj, 0, len(a.l.built.Sections))
	for i, s := range a.l.built.Sections {
		kind := "other"
		if _, ok := a.sigOf[i]; ok {
			kind = "tx"
		} else if _, ok := a.slotOf[i]; ok {
			kind = "block"
		}
		out = append(out, viObj{Kind: kind, Key: i + 1, Len: int(s.Length)})
	}
	return out
}

// what the given index files answer for the keys of this archive's CAR
func (a *viArchive) observe(p *IndexPaths) (viIdx, error) {
	n := len(a.l.built.Sections)
	o := viIdx{C2O: make([]viC2O, n), S2C: make([]viK2C, n), G2C: make([]viK2C, n), SX: make([]bool, n)}
	c2o, err := OpenIndex_CidToOffset(p.CidToOffsetAndSize)
	if err != nil {
		return o, err
	}
	defer c2o.Close()
	s2c, err := OpenIndex_SlotToCid(p.SlotToCid)
	if err != nil {
		return o, err
	}
	defer s2c.Close()
	g2c, err := OpenIndex_SigToCid(p.SignatureToCid)
	if err != nil {
		return o, err
	}
	defer g2c.Close()
	sx, err := bucketteer.Open(p.SignatureExists)
	if err != nil {
		return o, err
	}
	defer sx.Close()
	if rc, ok := sx.Meta().GetCid(indexmeta.MetadataKey_RootCid); ok && rc.Equals(a.l.built.Root) {
		o.SXRoot = true
	}
	for i, s := range a.l.built.Sections {
		if v, err := c2o.Get(s.Cid); err == nil {
			o.C2O[i] = viC2O{Found: true, Off: int(v.Offset), Size: int(v.Size)}
		}
		if slot, ok := a.slotOf[i]; ok {
			if c, err := s2c.Get(slot); err == nil {
				o.S2C[i] = viK2C{Found: true, Obj: a.pos[c.KeyString()]}
			}
		}
		if sig, ok := a.sigOf[i]; ok {
			if c, err := g2c.Get(sig); err == nil {
				o.G2C[i] = viK2C{Found: true, Obj: a.pos[c.KeyString()]}
			}
			if has, err := sx.Has(sig); err == nil && has {
				o.SX[i] = true
			}
		}
	}
	return o, nil
}

func (a *viArchive) candidates(index string) []int {
	var out []int
	for i := range a.l.built.Sections {
		_, isTx := a.sigOf[i]
		_, isBlock := a.slotOf[i]
		if index == "c2o" || (index == "s2c" && isBlock) || ((index == "g2c" || index == "sx") && isTx) {
			out = append(out, i)
		}
	}
	return out
}

// viPatchSigExists makes the sig-exists file forget one signature: the stored 64-bit hash of the signature gets its
// lowest bit flipped in place (the relative order of the bucket's hashes is unchanged).
func viPatchSigExists(src, dst string, sig solana.Signature) error {
	raw, err := os.ReadFile(src)
	if err != nil {
		return err
	}
	hs := int(binary.LittleEndian.Uint32(raw[:4]))
	hdr := raw[4 : 4+hs]
	const n = 65536
	tab := hdr[len(hdr)-n*10:]
	prefix := int(sig[0]) | int(sig[1])<<8
	off := -1
	for i := 0; i < n; i++ {
		if int(tab[i*10])|int(tab[i*10+1])<<8 == prefix {
			off = int(binary.LittleEndian.Uint64(tab[i*10+2 : i*10+10]))
		}
	}
	if off < 0 {
		return fmt.Errorf("prefix %d not in the offset table", prefix)
	}
	content := raw[4+hs:]
	cnt := int(binary.LittleEndian.Uint32(content[off : off+4]))
	want := bucketteer.Hash(sig)
	hit := false
	for i := 0; i < cnt; i++ {
		at := off + 4 + 8*i
		if binary.LittleEndian.Uint64(content[at:]) == want {
			binary.LittleEndian.PutUint64(content[at:], want^1)
			hit = true
		}
	}
	if !hit {
		return fmt.Errorf("hash of the signature not in its bucket")
	}
	return os.WriteFile(dst, raw, 0o644)
}

// deviate writes the index set of the archive with one deviation into dir and returns its paths and the section the
// deviation sits at (1-based)
func (a *viArchive) deviate(dir string, cl viClass, foreign *viArchive) (*IndexPaths, int, error) {
	p := *a.l.paths
	b := a.l.built
	cands := a.candidates(cl.Index)
	if len(cands) == 0 {
		return nil, 0, fmt.Errorf("no candidate object")
	}
	at := cands[0]
	switch cl.Pos {
	case "mid":
		at = cands[len(cands)/2]
	case "last":
		at = cands[len(cands)-1]
	}
	if cl.What == "none" {
		return &p, 1, nil
	}
	if cl.What == "foreign" {
		switch cl.Index {
		case "c2o":
			p.CidToOffsetAndSize = foreign.l.paths.CidToOffsetAndSize
		case "s2c":
			p.SlotToCid = foreign.l.paths.SlotToCid
		case "g2c":
			p.SignatureToCid = foreign.l.paths.SignatureToCid
		case "sx":
			p.SignatureExists = foreign.l.paths.SignatureExists
		}
		return &p, at + 1, nil
	}
	n := len(b.Sections)
	other := b.Sections[(at+1)%n].Cid // the model's k = (j % n) + 1, 1-based
	tmp := filepath.Join(dir, "tmp")
	os.MkdirAll(tmp, 0o755)
	ctx := context.Background()
	extra := cl.What == "extra"
	if extra {
		at = 0
	}
	switch cl.Index {
	case "c2o":
		w, err := indexes.NewWriter_CidToOffsetAndSize(b.Spec.Epoch, b.Root, indexes.NetworkMainnet, tmp, uint64(n+1))
		if err != nil {
			return nil, 0, err
		}
		for i, s := range b.Sections {
			off, size := s.Offset, s.Length
			if i == at && !extra {
				switch cl.What {
				case "drop":
					continue
				case "off":
					off++
				case "size":
					size++
				}
			}
			if err := w.Put(s.Cid, off, size); err != nil {
				return nil, 0, err
			}
		}
		if extra {
			if err := w.Put(viForeignCid(foreign, a), 77, 88); err != nil {
				return nil, 0, err
			}
		}
		if err := w.Seal(ctx, dir); err != nil {
			return nil, 0, err
		}
		p.CidToOffsetAndSize = w.GetFilepath()
		w.Close()
	case "s2c":
		w, err := indexes.NewWriter_SlotToCid(b.Spec.Epoch, b.Root, indexes.NetworkMainnet, tmp, uint64(len(b.Blocks)+1))
		if err != nil {
			return nil, 0, err
		}
		for _, bl := range b.Blocks {
			c := bl.Cid
			if bl.Section == at && !extra {
				if cl.What == "drop" {
					continue
				}
				c = other
			}
			if err := w.Put(bl.Spec.Slot, c); err != nil {
				return nil, 0, err
			}
		}
		if extra {
			if err := w.Put(b.Spec.Epoch*432000+431998, b.Root); err != nil {
				return nil, 0, err
			}
		}
		if err := w.Seal(ctx, dir); err != nil {
			return nil, 0, err
		}
		p.SlotToCid = w.GetFilepath()
		w.Close()
	case "g2c":
		w, err := indexes.NewWriter_SigToCid(b.Spec.Epoch, b.Root, indexes.NetworkMainnet, tmp, uint64(len(b.TxBySig)+1))
		if err != nil {
			return nil, 0, err
		}
		for _, bl := range b.Blocks {
			for _, tx := range bl.Txs {
				c := tx.Cid
				if tx.Section == at && !extra {
					if cl.What == "drop" {
						continue
					}
					c = other
				}
				if err := w.Put(tx.Sig, c); err != nil {
					return nil, 0, err
				}
			}
		}
		if extra {
			if err := w.Put(fixture.Sig(b.Spec.Seed+777, 4242), b.Root); err != nil {
				return nil, 0, err
			}
		}
		if err := w.Seal(ctx, dir); err != nil {
			return nil, 0, err
		}
		p.SignatureToCid = w.GetFilepath()
		w.Close()
	case "sx":
		if extra {
			// a signature the archive does not hold, "added" by taking the foreign file's place of... not expressible by a
			// patch without growing a bucket: the harmless class for this index is the unchanged file
			return &p, 1, nil
		}
		dst := filepath.Join(dir, "sig-exists.patched.index")
		if err := viPatchSigExists(p.SignatureExists, dst, a.sigOf[at]); err != nil {
			return nil, 0, err
		}
		p.SignatureExists = dst
	}
	return &p, at + 1, nil
}

// a CID that is in the foreign archive but not in this one
func viForeignCid(foreign, a *viArchive) cid.Cid {
	for _, s := range foreign.l.built.Sections {
		if _, ok := a.pos[s.Cid.KeyString()]; !ok {
			return s.Cid
		}
	}
	return foreign.l.built.Root
}

func viVerdicts(carPath string, p *IndexPaths) (map[string]string, map[string]string, string) {
	ctx := context.Background()
	tools := []struct {
		name string
		run  func() error
	}{
		{"all", func() error { return verifyAllIndexes(ctx, carPath, p, 0) }},
		{"all-nosx", func() error {
			q := *p
			q.SignatureExists = ""
			return verifyAllIndexes(ctx, carPath, &q, 0)
		}},
		{"c2o", func() error { return VerifyIndex_cid2offset(ctx, carPath, p.CidToOffsetAndSize) }},
		{"s2c", func() error { return VerifyIndex_slot2cid(ctx, carPath, p.SlotToCid) }},
		{"g2c", func() error { return VerifyIndex_sig2cid(ctx, carPath, p.SignatureToCid) }},
		{"sx", func() error { return VerifyIndex_sigExists(ctx, carPath, p.SignatureExists) }},
	}
	v, e, pan := map[string]string{}, map[string]string{}, ""
	for _, tl := range tools {
		var err error
		if pm := vt.Guard(func() { err = tl.run() }); pm != "" {
			pan = tl.name + ": " + pm
			v[tl.name] = "fail"
			continue
		}
		if err != nil {
			v[tl.name] = "fail"
			msg := err.Error()
			if len(msg) > 160 {
				msg = msg[:160]
			}
			e[tl.name] = msg
		} else {
			v[tl.name] = "ok"
		}
	}
	return v, e, pan
}

func TestVerifVerifyIdx(t *testing.T) {
	out := vt.Out(t)
	defer out.Close()
	seed := vt.Seed()
	// stdout of the tools (spew dump of the epoch node) is not wanted in the test log
	if devnull, err := os.OpenFile(os.DevNull, os.O_WRONLY, 0); err == nil {
		saved := os.Stdout
		os.Stdout = devnull
		defer func() { os.Stdout = saved }()
	}
	for ci, raw := range vt.Cases(t) {
		var c struct {
			Arch    []aEpoch  `json:"arch"`
			Classes []viClass `json:"classes"`
		}
		if err := json.Unmarshal(raw, &c); err != nil {
			t.Fatal(err)
		}
		ep := c.Arch[0]
		l, err := vBuild(t, ep.spec(seed*1000+int64(ci), 1+ci%6), false)
		if err != nil {
			out.Emit(viObs{Case: ci + 1, Incon: err.Error(), Car: []viObj{}, Verdicts: map[string]string{}, Errs: map[string]string{}})
			continue
		}
		lf, err := vBuild(t, ep.spec(seed*1000+int64(ci)+500, 1+ci%6), false)
		if err != nil {
			out.Emit(viObs{Case: ci + 1, Incon: "foreign: " + err.Error(), Car: []viObj{}, Verdicts: map[string]string{}, Errs: map[string]string{}})
			continue
		}
		a, f := viLoad(l), viLoad(lf)
		car := a.car()
		for k, cl := range c.Classes {
			o := viObs{Case: ci + 1, Car: car, Hdr: int(l.built.HeaderSize), Pos: cl.Pos, Dev: viDev{Index: cl.Index, What: cl.What, At: 1}}
			dir := filepath.Join(t.TempDir(), fmt.Sprintf("dev-%d", k))
			os.MkdirAll(dir, 0o755)
			p, at, err := a.deviate(dir, cl, f)
			if err != nil {
				o.Incon = "deviate: " + err.Error()
				o.Verdicts, o.Errs = map[string]string{}, map[string]string{}
				out.Emit(o)
				continue
			}
			o.Dev.At = at
			if o.Idx, err = a.observe(p); err != nil {
				o.Incon = "observe: " + err.Error()
				o.Verdicts, o.Errs = map[string]string{}, map[string]string{}
				out.Emit(o)
				continue
			}
			o.Verdicts, o.Errs, o.Panic = viVerdicts(l.built.CarPath, p)
			out.Emit(o)
			os.RemoveAll(dir)
		}
		os.RemoveAll(filepath.Dir(l.built.CarPath))
		os.RemoveAll(filepath.Dir(lf.built.CarPath))
	}
}
