package main

// C08 replayer (R3): every request class enumerated by spec/RpcGrammar.tla and spec/GrpcGrammar.tla is concretised and
// sent to the real HTTP handler (in-memory fasthttp context) / the real gRPC methods with 0, 1 and 2 epochs loaded.
// The replay runs in a child process (this binary re-executed): a panic inside a goroutine spawned by a handler kills
// the whole process - the parent attributes the death to the case in progress and resumes after it.

import (
	"context"
	"encoding/json"
	"fmt"
	"io"
	"math/rand"
	"os"
	"os/exec"
	"strconv"
	"strings"
	"testing"
	"time"

	old_faithful_grpc "github.com/rpcpool/yellowstone-faithful/old-faithful-proto/old-faithful-grpc"
	"github.com/rpcpool/yellowstone-faithful/zzverif/fixture"
	"github.com/rpcpool/yellowstone-faithful/zzverif/vt"
	"github.com/valyala/fasthttp"
	"google.golang.org/grpc"
)

type c08Case struct {
	Kind   string `json:"kind"`
	HTTP   string `json:"http"`
	Path   string `json:"path"`
	Body   string `json:"body"`
	Method string `json:"method"`
	Pshape string `json:"pshape"`
	First  string `json:"first"`
	Second string `json:"second"`
	ID     string `json:"id"`
	Epochs int    `json:"epochs"`
	Expect string `json:"expect"`
	// grpc
	RPC   string `json:"rpc"`
	SlotC string `json:"slotc"`
	SigC  string `json:"sigc"`
	EndC  string `json:"endc"`
	Filt  string `json:"filt"`
	Inc   string `json:"inc"`
	Exc   string `json:"exc"`
	Req   string `json:"req"`
	GetC  string `json:"getc"`
	Index bool   `json:"index"`
}

type c08Obs struct {
	Case    int    `json:"case"`
	Proto   string `json:"proto"`
	Class   string `json:"class"`
	Epochs  int    `json:"epochs"`
	Outcome string `json:"outcome"` // response | error | panic | crash | hang
	Canary  bool   `json:"canary"`
	Detail  string `json:"detail"`
	Site    string `json:"site"`
	Expect  string `json:"expect"`
	Ms      int64  `json:"ms"`
	Reached bool   `json:"reached"` // passed the transport-level checks (reaches JSON-RPC dispatch / a gRPC method)
}

type c08World struct {
	multis  [3]*MultiEpoch // by number of loaded epochs (address index loaded)
	noIndex [3]*MultiEpoch
	l1, l2  *loaded
	sig     string
	addr    string
	slot    uint64
	skipped uint64
}

func c08world(t *testing.T) *c08World {
	w := &c08World{}
	cache := vCache(t)
	w.l1 = vBuildAndLoad(t, c10spec(1, 801), true, cache)
	w.l2 = vBuildAndLoad(t, c10spec(2, 802), true, cache)
	plain := func(l *loaded) *Epoch {
		cfg := *l.cfg
		cfg.Indexes.Gsfa.URI = ""
		e, err := NewEpochFromConfig(&cfg, vCliCtx(), cache, nil)
		if err != nil {
			t.Fatal(err)
		}
		return e
	}
	p1, p2 := plain(w.l1), plain(w.l2)
	for n := 0; n <= 2; n++ {
		w.multis[n] = NewMultiEpoch(&Options{EpochSearchConcurrency: 2})
		w.noIndex[n] = NewMultiEpoch(&Options{EpochSearchConcurrency: 2})
		if n >= 1 {
			w.multis[n].AddEpoch(1, w.l1.epoch)
			w.noIndex[n].AddEpoch(1, p1)
		}
		if n >= 2 {
			w.multis[n].AddEpoch(2, w.l2.epoch)
			w.noIndex[n].AddEpoch(2, p2)
		}
	}
	w.sig = w.l1.built.Blocks[0].Txs[0].Sig.String()
	w.addr = fixture.Account(w.l1.built.Spec.Seed, 1).String()
	w.slot = w.l1.built.Blocks[1].Spec.Slot
	w.skipped = w.l1.built.Blocks[1].Spec.Slot + 1
	return w
}

func (w *c08World) jsonBody(c *c08Case, rng *rand.Rand) string {
	switch c.Body {
	case "empty":
		return ""
	case "garbage":
		return "\x00\xff{" + strconv.Itoa(rng.Intn(100))
	case "truncated":
		return `{"jsonrpc":"2.0","id":1,"meth`
	case "array":
		return `[{"jsonrpc":"2.0","id":1,"method":"getSlot"}]`
	case "null":
		return "null"
	case "number":
		return "7"
	case "string":
		return `"getSlot"`
	case "oversize":
		return `{"jsonrpc":"2.0","id":1,"method":"getSlot","params":["` + strings.Repeat("x", 1100+rng.Intn(200)) + `"]}`
	}
	first := func() string {
		switch c.First {
		case "null":
			return "null"
		case "bool":
			return "true"
		case "key-archived":
			if c.Method == "getSignaturesForAddress" {
				return `"` + w.addr + `"`
			}
			return `"` + w.sig + `"`
		case "key-absent":
			if c.Method == "getSignaturesForAddress" {
				return `"` + fixture.Account(99, rng.Intn(1000)).String() + `"`
			}
			return `"` + fixture.Sig(99, rng.Intn(1000)).String() + `"`
		case "garbage-string":
			return `"not-base58-0OIl!"`
		case "empty-string":
			return `""`
		case "long-string":
			return `"` + strings.Repeat("1", 300) + `"`
		case "int-archived":
			return fmt.Sprint(w.slot)
		case "int-first":
			return fmt.Sprint(w.l1.built.Blocks[0].Spec.Slot)
		case "int-absent":
			return fmt.Sprint(w.skipped)
		case "negative":
			return "-1"
		case "fraction":
			return "432010.5"
		case "huge":
			return "1e30"
		case "array":
			return "[1]"
		default:
			return `{"a":1}`
		}
	}
	second := func() string {
		switch c.Second {
		case "none":
			return ""
		case "null":
			return ",null"
		case "number":
			return ",7"
		case "string":
			return `,"x"`
		case "array":
			return ",[1]"
		case "empty":
			return ",{}"
		case "valid":
			if c.Method == "getSignaturesForAddress" {
				return `,{"limit":5}`
			}
			return `,{"encoding":"base64","maxSupportedTransactionVersion":0,"commitment":"finalized"}`
		case "wrongtypes":
			return `,{"encoding":5,"commitment":7,"limit":"x","before":1,"until":[],"rewards":"x","transactionDetails":3,"maxSupportedTransactionVersion":"a"}`
		case "unknown-encoding":
			return `,{"encoding":"nope"}`
		case "bad-sigs":
			return `,{"before":"zzz","until":"!!!"}`
		case "null-members":
			return `,{"encoding":"base64","rewards":null,"commitment":null,"transactionDetails":null,"maxSupportedTransactionVersion":null,"limit":null,"before":null,"until":null}`
		case "null-encoding":
			return `,{"encoding":null}`
		case "huge-limit":
			return `,{"limit":1e15,"encoding":"base58"}`
		default:
			return `,{"limit":-5,"encoding":"jsonParsed"}`
		}
	}
	var params string
	switch c.Pshape {
	case "absent":
		params = ""
	case "null":
		params = `,"params":null`
	case "emptyarray":
		params = `,"params":[]`
	case "object":
		params = `,"params":{"slot":1}`
	case "string":
		params = `,"params":"str"`
	case "number":
		params = `,"params":7`
	default:
		params = `,"params":[` + first() + second() + `]`
	}
	var method string
	switch c.Method {
	case "nonstring":
		method = `,"method":5`
	case "absent":
		method = ""
	case "unknown":
		method = `,"method":"getNope"`
	case "unknown:long":
		method = `,"method":"` + strings.Repeat("getNope", 40) + `"`
	case "unknown:nonascii":
		method = `,"method":"getÑope☃"`
	case "unknown:control":
		method = `,"method":"get\u0000\u001f\u007fNope"`
	default:
		if strings.HasPrefix(c.Method, "unknown:mb") {
			// a rune of the given width starting at the given byte offset of the name
			var wdt, at int
			fmt.Sscanf(c.Method, "unknown:mb%d@%d", &wdt, &at)
			r := map[int]string{2: "é", 3: "☃", 4: "😀"}[wdt]
			method = `,"method":"` + strings.Repeat("a", at) + r + `tail"`
			break
		}
		method = `,"method":"` + c.Method + `"`
	}
	var id string
	switch c.ID {
	case "int":
		id = `,"id":1`
	case "string":
		id = `,"id":"abc"`
	case "null":
		id = `,"id":null`
	case "object":
		id = `,"id":{"x":1}`
	}
	return `{"jsonrpc":"2.0"` + id + method + params + `}`
}

type c08Stream struct {
	grpc.ServerStream
	ctx  context.Context
	reqs []*old_faithful_grpc.GetRequest
	i    int
	sent int
}

func (s *c08Stream) Context() context.Context { return s.ctx }
func (s *c08Stream) Send(*old_faithful_grpc.GetResponse) error {
	s.sent++
	return nil
}
func (s *c08Stream) Recv() (*old_faithful_grpc.GetRequest, error) {
	if s.i >= len(s.reqs) {
		return nil, io.EOF
	}
	s.i++
	return s.reqs[s.i-1], nil
}

func (w *c08World) accts(class string) []string {
	switch class {
	case "valid":
		return []string{w.addr}
	case "malformed":
		return []string{"not-base58-0OIl!"}
	case "emptystring":
		return []string{""}
	case "valid+malformed":
		return []string{w.addr, "xx"}
	}
	return nil
}

func (w *c08World) doGrpc(c *c08Case, multi *MultiEpoch) (outcome, detail string) {
	ctx, cancel := context.WithTimeout(context.Background(), 20*time.Second)
	defer cancel()
	var slot uint64
	switch c.SlotC {
	case "archived":
		slot = w.slot
	case "first-of-epoch":
		slot = w.l1.built.Blocks[0].Spec.Slot
	case "skipped":
		slot = w.skipped
	case "huge":
		slot = 1<<63 + 5
	case "other-epoch":
		slot = 2*432000 + 4
	}
	var sig []byte
	switch c.SigC {
	case "short":
		sig = []byte{1, 2, 3}
	case "archived":
		s := w.l1.built.Blocks[0].Txs[0].Sig
		sig = s[:]
	case "absent":
		s := fixture.Sig(99, 5)
		sig = s[:]
	case "long":
		sig = make([]byte, 100)
	}
	var end *uint64
	switch c.EndC {
	case "after":
		e := slot + 6
		end = &e
	case "before-start":
		e := slot
		slot += 10 // end < start
		end = &e
	case "epochs-before-start":
		e := slot
		slot += 3 * 432000 // end < start, several epochs apart
		end = &e
	case "huge":
		e := slot + 5000
		end = &e
	}
	var err error
	tr, fa := true, false
	switch c.RPC {
	case "GetVersion":
		_, err = multi.GetVersion(ctx, &old_faithful_grpc.VersionRequest{})
	case "GetBlock":
		_, err = multi.GetBlock(ctx, &old_faithful_grpc.BlockRequest{Slot: slot})
	case "GetBlockTime":
		_, err = multi.GetBlockTime(ctx, &old_faithful_grpc.BlockTimeRequest{Slot: slot})
	case "GetTransaction":
		_, err = multi.GetTransaction(ctx, &old_faithful_grpc.TransactionRequest{Signature: sig})
	case "StreamBlocks":
		var f *old_faithful_grpc.StreamBlocksFilter
		if c.Filt != "nil" {
			f = &old_faithful_grpc.StreamBlocksFilter{AccountInclude: w.accts(c.Inc)}
		}
		err = multi.StreamBlocks(&old_faithful_grpc.StreamBlocksRequest{StartSlot: slot, EndSlot: end, Filter: f}, &fakeBlockStream{ctx: ctx})
	case "StreamTransactions":
		var f *old_faithful_grpc.StreamTransactionsFilter
		if c.Filt != "nil" {
			f = &old_faithful_grpc.StreamTransactionsFilter{AccountInclude: w.accts(c.Inc), AccountExclude: w.accts(c.Exc), AccountRequired: w.accts(c.Req)}
			switch c.Filt {
			case "vote-only":
				f.Vote = &tr
			case "failed-only":
				f.Failed = &tr
			case "both-false":
				f.Vote, f.Failed = &fa, &fa
			case "both-true":
				f.Vote, f.Failed = &tr, &tr
			}
		}
		err = multi.StreamTransactions(&old_faithful_grpc.StreamTransactionsRequest{StartSlot: slot, EndSlot: end, Filter: f}, &fakeTxStream{ctx: ctx})
	case "Get":
		var reqs []*old_faithful_grpc.GetRequest
		mk := func(kind string, id uint64) *old_faithful_grpc.GetRequest {
			r := &old_faithful_grpc.GetRequest{Id: id}
			switch kind {
			case "version":
				r.Request = &old_faithful_grpc.GetRequest_Version{Version: &old_faithful_grpc.VersionRequest{}}
			case "block":
				r.Request = &old_faithful_grpc.GetRequest_Block{Block: &old_faithful_grpc.BlockRequest{Slot: slot}}
			case "blocktime":
				r.Request = &old_faithful_grpc.GetRequest_BlockTime{BlockTime: &old_faithful_grpc.BlockTimeRequest{Slot: slot}}
			case "transaction":
				r.Request = &old_faithful_grpc.GetRequest_Transaction{Transaction: &old_faithful_grpc.TransactionRequest{Signature: sig}}
			}
			return r
		}
		if c.GetC == "mixed" {
			reqs = []*old_faithful_grpc.GetRequest{mk("block", 1), mk("nil-oneof", 2), mk("transaction", 3), mk("version", 4), mk("blocktime", 5)}
		} else {
			reqs = []*old_faithful_grpc.GetRequest{mk(c.GetC, 1)}
		}
		err = multi.Get(&c08Stream{ctx: ctx, reqs: reqs})
	}
	if err != nil {
		d := err.Error()
		if len(d) > 100 {
			d = d[:100]
		}
		return "error", d
	}
	return "response", ""
}

func (w *c08World) canary(multi *MultiEpoch, h func(*fasthttp.RequestCtx), epochs int) bool {
	st, out, p := vCall(h, `{"jsonrpc":"2.0","id":1,"method":"getVersion"}`)
	if p != nil || st != 200 || !strings.Contains(out, `"result"`) {
		return false
	}
	if epochs >= 1 {
		_, out, p = vCall(h, fmt.Sprintf(`{"jsonrpc":"2.0","id":1,"method":"getBlockTime","params":[%d]}`, w.slot))
		if p != nil || !strings.Contains(out, `"result"`) {
			return false
		}
	}
	return true
}

func TestVerifC08Child(t *testing.T) {
	from, err := strconv.Atoi(os.Getenv("VERIF_C08_FROM"))
	if err != nil {
		t.Skip("child only")
	}
	progress := os.Getenv("VERIF_C08_PROGRESS")
	out := vt.Out(t)
	defer out.Close()
	cases := vt.Cases(t)
	w := c08world(t)
	handlers := [3]func(*fasthttp.RequestCtx){}
	for n := 0; n <= 2; n++ {
		handlers[n] = newMultiEpochHandler(w.multis[n], nil)
	}
	rng := rand.New(rand.NewSource(vt.Seed()))
	for i := from; i < len(cases); i++ {
		var c c08Case
		if err := json.Unmarshal(cases[i], &c); err != nil {
			t.Fatal(err)
		}
		os.WriteFile(progress, []byte(strconv.Itoa(i)), 0o644)
		o := c08Obs{Case: i + 1, Epochs: c.Epochs, Expect: c.Expect}
		multi := w.multis[c.Epochs]
		h := handlers[c.Epochs]
		done := make(chan struct{})
		t0 := time.Now()
		go func() {
			defer close(done)
			if c.Kind == "grpc" {
				o.Proto, o.Reached = "grpc", true
				o.Class = fmt.Sprintf("%s slot=%s sig=%s end=%s filter=%s inc=%s exc=%s req=%s get=%s index=%v", c.RPC, c.SlotC, c.SigC, c.EndC, c.Filt, c.Inc, c.Exc, c.Req, c.GetC, c.Index)
				m := multi
				if !c.Index {
					m = w.noIndex[c.Epochs]
				}
				var oc, d string
				if p := vt.Guard(func() { oc, d = w.doGrpc(&c, m) }); p != "" {
					o.Outcome, o.Detail = "panic", p
					if i := strings.LastIndex(p, " @ "); i >= 0 {
						o.Site = p[i+3:]
					}
				} else {
					o.Outcome, o.Detail = oc, d
				}
				return
			}
			o.Proto = "http"
			o.Class = fmt.Sprintf("%s %s body=%s method=%s params=%s first=%s second=%s id=%s", c.HTTP, c.Path, c.Body, c.Method, c.Pshape, c.First, c.Second, c.ID)
			o.Reached = c.Kind == "call"
			var rc fasthttp.RequestCtx
			var rq fasthttp.Request
			rq.Header.SetMethod(c.HTTP)
			// K = an archived key of the endpoint's kind, A = an absent one, G = garbage, "long" = a very long argument
			key, absent := fmt.Sprint(w.slot), "123456789"
			if strings.Contains(c.Path, "sig-to-cid") {
				key, absent = w.sig, fixture.Sig(99, 7).String()
			}
			path := c.Path
			switch {
			case strings.HasSuffix(path, "long"):
				path = strings.TrimSuffix(path, "long") + strings.Repeat("9", 5000)
			case strings.Contains(path, "/K"):
				path = strings.Replace(path, "/K", "/"+key, 1)
			case strings.HasSuffix(path, "/A"):
				path = strings.TrimSuffix(path, "A") + absent
			case strings.HasSuffix(path, "/G"):
				path = strings.TrimSuffix(path, "G") + []string{"zzz", "-1", "1e9", "0x10", " ", "%00"}[rng.Intn(6)]
			}
			rq.SetRequestURI(path)
			if c.HTTP != "GET" || c.Body == "object" {
				rq.SetBodyString(w.jsonBody(&c, rng))
			}
			rc.Init(&rq, nil, nil)
			if p := vt.Guard(func() { h(&rc) }); p != "" {
				o.Outcome, o.Detail = "panic", p
				if i := strings.LastIndex(p, " @ "); i >= 0 {
					o.Site = p[i+3:]
				}
				return
			}
			body := string(rc.Response.Body())
			if rc.Response.StatusCode() >= 400 || strings.Contains(body, `"error"`) {
				o.Outcome = "error"
			} else {
				o.Outcome = "response"
			}
			o.Detail = fmt.Sprintf("status %d", rc.Response.StatusCode())
		}()
		select {
		case <-done:
		case <-time.After(30 * time.Second):
			o.Outcome, o.Detail = "hang", "no answer within 30 s"
		}
		o.Ms = time.Since(t0).Milliseconds()
		o.Canary = w.canary(multi, h, c.Epochs)
		out.Emit(o)
		if o.Outcome == "hang" {
			out.Flush()
			os.Exit(3) // a hung handler goroutine cannot be reclaimed: let the parent restart after this case
		}
		if i%200 == 0 {
			out.Flush()
		}
	}
}

func TestVerifC08(t *testing.T) {
	out := vt.Out(t)
	defer out.Close()
	cases := vt.Cases(t)
	from := 0
	scratch := t.TempDir()
	restarts := 0
	for from < len(cases) {
		progress := scratch + "/progress"
		childOut := fmt.Sprintf("%s/obs-%d.ndjson", scratch, from)
		os.WriteFile(progress, []byte(strconv.Itoa(from)), 0o644)
		cmd := exec.Command(os.Args[0], "-test.run=^TestVerifC08Child$", "-test.timeout=60m")
		cmd.Env = append(os.Environ(), fmt.Sprintf("VERIF_C08_FROM=%d", from), "VERIF_C08_PROGRESS="+progress, "VERIF_OUT="+childOut)
		b, err := cmd.CombinedOutput()
		n := 0
		last := from - 1
		if f, e := os.ReadFile(childOut); e == nil {
			for _, line := range strings.Split(string(f), "\n") {
				if strings.TrimSpace(line) == "" {
					continue
				}
				var o c08Obs
				if json.Unmarshal([]byte(line), &o) == nil {
					out.Emit(o)
					n++
					last = o.Case - 1
				}
			}
		}
		if err == nil {
			break
		}
		// the child died: the case in the progress file killed the process
		pb, _ := os.ReadFile(progress)
		at, _ := strconv.Atoi(strings.TrimSpace(string(pb)))
		if at <= last {
			from = last + 1 // a hang: already recorded by the child
			continue
		}
		s := string(b)
		detail := ""
		if i := strings.Index(s, "panic:"); i >= 0 {
			detail = s[i:]
		} else if i := strings.Index(s, "fatal error:"); i >= 0 {
			detail = s[i:]
		} else if len(s) > 400 {
			detail = s[len(s)-400:]
		}
		site := vPanicSite(detail)
		if len(detail) > 300 {
			detail = detail[:300]
		}
		var c c08Case
		json.Unmarshal(cases[at], &c)
		out.Emit(c08Obs{Case: at + 1, Proto: map[bool]string{true: "grpc", false: "http"}[c.Kind == "grpc"], Class: fmt.Sprintf("%+v", c), Epochs: c.Epochs,
			Outcome: "crash", Canary: false, Detail: detail, Site: site, Reached: true})
		from = at + 1
		restarts++
		if restarts >= 25 {
			// enough evidence: stop replaying (the remaining classes are reported as not replayed)
			t.Logf("stopping after %d process deaths; %d of %d classes replayed", restarts, from, len(cases))
			break
		}
	}
	t.Logf("cases=%d child restarts=%d", len(cases), restarts)
}
