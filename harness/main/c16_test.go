package main

// C16 replayer (writer side): generated epoch CARs split by the real `split-car` command at target sizes that
// force 1..N pieces; every piece is parsed by an independent CAR walker (go-car framing) and projected to the
// ids of the original sections; the reassembled CAR is read back through the real SplitCarReader.

import (
	"bufio"
	"bytes"
	"encoding/binary"
	"fmt"
	"io"
	"os"
	"os/exec"
	"path/filepath"
	"testing"

	"github.com/anjor/carlet"
	"github.com/ipld/go-car/util"
	splitcarfetcher "github.com/rpcpool/yellowstone-faithful/split-car-fetcher"
	"github.com/rpcpool/yellowstone-faithful/zzverif/fixture"
	"github.com/rpcpool/yellowstone-faithful/zzverif/vt"
	"github.com/urfave/cli/v2"
)

type c16Piece struct {
	Hdr       uint64 `json:"hdr"`
	Content   uint64 `json:"content"`
	File      int64  `json:"file"`
	HdrActual uint64 `json:"hdrActual"`
	RegionOK  bool   `json:"regionOK"`
	Secs      []int  `json:"secs"`
	Trailing  int    `json:"trailing"`  // sections found after the content region (subset / epoch nodes)
	TrailOK   bool   `json:"trailok"`   // the bytes after the content region are well-formed CAR sections up to the end of the file
	TrailOrig int    `json:"trailorig"` // ... of which are objects of the original CAR (must be none: every object is in one piece)
}

type c16Split struct {
	Kind     string     `json:"kind"`
	Target   int64      `json:"target"`
	Blocks   int        `json:"blocks"`
	Orig     []int      `json:"orig"`
	Families [][]int    `json:"families"`
	Pieces   []c16Piece `json:"pieces"`
	Readback []int      `json:"readback"`
	HeaderOK bool       `json:"headerOK"`
	Err      string     `json:"err"`
	// growth (merge-cars, the inverse tool): the real merge of the written pieces vs the nul-root header followed by every
	// piece's bytes after its header
	// kind "splitfault": the same split with one piece file impossible to create (a directory of that name is in the way):
	// the command has to fail loudly (non-zero exit / panic), or its output has to be complete all the same
	Loud       bool `json:"loud"`
	Complete   bool `json:"complete"`
	MergedLen  int  `json:"mergedlen"`
	MergeWant  int  `json:"mergewant"`
	MergedSame bool `json:"mergedsame"`
}

type c16plain struct {
	*os.File
	size int64
}

func (p *c16plain) Size() int64 { return p.size }

// walk parses CAR sections from b (no header) and returns the id of each section (0 = unknown bytes)
func c16walk(b []byte, ids map[string]int) (secs []int, ok bool) {
	br := bufio.NewReader(bytes.NewReader(b))
	consumed := 0
	for consumed < len(b) {
		sec, err := util.LdRead(br)
		if err != nil {
			return secs, false
		}
		ll := len(encodeUvarintC16(uint64(len(sec))))
		consumed += ll + len(sec)
		secs = append(secs, ids[string(sec)])
	}
	return secs, consumed == len(b)
}

func encodeUvarintC16(n uint64) []byte {
	var buf [10]byte
	i := 0
	for n >= 0x80 {
		buf[i] = byte(n) | 0x80
		n >>= 7
		i++
	}
	buf[i] = byte(n)
	return buf[:i+1]
}

func c16spec(rng interface{ Intn(int) int }, nblocks int, epoch uint64, seed int64) fixture.EpochSpec {
	spec := fixture.EpochSpec{Epoch: epoch, Seed: seed, Fanout: 2 + rng.Intn(4), Trailer: true}
	base := epoch * 432000
	parent := base
	sig := 1
	for i := 0; i < nblocks; i++ {
		slot := base + 5 + uint64(i*3+rng.Intn(3))
		if i > 0 && slot <= spec.Blocks[i-1].Slot {
			slot = spec.Blocks[i-1].Slot + 1
		}
		b := fixture.BlockSpec{Slot: slot, Parent: parent, Blocktime: int64(1700000000 + slot), RewardsFrames: rng.Intn(3)}
		ne := rng.Intn(3)
		for e := 0; e < ne; e++ {
			es := fixture.EntrySpec{}
			for k := 0; k < rng.Intn(4); k++ {
				es.Txs = append(es.Txs, fixture.TxSpec{SigID: sig, Accounts: []int{1, 2 + k%3}, DataFrames: 1 + rng.Intn(3), MetaFrames: 1 + rng.Intn(2), Pad: rng.Intn(300), MetaPad: rng.Intn(200)})
				sig++
			}
			b.Entries = append(b.Entries, es)
		}
		spec.Blocks = append(spec.Blocks, b)
		parent = slot
	}
	return spec
}

// c16fit searches a transaction shape one of whose sections has a body (CID + data: the value of the section's length
// varint) of exactly `target` bytes, in a one-transaction CAR built with the same seed
func c16fit(dir string, target int, seed int64) (fixture.TxSpec, bool) {
	for pad := 0; pad < 1200; pad++ {
		ts := fixture.TxSpec{SigID: 1, Accounts: []int{1}, DataFrames: 3, MetaFrames: 1, NoMeta: true, Pad: 150 + pad}
		if target > 1000 {
			ts = fixture.TxSpec{SigID: 1, Accounts: []int{1}, DataFrames: 1, MetaFrames: 1, NoMeta: true, Pad: target - 700 + pad}
		}
		spec := fixture.EpochSpec{Epoch: 1, Seed: seed, Fanout: 2, Blocks: []fixture.BlockSpec{{Slot: 432001, Parent: 432000, Entries: []fixture.EntrySpec{{Txs: []fixture.TxSpec{ts}}}}}}
		b, err := fixture.Build(spec, filepath.Join(dir, "fit.car"))
		if err != nil {
			return ts, false
		}
		for _, s := range b.Sections {
			if len(s.Cid.Bytes())+len(s.Data) == target {
				return ts, true
			}
		}
	}
	return fixture.TxSpec{}, false
}

// TestVerifC16SplitChild runs the real split-car command in its own process (it writes into the CWD).
func TestVerifC16SplitChild(t *testing.T) {
	car := os.Getenv("VERIF_C16_CAR")
	if car == "" {
		t.Skip("child only")
	}
	out := os.Getenv("VERIF_C16_OUT")
	if err := os.Chdir(out); err != nil {
		t.Fatal(err)
	}
	app := &cli.App{Commands: []*cli.Command{newCmd_SplitCar()}}
	err := app.Run([]string{"x", "split-car", "--size=" + os.Getenv("VERIF_C16_TARGET"), "--epoch=" + os.Getenv("VERIF_C16_EPOCH"),
		"--metadata=" + filepath.Join(out, "metadata.csv"), "--output-dir=" + out, car})
	if err != nil {
		t.Fatalf("split-car: %v", err)
	}
}

func TestVerifC16Split(t *testing.T) {
	out := vt.Out(t)
	defer out.Close()
	rng := vt.Rand()
	dir := t.TempDir()
	ncars := 2
	if !vt.Quick() {
		ncars = 24
	}
	for ci := 0; ci < ncars; ci++ {
		nblocks := 6 + rng.Intn(30)
		epoch := uint64(1 + rng.Intn(600))
		spec := c16spec(rng, nblocks, epoch, vt.Seed()*100+int64(ci))
		if ci == 1 {
			// one block with more children than the traversal's 5 000-object preallocation
			big := &spec.Blocks[len(spec.Blocks)/2]
			es := fixture.EntrySpec{}
			for k := 0; k < 5003; k++ {
				es.Txs = append(es.Txs, fixture.TxSpec{SigID: 100000 + k, Accounts: []int{1}, DataFrames: 1, MetaFrames: 1})
			}
			big.Entries = append(big.Entries, es)
		}
		if ci == 0 {
			// objects whose section-length varint sits on a width boundary (body of 127 / 128 / 16383 / 16384 bytes)
			es := fixture.EntrySpec{}
			for k, target := range []int{127, 128, 16383, 16384} {
				if ts, ok := c16fit(dir, target, spec.Seed); ok {
					ts.SigID = 200000 + k
					es.Txs = append(es.Txs, ts)
				} else {
					t.Logf("no transaction shape with a section body of %d bytes found", target)
				}
			}
			spec.Blocks[0].Entries = append(spec.Blocks[0].Entries, es)
		}
		carPath := filepath.Join(dir, fmt.Sprintf("epoch-%d-%d.car", epoch, ci))
		built, err := fixture.Build(spec, carPath)
		if err != nil {
			t.Fatal(err)
		}
		if ci == 0 {
			have := map[int]bool{}
			for _, s := range built.Sections {
				have[len(s.Cid.Bytes())+len(s.Data)] = true
			}
			t.Logf("section bodies at varint boundaries present: 127=%v 128=%v 16383=%v 16384=%v", have[127], have[128], have[16383], have[16384])
		}
		if ci == 1 || ci%3 == 2 {
			// a CAR written by another tool: the same header in another, equally valid CBOR encoding (map entries in the other
			// order, the version as a two-byte integer); "the original header" is these bytes, whatever a re-encoding would give
			raw, _ := os.ReadFile(carPath)
			hl, n := uvarintC16(raw)
			oldHdr := raw[n : n+int(hl)]
			if i := bytes.Index(oldHdr, []byte{0xd8, 0x2a}); i >= 0 && len(oldHdr) >= i+41 {
				link := oldHdr[i : i+41] // tag 42, 37-byte byte string
				hdr := append([]byte{0xa2, 0x67}, []byte("version")...)
				hdr = append(hdr, 0x18, 0x01, 0x65)
				hdr = append(hdr, []byte("roots")...)
				hdr = append(hdr, 0x81)
				hdr = append(hdr, link...)
				nf := binary.AppendUvarint(nil, uint64(len(hdr)))
				nf = append(nf, hdr...)
				delta := int64(len(nf)) - int64(n) - int64(hl)
				nf = append(nf, raw[n+int(hl):]...)
				if err := os.WriteFile(carPath, nf, 0o644); err != nil {
					t.Fatal(err)
				}
				built.HeaderSize = uint64(int64(built.HeaderSize) + delta)
				for k := range built.Sections {
					built.Sections[k].Offset = uint64(int64(built.Sections[k].Offset) + delta)
				}
			}
		}
		orig, _ := os.ReadFile(carPath)
		ids := map[string]int{}
		var kept []int
		var fams [][]int
		var cur []int
		total := int64(built.HeaderSize)
		for i, s := range built.Sections {
			if s.Kind == 3 || s.Kind == 4 { // subset / epoch nodes are not carried over by the splitter
				continue
			}
			raw := orig[s.Offset : s.Offset+s.Length]
			_, n := uvarintC16(raw)
			ids[string(raw[n:])] = i + 1
			kept = append(kept, i+1)
			cur = append(cur, i+1)
			total += int64(s.Length)
			if s.Kind == 2 {
				fams = append(fams, cur)
				cur = nil
			}
		}
		targets := []int64{1 << 40, total / 2, total / 5, total / 11, 1}
		if !vt.Quick() {
			targets = append(targets, total-1, total/3, total/20, 4000, 700)
		}
		for ti, target := range targets {
			if target < 1 {
				target = 1
			}
			// one output directory per archive, used again for every target (a re-split with other parameters overwrites the
			// piece files of the previous one; the piece count grows with ti in the first five targets)
			od := filepath.Join(dir, fmt.Sprintf("out-%d", ci))
			os.MkdirAll(od, 0o755)
			o := c16Split{Kind: "split", Target: target, Blocks: nblocks, Orig: kept, Families: fams, Pieces: []c16Piece{}, Readback: []int{}}
			cmd := exec.Command(os.Args[0], "-test.run=^TestVerifC16SplitChild$")
			cmd.Env = append(os.Environ(), "VERIF_C16_CAR="+carPath, "VERIF_C16_OUT="+od, fmt.Sprintf("VERIF_C16_TARGET=%d", target), fmt.Sprintf("VERIF_C16_EPOCH=%d", epoch))
			if b, err := cmd.CombinedOutput(); err != nil {
				tail := string(b)
				if len(tail) > 600 {
					tail = tail[len(tail)-600:]
				}
				o.Err = "split-car failed: " + tail
				out.Emit(o)
				continue
			}
			meta, err := splitcarfetcher.MetadataFromYaml(filepath.Join(od, fmt.Sprintf("epoch-%d-metadata.yaml", epoch)))
			if err != nil {
				o.Err = "metadata: " + err.Error()
				out.Emit(o)
				continue
			}
			for _, p := range meta.CarPieces.CarPieces {
				pb, err := os.ReadFile(p.Name)
				if err != nil {
					o.Err = "piece: " + err.Error()
					break
				}
				pc := c16Piece{Hdr: p.HeaderSize, Content: p.ContentSize, File: int64(len(pb)), Secs: []int{}}
				hl, n := uvarintC16(pb)
				pc.HdrActual = hl + uint64(n)
				if p.HeaderSize+p.ContentSize <= uint64(len(pb)) {
					pc.Secs, pc.RegionOK = c16walk(pb[p.HeaderSize:p.HeaderSize+p.ContentSize], ids)
					tr, trok := c16walk(pb[p.HeaderSize+p.ContentSize:], ids)
					pc.Trailing, pc.TrailOK = len(tr), trok
					for _, id := range tr {
						if id != 0 {
							pc.TrailOrig++
						}
					}
				}
				if pc.Secs == nil {
					pc.Secs = []int{}
				}
				o.Pieces = append(o.Pieces, pc)
			}
			// read the reassembled CAR back through the real reader (remote-like reader type, as the server uses for pieces)
			if o.Err == "" {
				scr, err := splitcarfetcher.NewSplitCarReader(meta.CarPieces, func(piece carlet.CarFile) (splitcarfetcher.ReaderAtCloserSize, error) {
					f, err := os.Open(piece.Name)
					if err != nil {
						return nil, err
					}
					st, _ := f.Stat()
					return &c16plain{f, st.Size()}, nil
				})
				if err != nil {
					o.Err = "NewSplitCarReader: " + err.Error()
				} else {
					got, stuck := c16readAll(scr, int64(len(orig))*2+1024)
					if stuck != "" {
						o.Err = "read-back: " + stuck
					}
					o.HeaderOK = len(got) >= int(built.HeaderSize) && bytes.Equal(got[:built.HeaderSize], orig[:built.HeaderSize])
					if o.HeaderOK {
						o.Readback, _ = c16walk(got[built.HeaderSize:], ids)
					}
					if o.Readback == nil {
						o.Readback = []int{}
					}
					scr.Close()
				}
			}
			if o.Readback == nil {
				o.Readback = []int{}
			}
			if o.Pieces == nil {
				o.Pieces = []c16Piece{}
			}
			for i := range o.Pieces {
				if o.Pieces[i].Secs == nil {
					o.Pieces[i].Secs = []int{}
				}
			}
			// merge-cars over the written pieces
			if o.Err == "" {
				var want []byte
				want = append(want, []byte(nulRootCarHeader)...)
				args := []string{"x", "merge-cars", "-o", filepath.Join(od, "merged.car")}
				for _, p := range meta.CarPieces.CarPieces {
					pb, _ := os.ReadFile(p.Name)
					hl, n := uvarintC16(pb)
					if int(hl)+n <= len(pb) {
						want = append(want, pb[int(hl)+n:]...)
					}
					args = append(args, p.Name)
				}
				o.MergeWant = len(want)
				if pm := vt.Guard(func() {
					app := &cli.App{Commands: []*cli.Command{newCmd_MergeCars()}}
					if err := app.Run(args); err == nil {
						got, _ := os.ReadFile(filepath.Join(od, "merged.car"))
						o.MergedLen, o.MergedSame = len(got), bytes.Equal(got, want)
					}
				}); pm != "" {
					o.MergedLen = -1
				}
				os.Remove(filepath.Join(od, "merged.car"))
			}
			out.Emit(o)
			// output fault: the same split into a fresh directory in which the name of a late piece is taken by a directory
			if o.Err == "" && ti == 3 && len(meta.CarPieces.CarPieces) >= 3 {
				od2 := filepath.Join(dir, fmt.Sprintf("fault-%d", ci))
				os.MkdirAll(od2, 0o755)
				victim := meta.CarPieces.CarPieces[len(meta.CarPieces.CarPieces)-2].Name
				os.MkdirAll(filepath.Join(od2, filepath.Base(victim), "in-the-way"), 0o755)
				fo := c16Split{Kind: "splitfault", Target: target, Blocks: nblocks, Orig: kept, Families: fams, Pieces: []c16Piece{}, Readback: []int{}}
				cmd := exec.Command(os.Args[0], "-test.run=^TestVerifC16SplitChild$")
				cmd.Env = append(os.Environ(), "VERIF_C16_CAR="+carPath, "VERIF_C16_OUT="+od2, fmt.Sprintf("VERIF_C16_TARGET=%d", target), fmt.Sprintf("VERIF_C16_EPOCH=%d", epoch))
				if b, err := cmd.CombinedOutput(); err != nil {
					fo.Loud = true
					tail := string(b)
					if len(tail) > 200 {
						tail = tail[len(tail)-200:]
					}
					fo.Err = "failed loudly: " + tail
				} else if m2, err := splitcarfetcher.MetadataFromYaml(filepath.Join(od2, fmt.Sprintf("epoch-%d-metadata.yaml", epoch))); err == nil {
					var flat []int
					for _, p := range m2.CarPieces.CarPieces {
						pb, err := os.ReadFile(p.Name)
						if err != nil || p.HeaderSize+p.ContentSize > uint64(len(pb)) {
							flat = nil
							break
						}
						secs, _ := c16walk(pb[p.HeaderSize:p.HeaderSize+p.ContentSize], ids)
						flat = append(flat, secs...)
					}
					fo.Complete = len(flat) == len(kept)
					for i := 0; fo.Complete && i < len(flat); i++ {
						fo.Complete = flat[i] == kept[i]
					}
					if !fo.Complete {
						fo.Err = fmt.Sprintf("exit 0, but the pieces hold %d of the %d objects (or in another order)", len(flat), len(kept))
					}
				} else {
					fo.Err = "exit 0 without readable metadata: " + err.Error()
				}
				out.Emit(fo)
				os.RemoveAll(od2)
			}
		}
		os.RemoveAll(filepath.Join(dir, fmt.Sprintf("out-%d", ci)))
	}
}

// c16readAll reads r from offset 0 to its end with bounded effort: a reader that keeps returning (0, nil) or yields more
// than `limit` bytes does not end (and is reported), instead of hanging the replayer the way io.ReadAll would
func c16readAll(r io.ReaderAt, limit int64) (out []byte, stuck string) {
	buf := make([]byte, 64<<10)
	var off int64
	idle := 0
	for {
		n, err := r.ReadAt(buf, off)
		out = append(out, buf[:n]...)
		off += int64(n)
		if err != nil {
			return out, ""
		}
		if n == 0 {
			idle++
			if idle > 1000 {
				return out, fmt.Sprintf("ReadAt at offset %d keeps returning (0, nil)", off)
			}
		} else {
			idle = 0
		}
		if off > limit {
			return out, fmt.Sprintf("more than %d bytes read without reaching the end", limit)
		}
	}
}

func uvarintC16(b []byte) (uint64, int) {
	var x uint64
	var s uint
	for i, c := range b {
		if c < 0x80 {
			return x | uint64(c)<<s, i + 1
		}
		x |= uint64(c&0x7f) << s
		s += 7
	}
	return 0, 0
}
