package main

// C19 replayer (R3): TLC-generated archives (skipped slots, vote / failed / metadata-less transactions, address-table
// loaded accounts) -> real CAR + `index all` + real `index gsfa` -> StreamBlocks / StreamTransactions called with a
// recording server-stream, with and without the address index, over ranges inside and across epochs and filters over
// the archive's account universe.

import (
	"context"
	"encoding/json"
	"fmt"
	"math/rand"
	"os"
	"path/filepath"
	"testing"
	"time"

	"github.com/gagliardetto/solana-go"
	old_faithful_grpc "github.com/rpcpool/yellowstone-faithful/old-faithful-proto/old-faithful-grpc"
	"github.com/rpcpool/yellowstone-faithful/zzverif/fixture"
	"github.com/rpcpool/yellowstone-faithful/zzverif/vt"
)

type c19Filter struct {
	Nil    bool  `json:"nil,omitempty"`
	Vote   bool  `json:"vote"`
	Failed bool  `json:"failed"`
	Inc    []int `json:"inc"`
	Exc    []int `json:"exc"`
	Req    []int `json:"req"`
}

func (f c19Filter) MarshalJSON() ([]byte, error) {
	if f.Nil {
		return []byte(`{"nil":true}`), nil
	}
	type plain struct {
		Vote   bool  `json:"vote"`
		Failed bool  `json:"failed"`
		Inc    []int `json:"inc"`
		Exc    []int `json:"exc"`
		Req    []int `json:"req"`
	}
	return json.Marshal(plain{f.Vote, f.Failed, nz(f.Inc), nz(f.Exc), nz(f.Req)})
}

func nz(a []int) []int {
	if a == nil {
		return []int{}
	}
	return a
}

type c19Obs struct {
	Kind    string    `json:"kind"`
	Case    int       `json:"case"`
	Arch    []aEpoch  `json:"arch"`
	Loaded  []uint64  `json:"loaded"`
	Op      string    `json:"op"`
	Start   uint64    `json:"start"`
	End     uint64    `json:"end"`
	F       c19Filter `json:"f"`
	Index   bool      `json:"index"`
	Result  []int64   `json:"result"`
	Err     string    `json:"err"`
	Markers int       `json:"markers"`
	Fields  bool      `json:"fieldsok"` // slot / index / blocktime fields of every streamed transaction match the archive (drift only)
	Over    bool      `json:"overcap"`  // some included account has more in-range transactions than the index path's per-account batch (100)
}

func c19accts(seed int64, ids []int) []string {
	out := []string{}
	for _, a := range ids {
		out = append(out, fixture.Account(seed, a).String())
	}
	return out
}

func c19run(multi *MultiEpoch, seed int64, op string, start, end uint64, f c19Filter, sigID map[solana.Signature]int, truth map[int]*fixture.TxTruth) (res []int64, markers int, fieldsok bool, errs string) {
	res = []int64{}
	fieldsok = true
	ctx, cancel := context.WithTimeout(context.Background(), 60*time.Second)
	defer cancel()
	var pf *old_faithful_grpc.StreamTransactionsFilter
	if !f.Nil {
		v, fl := f.Vote, f.Failed
		pf = &old_faithful_grpc.StreamTransactionsFilter{Vote: &v, Failed: &fl, AccountInclude: c19accts(seed, f.Inc), AccountExclude: c19accts(seed, f.Exc), AccountRequired: c19accts(seed, f.Req)}
	}
	if op == "blocks" {
		st := &fakeBlockStream{ctx: ctx}
		var bf *old_faithful_grpc.StreamBlocksFilter
		if !f.Nil {
			bf = &old_faithful_grpc.StreamBlocksFilter{AccountInclude: c19accts(seed, f.Inc)}
		}
		var err error
		if p := vt.Guard(func() {
			err = multi.StreamBlocks(&old_faithful_grpc.StreamBlocksRequest{StartSlot: start, EndSlot: &end, Filter: bf}, st)
		}); p != "" {
			return res, 0, false, p
		}
		if err != nil {
			errs = err.Error()
		}
		for _, b := range st.sent {
			res = append(res, int64(b.Slot))
		}
		return
	}
	st := &fakeTxStream{ctx: ctx}
	var err error
	if p := vt.Guard(func() {
		err = multi.StreamTransactions(&old_faithful_grpc.StreamTransactionsRequest{StartSlot: start, EndSlot: &end, Filter: pf}, st)
	}); p != "" {
		return res, 0, false, p
	}
	if err != nil {
		errs = err.Error()
	}
	for _, m := range st.sent {
		if m.Transaction == nil || len(m.Transaction.Transaction) < 65 {
			markers++ // a message without a transaction payload is not a transaction
			continue
		}
		var sig solana.Signature
		copy(sig[:], m.Transaction.Transaction[1:65])
		id, ok := sigID[sig]
		if !ok {
			id = -1
		}
		res = append(res, int64(id))
		if tt := truth[id]; tt != nil {
			if m.Slot != tt.Slot || m.Index == nil || int(*m.Index) != tt.Position {
				fieldsok = false
			}
		}
	}
	return
}

func TestVerifC19(t *testing.T) {
	out := vt.Out(t)
	defer out.Close()
	rng := rand.New(rand.NewSource(vt.Seed() + 19))
	for ci, raw := range vt.Cases(t) {
		var a aArch
		if err := json.Unmarshal(raw, &a); err != nil {
			t.Fatal(err)
		}
		seed := vt.Seed()*1000 + int64(ci)
		// the vote flag follows the simple-vote definition (vote.go): a *legacy* transaction whose one instruction calls the
		// Vote program.  Every third vote transaction of the model is archived as a v0 message (no lookups) calling the Vote
		// program: it is built with the vote program but is, by that definition, not a vote (its model flag is cleared
		// below, after the fixture has been built from the original flags).
		for ei := range a.Arch {
			for bi := range a.Arch[ei].Blocks {
				for ni := range a.Arch[ei].Blocks[bi].Entries {
					for ti := range a.Arch[ei].Blocks[bi].Entries[ni].Txs {
						tx := &a.Arch[ei].Blocks[bi].Entries[ni].Txs[ti]
						if tx.Vote && tx.Sig%3 == 0 {
							tx.V0 = true
						}
					}
				}
			}
		}
		// every epoch but the last gets a block in its very last slot (one transaction of account 1): ranges can then start
		// or end exactly on an epoch's last slot
		maxSig := 0
		for _, ep := range a.Arch {
			for _, b := range ep.Blocks {
				for _, en := range b.Entries {
					for _, tx := range en.Txs {
						if tx.Sig > maxSig {
							maxSig = tx.Sig
						}
					}
				}
			}
		}
		var edgeSlots []uint64
		for ei := 0; ei+1 < len(a.Arch); ei++ {
			ep := &a.Arch[ei]
			last := (ep.Epoch+1)*432000 - 1
			if lb := ep.Blocks[len(ep.Blocks)-1]; lb.Slot < last {
				maxSig++
				ep.Blocks = append(ep.Blocks, aBlock{Slot: last, Parent: lb.Slot, Blocktime: lb.Blocktime + 400, Height: -1,
					Entries: []aEntry{{Txs: []aTx{{Sig: maxSig, Accts: []int{1, 2}, Loaded: []int{}, Dframes: 1, Mframes: 1}}}}})
				edgeSlots = append(edgeSlots, last)
			}
		}
		sigID := map[solana.Signature]int{}
		truth := map[int]*fixture.TxTruth{}
		var eps []*loaded
		cache := vCache(t)
		accts := map[int]bool{}
		loadedOnly := map[int]bool{}
		for _, ep := range a.Arch {
			l, err := vBuild(t, ep.spec(seed, 3), true)
			if err != nil {
				t.Fatalf("case %d: %v", ci+1, err)
			}
			eps = append(eps, l)
			for s, tt := range l.built.TxBySig {
				sigID[s] = tt.Spec.SigID
				truth[tt.Spec.SigID] = tt
				for _, x := range tt.Spec.Accounts {
					accts[x] = true
				}
				for _, x := range tt.Spec.Loaded {
					loadedOnly[x] = true
				}
			}
		}
		for ei := range a.Arch {
			for bi := range a.Arch[ei].Blocks {
				for ni := range a.Arch[ei].Blocks[bi].Entries {
					for ti := range a.Arch[ei].Blocks[bi].Entries[ni].Txs {
						if tx := &a.Arch[ei].Blocks[bi].Entries[ni].Txs[ti]; tx.V0 {
							tx.Vote = false
						}
					}
				}
			}
		}
		var static, all []int
		for x := range accts {
			static = append(static, x)
			all = append(all, x)
		}
		for x := range loadedOnly {
			all = append(all, x)
		}
		static = append(static, 99) // an account that never occurs
		all = append(all, 99)
		pick := func(from []int, max int) []int {
			n := rng.Intn(max + 1)
			p := rng.Perm(len(from))
			o := []int{}
			for i := 0; i < n && i < len(p); i++ {
				o = append(o, from[p[i]])
			}
			return o
		}
		// ranges: whole archive, inside epochs, starting / ending on skipped slots, across the epoch boundary, empty
		var ranges [][2]uint64
		firstSlot := a.Arch[0].Blocks[0].Slot
		lastEp := a.Arch[len(a.Arch)-1]
		lastSlot := lastEp.Blocks[len(lastEp.Blocks)-1].Slot
		if len(a.Arch) >= 2 && len(edgeSlots) > 0 {
			firstSlot = edgeSlots[len(edgeSlots)-1] - 20 // keep the cross-epoch range short: it starts shortly before the boundary
		}
		for _, ep := range a.Arch {
			b := ep.Blocks
			if n := len(b); n > 1 && b[n-1].Slot == (ep.Epoch+1)*432000-1 && b[n-2].Slot < b[n-1].Slot-1000 {
				b = b[:n-1] // (the block added in the epoch's last slot has its own ranges below; a range up to it spans 432 000 slots)
			}
			ranges = append(ranges, [2]uint64{b[0].Slot, b[len(b)-1].Slot}, [2]uint64{b[0].Slot + 1, b[len(b)-1].Slot + 2}, [2]uint64{b[len(b)/2].Slot, b[len(b)/2].Slot})
			if b[0].Slot > 0 {
				ranges = append(ranges, [2]uint64{b[0].Slot - 1, b[len(b)-1].Slot - 1})
			}
			ranges = append(ranges, [2]uint64{b[len(b)-1].Slot + 5, b[len(b)-1].Slot + 9})
		}
		for _, es := range edgeSlots {
			ranges = append(ranges, [2]uint64{es, es}, [2]uint64{es, es + 6}, [2]uint64{es - 3, es}, [2]uint64{es, lastSlot})
		}
		if len(a.Arch) >= 2 && a.Arch[1].Epoch == a.Arch[0].Epoch+1 {
			ranges = append(ranges, [2]uint64{firstSlot, lastSlot}) // across the boundary of two consecutive epochs
		}
		nf := 10
		if !vt.Quick() {
			nf = 60
		}
		for _, withIndex := range []bool{false, true} {
			multi := NewMultiEpoch(&Options{EpochSearchConcurrency: 2})
			var nums []uint64
			for _, l := range eps {
				cfg := *l.cfg
				if !withIndex {
					cfg.Indexes.Gsfa.URI = ""
				}
				e, err := NewEpochFromConfig(&cfg, vCliCtx(), cache, nil)
				if err != nil {
					t.Fatalf("case %d: NewEpochFromConfig: %v", ci+1, err)
				}
				defer e.Close()
				multi.AddEpoch(l.built.Spec.Epoch, e)
				nums = append(nums, l.built.Spec.Epoch)
			}
			frng := rand.New(rand.NewSource(seed)) // the same filters with and without the index
			for _, r := range ranges {
				filters := []c19Filter{{Nil: true}, {Vote: true, Failed: true}, {Vote: false, Failed: false}}
				for k := 0; k < nf; k++ {
					f := c19Filter{Vote: frng.Intn(2) == 0, Failed: frng.Intn(2) == 0}
					rng = frng
					f.Inc = pick(all, 2)
					if frng.Intn(3) > 0 {
						f.Exc = pick(static, 1)
					}
					if frng.Intn(3) == 0 {
						f.Req = pick(static, 2)
					}
					filters = append(filters, f)
				}
				for fi, f := range filters {
					res, mk, fok, e := c19run(multi, seed, "txs", r[0], r[1], f, sigID, truth)
					out.Emit(c19Obs{Kind: "stream", Case: ci + 1, Arch: a.Arch, Loaded: nums, Op: "txs", Start: r[0], End: r[1], F: f, Index: withIndex, Result: res, Err: e, Markers: mk, Fields: fok})
					if fi%4 == 0 {
						res, _, _, e := c19run(multi, seed, "blocks", r[0], r[1], f, sigID, truth)
						out.Emit(c19Obs{Kind: "stream", Case: ci + 1, Arch: a.Arch, Loaded: nums, Op: "blocks", Start: r[0], End: r[1], F: f, Index: withIndex, Result: res, Err: e, Fields: true})
					}
				}
			}
		}
		for _, l := range eps {
			os.RemoveAll(filepath.Dir(l.built.CarPath))
		}
	}
	_ = fmt.Sprint
}
