package main

// C12 replayer (R3): every parser entry point of the repository is fed mutated copies of valid files of a fixture epoch.
// The structure-aware mutations (every length / count / bound / offset field x value class) are the cases enumerated by
// TLC from ParserFaults.tla; byte-level mutations (truncation, byte sets, CBOR heads, chunk operations, random bytes) are
// generated here from VERIF_SEED.  Jobs run in a child process (own address-space limit, heartbeat file): a recovered
// panic, an allocation out of proportion, a fatal runtime error (out of memory, stack overflow) or a hang is attributed
// to the job in flight and the child is restarted after it.

import (
	"bufio"
	"bytes"
	"context"
	"encoding/binary"
	"encoding/json"
	"fmt"
	"io"
	"math/rand"
	"os"
	"os/exec"
	"path/filepath"
	"runtime"
	"runtime/debug"
	"strconv"
	"strings"
	"syscall"
	"testing"
	"time"

	"github.com/gagliardetto/solana-go"
	"github.com/ipfs/go-cid"
	cidlink "github.com/ipld/go-ipld-prime/linking/cid"
	"github.com/rpcpool/yellowstone-faithful/blocktimeindex"
	"github.com/rpcpool/yellowstone-faithful/bucketteer"
	"github.com/rpcpool/yellowstone-faithful/carreader"
	"github.com/rpcpool/yellowstone-faithful/compactindexsized"
	depbucketteer "github.com/rpcpool/yellowstone-faithful/deprecated/bucketteer"
	depcompactindex "github.com/rpcpool/yellowstone-faithful/deprecated/compactindex"
	depcompactindex36 "github.com/rpcpool/yellowstone-faithful/deprecated/compactindex36"
	"github.com/rpcpool/yellowstone-faithful/gsfa"
	"github.com/rpcpool/yellowstone-faithful/gsfa/linkedlog"
	"github.com/rpcpool/yellowstone-faithful/gsfa/manifest"
	"github.com/rpcpool/yellowstone-faithful/indexes"
	"github.com/rpcpool/yellowstone-faithful/indexmeta"
	"github.com/rpcpool/yellowstone-faithful/ipld/ipldbindcode"
	"github.com/rpcpool/yellowstone-faithful/iplddecoders"
	solanatxmetaparsers "github.com/rpcpool/yellowstone-faithful/solana-tx-meta-parsers"
	"github.com/rpcpool/yellowstone-faithful/tooling"
	"github.com/rpcpool/yellowstone-faithful/zzverif/fixture"
	"github.com/rpcpool/yellowstone-faithful/zzverif/vt"
)

type c12Case struct {
	Format string `json:"format"`
	Field  string `json:"field"`
	Base   string `json:"base"`
	Off    int    `json:"off"`
	W      int    `json:"w"`
	Enc    string `json:"enc"`
	Role   string `json:"role"`
	Unit   int    `json:"unit"`
	Class  string `json:"class"`
	Expect string `json:"expect"`
}

type c12Truth struct {
	Cids      [][]byte    `json:"cids"`
	Sigs      [][]byte    `json:"sigs"`
	Slots     []uint64    `json:"slots"`
	Addrs     [][]byte    `json:"addrs"`
	LogRecs   [][2]uint64 `json:"logrecs"`
	Secs      [][2]uint64 `json:"secs"`
	Nodes     []string    `json:"nodes"` // seed file names of single nodes
	Metas     []string    `json:"metas"`
	FrameTx   []string    `json:"frametx"` // transaction nodes whose metadata spans several frames
	Frames    []string    `json:"frames"`  // every DataFrame section: file "frame-<i>", CID in FrameCids[i]
	FrameCids [][]byte    `json:"framecids"`
}

type c12Seeds struct {
	dir   string
	files map[string][]byte
	truth c12Truth
}

type c12Job struct {
	Parser string
	Seed   string
	Mut    string
	Class  string // structured: value class; generic: mutation family
	Role   string
	Expect string
	gen    func() []byte
}

type c12Res struct {
	I       int    `json:"i"`
	Outcome string `json:"outcome"`
	Detail  string `json:"detail"`
	Alloc   uint64 `json:"alloc"`
	Size    int    `json:"size"`
	Ms      int64  `json:"ms"`
}

type c12Obs struct {
	Kind    string `json:"kind"`
	Parser  string `json:"parser"`
	Seed    string `json:"seed"`
	Mut     string `json:"mut"`
	Class   string `json:"class"`
	Role    string `json:"role"`
	Expect  string `json:"expect"`
	Outcome string `json:"outcome"`
	Detail  string `json:"detail"`
	Alloc   uint64 `json:"alloc"`
	Size    int    `json:"size"`
	Job     int    `json:"job"`
}

type c12rac struct{ *bytes.Reader }

func (c12rac) Close() error { return nil }

// c12sparse serves data followed by zeros up to size
type c12sparse struct {
	data []byte
	size int64
}

func (s c12sparse) ReadAt(p []byte, off int64) (int, error) {
	if off < 0 || off >= s.size {
		return 0, io.EOF
	}
	n := len(p)
	short := false
	if off+int64(n) > s.size {
		n, short = int(s.size-off), true
	}
	for i := 0; i < n; i++ {
		p[i] = 0
	}
	if off < int64(len(s.data)) {
		copy(p[:n], s.data[off:])
	}
	if short {
		return n, io.EOF
	}
	return n, nil
}

func c12reader(b []byte) c12rac { return c12rac{bytes.NewReader(b)} }

// ---- seeds ----------------------------------------------------------------------------------------------------------

func c12BuildSeeds(t *testing.T, dir string) {
	cache := vCache(t)
	sp := c10spec(1, 1212)
	for i := 0; i < 6; i++ {
		slot := uint64(432000 + 20 + i*2)
		b := fixture.BlockSpec{Slot: slot, Parent: slot - 2, Blocktime: int64(1700000000 + slot%1000), RewardsFrames: i % 3}
		es := fixture.EntrySpec{}
		for k := 0; k < 3; k++ {
			es.Txs = append(es.Txs, fixture.TxSpec{SigID: 100 + i*3 + k, Accounts: []int{1 + k, 4 + i%3}, Loaded: []int{9}, DataFrames: 1, MetaFrames: 1 + k%2, MetaPad: 200 * (k % 2), Failed: k == 2})
		}
		b.Entries = []fixture.EntrySpec{es}
		sp.Blocks = append(sp.Blocks, b)
	}
	sp.Blocks[3].Parent = sp.Blocks[2].Slot
	l := vBuildAndLoad(t, sp, true, cache)
	defer l.epoch.Close()
	cp := func(name, path string) []byte {
		b, err := os.ReadFile(path)
		if err != nil {
			t.Fatal(err)
		}
		if err := os.WriteFile(filepath.Join(dir, name), b, 0o644); err != nil {
			t.Fatal(err)
		}
		return b
	}
	cp("cid-to-offset-and-size", l.paths.CidToOffsetAndSize)
	cp("slot-to-cid", l.paths.SlotToCid)
	cp("sig-to-cid", l.paths.SignatureToCid)
	cp("sigexists", l.paths.SignatureExists)
	cp("blocktime", l.paths.SlotToBlocktime)
	cp("pubkey", filepath.Join(l.gsfaDir, "pubkey-to-offset-and-size.index"))
	cp("linkedlog", filepath.Join(l.gsfaDir, "linked-log"))
	cp("manifest", filepath.Join(l.gsfaDir, "manifest"))
	cp("car", l.built.CarPath)
	var tr c12Truth
	seenAddr := map[solana.PublicKey]bool{}
	for _, bt := range l.built.Blocks {
		tr.Slots = append(tr.Slots, bt.Spec.Slot)
		for _, tt := range bt.Txs {
			s := tt.Sig
			tr.Sigs = append(tr.Sigs, s[:])
			for _, a := range append(append([]solana.PublicKey{}, tt.Accounts...), tt.Loaded...) {
				if !seenAddr[a] {
					seenAddr[a] = true
					tr.Addrs = append(tr.Addrs, a.Bytes())
				}
			}
		}
	}
	kinds := map[int]int{}
	for i, s := range l.built.Sections {
		tr.Cids = append(tr.Cids, s.Cid.Bytes())
		tr.Secs = append(tr.Secs, [2]uint64{s.Offset, s.Length})
		if kinds[s.Kind] < 2 || len(s.Data) > 600 && kinds[s.Kind] < 3 {
			kinds[s.Kind]++
			name := fmt.Sprintf("node-k%d-%d", s.Kind, i)
			os.WriteFile(filepath.Join(dir, name), s.Data, 0o644)
			tr.Nodes = append(tr.Nodes, name)
		}
	}
	for i, s := range l.built.Sections {
		if s.Kind == 6 {
			name := fmt.Sprintf("frame-%d", i)
			os.WriteFile(filepath.Join(dir, name), s.Data, 0o644)
			tr.Frames = append(tr.Frames, name)
			tr.FrameCids = append(tr.FrameCids, s.Cid.Bytes())
		}
	}
	for _, bt := range l.built.Blocks {
		for _, tt := range bt.Txs {
			if tt.Spec.MetaFrames > 1 && len(tr.FrameTx) < 3 {
				name := fmt.Sprintf("frametx-%d", tt.Section)
				os.WriteFile(filepath.Join(dir, name), l.built.Sections[tt.Section].Data, 0o644)
				tr.FrameTx = append(tr.FrameTx, name)
			}
		}
	}
	nm := 0
	for _, bt := range l.built.Blocks {
		for _, tt := range bt.Txs {
			if tt.Meta != nil && nm < 3 {
				name := fmt.Sprintf("meta-%d", nm)
				os.WriteFile(filepath.Join(dir, name), tt.Meta, 0o644)
				tr.Metas = append(tr.Metas, name)
				z, _ := tooling.CompressZstd(tt.Meta)
				os.WriteFile(filepath.Join(dir, name+"-zstd"), z, 0o644)
				tr.Metas = append(tr.Metas, name+"-zstd")
				nm++
			}
		}
	}
	// records of the linked log as the pubkey index points at them
	pk, err := indexes.Open_PubkeyToOffsetAndSize(filepath.Join(l.gsfaDir, "pubkey-to-offset-and-size.index"))
	if err != nil {
		t.Fatal(err)
	}
	for _, a := range tr.Addrs {
		if oas, err := pk.Get(solana.PublicKeyFromBytes(a)); err == nil {
			tr.LogRecs = append(tr.LogRecs, [2]uint64{oas.Offset, oas.Size})
		}
	}
	pk.Close()
	// deprecated formats
	{
		b, err := depcompactindex.NewBuilder(t.TempDir(), uint(len(tr.Cids)), 1<<20)
		if err != nil {
			t.Fatal(err)
		}
		for i, c := range tr.Cids {
			if err := b.Insert(c, uint64(1000+i*37)); err != nil {
				t.Fatal(err)
			}
		}
		f, _ := os.Create(filepath.Join(dir, "dep-compactindex"))
		if err := b.Seal(context.Background(), f); err != nil {
			t.Fatal(err)
		}
		f.Close()
		b.Close()
	}
	{
		b, err := depcompactindex36.NewBuilder(t.TempDir(), uint(len(tr.Sigs)), 1<<20)
		if err != nil {
			t.Fatal(err)
		}
		for i, s := range tr.Sigs {
			var v [36]byte
			copy(v[:], tr.Cids[i%len(tr.Cids)])
			if err := b.Insert(s, v); err != nil {
				t.Fatal(err)
			}
		}
		f, _ := os.Create(filepath.Join(dir, "dep-compactindex36"))
		if err := b.Seal(context.Background(), f); err != nil {
			t.Fatal(err)
		}
		f.Close()
		b.Close()
	}
	{
		p := filepath.Join(dir, "dep-sigexists")
		w, err := depbucketteer.NewWriter(p)
		if err != nil {
			t.Fatal(err)
		}
		for _, s := range tr.Sigs {
			var x [64]byte
			copy(x[:], s)
			w.Put(x)
		}
		if _, err := w.Seal(map[string]string{}); err != nil {
			t.Fatal(err)
		}
		w.Close()
	}
	tb, _ := json.Marshal(tr)
	os.WriteFile(filepath.Join(dir, "truth.json"), tb, 0o644)
}

func c12LoadSeeds(dir string) (*c12Seeds, error) {
	s := &c12Seeds{dir: dir, files: map[string][]byte{}}
	tb, err := os.ReadFile(filepath.Join(dir, "truth.json"))
	if err != nil {
		return nil, err
	}
	if err := json.Unmarshal(tb, &s.truth); err != nil {
		return nil, err
	}
	ents, _ := os.ReadDir(dir)
	for _, e := range ents {
		if e.Name() == "truth.json" || e.IsDir() {
			continue
		}
		b, err := os.ReadFile(filepath.Join(dir, e.Name()))
		if err != nil {
			return nil, err
		}
		s.files[e.Name()] = b
	}
	// index metadata block of a compact index as its own seed
	if b := s.files["slot-to-cid"]; len(b) > 25 {
		hl := int(binary.LittleEndian.Uint32(b[8:12]))
		s.files["indexmeta"] = append([]byte{}, b[25:12+hl]...)
	}
	return s, nil
}

// ---- field positions ------------------------------------------------------------------------------------------------

// metaEnd returns the offset just behind a metadata block starting at off (count, then key/value length-prefixed pairs)
func c12metaEnd(b []byte, off int) int {
	if off >= len(b) {
		return off
	}
	n := int(b[off])
	p := off + 1
	for i := 0; i < n*2 && p < len(b); i++ {
		p += 1 + int(b[p])
	}
	return p
}

// positions of the key (or value) length bytes of the metadata block starting at off
func c12metaLenPositions(b []byte, off int, value bool) (out []int) {
	if off >= len(b) {
		return nil
	}
	n := int(b[off])
	p := off + 1
	for i := 0; i < n && p < len(b); i++ {
		kl := int(b[p])
		if !value {
			out = append(out, p)
		}
		p += 1 + kl
		if p >= len(b) {
			break
		}
		if value {
			out = append(out, p)
		}
		p += 1 + int(b[p])
	}
	return out
}

// c12pos resolves (format, base, off) to an absolute offset (and, for uvarint fields, the width of the stored varint)
func c12pos(format, seedName string, data []byte, c c12Case) (pos int, width int, ok bool) {
	width = c.W
	switch c.Base {
	case "start":
		pos = c.Off
	case "meta":
		switch format {
		case "compactindexsized":
			pos = 25 + c.Off
		case "sigexists":
			pos = 20 + c.Off
		case "gsfa_manifest":
			pos = 16 + c.Off
		default:
			pos = c.Off
		}
	case "aftermeta":
		pos = c12metaEnd(data, 20) + c.Off
	case "bucket0":
		switch format {
		case "compactindexsized":
			hs := 12 + int(binary.LittleEndian.Uint32(data[8:12]))
			nb := int(binary.LittleEndian.Uint32(data[20:24]))
			pos = -1
			for i := 0; i < nb; i++ {
				h := hs + i*16
				if h+16 <= len(data) && binary.LittleEndian.Uint32(data[h+4:h+8]) > 0 {
					pos = h + c.Off
					break
				}
			}
		case "compactindex_deprecated", "compactindex36_deprecated":
			nb := int(binary.LittleEndian.Uint32(data[16:20]))
			pos = -1
			for i := 0; i < nb; i++ {
				h := 32 + i*16
				if h+16 <= len(data) && binary.LittleEndian.Uint32(data[h+4:h+8]) > 0 {
					pos = h + c.Off
					break
				}
			}
		case "sigexists":
			am := c12metaEnd(data, 20)
			off0 := int(binary.LittleEndian.Uint64(data[am+10 : am+18]))
			pos = 4 + int(binary.LittleEndian.Uint32(data[0:4])) + off0 + c.Off
		}
	case "record0":
		rec := 0
		if format == "car" {
			hl, n := binary.Uvarint(data)
			rec = n + int(hl)
		}
		_, n := binary.Uvarint(data[rec:])
		if c.Enc == "uvarint" {
			pos, width = rec, n
		} else {
			pos = rec + n + c.Off - 1
		}
	}
	if c.Enc == "uvarint" && c.Base == "start" {
		_, n := binary.Uvarint(data)
		width = n
	}
	if pos < 0 || pos+width > len(data) {
		return 0, 0, false
	}
	return pos, width, true
}

func c12classValue(class string, orig uint64, size int) uint64 {
	if strings.HasPrefix(class, "unit") {
		u := 0
		if i := strings.IndexByte(class, ':'); i >= 0 {
			u, _ = strconv.Atoi(class[i+1:])
		}
		switch {
		case strings.HasPrefix(class, "unitm1"):
			return uint64(u) - 1
		case strings.HasPrefix(class, "unitp1"):
			return uint64(u) + 1
		}
		return uint64(u)
	}
	switch class {
	case "zero":
		return 0
	case "one":
		return 1
	case "origm1":
		return orig - 1
	case "origp1":
		return orig + 1
	case "size":
		return uint64(size)
	case "sizep1":
		return uint64(size) + 1
	case "pow31":
		return 1 << 31
	case "pow32m1":
		return 1<<32 - 1
	case "pow63":
		return 1 << 63
	default:
		return ^uint64(0)
	}
}

func c12applyField(data []byte, pos, width int, enc, class string) []byte {
	out := append([]byte{}, data...)
	if enc == "uvarint" {
		orig, _ := binary.Uvarint(data[pos:])
		v := c12classValue(class, orig, len(data))
		nv := binary.AppendUvarint(nil, v)
		return append(append(append([]byte{}, data[:pos]...), nv...), data[pos+width:]...)
	}
	var ob [8]byte
	copy(ob[:], data[pos:pos+minInt(width, 8)])
	orig := binary.LittleEndian.Uint64(ob[:])
	v := c12classValue(class, orig, len(data))
	var vb [8]byte
	binary.LittleEndian.PutUint64(vb[:], v)
	for i := 0; i < width; i++ {
		if i < 8 {
			out[pos+i] = vb[i]
		} else if class == "max" {
			out[pos+i] = 0xff
		} else {
			out[pos+i] = 0
		}
	}
	return out
}

// ---- jobs -----------------------------------------------------------------------------------------------------------

var c12FormatSeeds = map[string][][2]string{ // format -> (parser, seed file)
	"compactindexsized":         {{"compactindex:cid-to-offset-and-size", "cid-to-offset-and-size"}, {"compactindex:slot-to-cid", "slot-to-cid"}, {"compactindex:sig-to-cid", "sig-to-cid"}, {"compactindex:pubkey", "pubkey"}, {"gsfa-dir:pubkey", "pubkey"}},
	"compactindex_deprecated":   {{"dep-compactindex", "dep-compactindex"}},
	"compactindex36_deprecated": {{"dep-compactindex36", "dep-compactindex36"}},
	"sigexists":                 {{"sigexists", "sigexists"}, {"sigexists-sparse", "sigexists"}},
	"sigexists_deprecated":      {{"dep-sigexists", "dep-sigexists"}},
	"blocktime":                 {{"blocktime", "blocktime"}},
	"gsfa_manifest":             {{"manifest", "manifest"}, {"gsfa-dir:manifest", "manifest"}},
	"gsfa_linkedlog":            {{"linkedlog", "linkedlog"}, {"gsfa-dir:linkedlog", "linkedlog"}},
	"car":                       {{"car", "car"}, {"car-info", "car"}, {"car-at", "car"}},
	"indexmeta":                 {{"indexmeta", "indexmeta"}},
}

var c12CborHeads = []byte{0x00, 0x01, 0x17, 0x18, 0x19, 0x1a, 0x1b, 0x20, 0x3b, 0x40, 0x41, 0x58, 0x5a, 0x5b, 0x5f, 0x60, 0x7b, 0x80, 0x81, 0x87, 0x98, 0x9b, 0x9f, 0xa0, 0xbb, 0xd8, 0xf4, 0xf6, 0xf7, 0xfb, 0xff}
var c12Bytes = []byte{0x00, 0x01, 0x7f, 0x80, 0xff}

func c12Jobs(s *c12Seeds, cases []c12Case, seed int64, quick bool) []c12Job {
	var jobs []c12Job
	rng := rand.New(rand.NewSource(seed))
	// (1) structured: TLC's (format, field, class) on every seed of the format, for every parser of the format
	for _, c := range cases {
		c := c
		for _, ps := range c12FormatSeeds[c.Format] {
			parser, seedName := ps[0], ps[1]
			data := s.files[seedName]
			if data == nil {
				continue
			}
			pos0, width, ok := c12pos(c.Format, seedName, data, c)
			if !ok {
				continue
			}
			positions := []int{pos0}
			if c.Field == "metaKeyLen" || c.Field == "metaValueLen" {
				// every key / value length byte of the metadata block, not only the first pair
				positions = c12metaLenPositions(data, pos0-c.Off, c.Field == "metaValueLen")
			}
			for _, pos := range positions {
				pos := pos
				cls := c.Class
				if strings.HasPrefix(cls, "unit") {
					if c.Unit <= 0 {
						continue
					}
					cls = fmt.Sprintf("%s:%d", c.Class, c.Unit)
				}
				jobs = append(jobs, c12Job{Parser: parser, Seed: seedName, Mut: fmt.Sprintf("%s.%s@%d/%d=%s", c.Format, c.Field, pos, width, cls), Class: c.Class, Role: c.Role, Expect: c.Expect,
					gen: func() []byte { return c12applyField(data, pos, width, c.Enc, cls) }})
			}
		}
	}
	// (1b) TLC's zstd_frame cases: a crafted frame (with and without a window descriptor) in place of the compressed blob of a
	// linked-log record and of a transaction's metadata
	for _, c := range cases {
		if c.Format != "zstd_frame" {
			continue
		}
		c := c
		for _, single := range []bool{false, true} {
			single := single
			frame := func() []byte {
				fcs, wd := uint64(1), byte(0)
				if c.Field == "frameContentSize" {
					fcs = c12classValue(c.Class, 1, 1)
				} else {
					// window descriptor: exponent in the upper five bits, window = 2^(10+exponent) bytes
					switch c.Class {
					case "zero", "one", "origm1", "origp1", "size", "sizep1":
						wd = byte(c12classValue(c.Class, 1, 1)) << 3
					case "pow31":
						wd = 21 << 3
					case "pow32m1":
						wd = 21<<3 | 7
					default:
						wd = 0xff
					}
				}
				f := []byte{0x28, 0xB5, 0x2F, 0xFD}
				if single {
					f = append(f, 0xC0|0x20)
				} else {
					f = append(f, 0xC0, wd)
				}
				f = binary.LittleEndian.AppendUint64(f, fcs)
				return append(f, 0x09, 0x00, 0x00, 'x') // last block, raw, 1 byte
			}
			if single && c.Field == "windowDescriptor" {
				continue
			}
			mut := fmt.Sprintf("zstd_frame.%s=%s single=%v", c.Field, c.Class, single)
			jobs = append(jobs, c12Job{Parser: "linkedlog", Seed: "linkedlog", Mut: mut, Class: c.Class, Role: c.Role, Expect: c.Expect, gen: func() []byte {
				fr := frame()
				rec := binary.AppendUvarint(nil, uint64(len(fr))+9)
				return append(append(rec, fr...), make([]byte, 9)...)
			}})
			jobs = append(jobs, c12Job{Parser: "txmeta", Seed: "crafted-zstd", Mut: mut, Class: c.Class, Role: c.Role, Expect: c.Expect, gen: frame})
		}
	}
	// (2) byte-level mutations per (parser, seed)
	type ps struct {
		parser, seed string
		heavy        bool // opening costs milliseconds: fewer jobs
		cbor         bool
	}
	var targets []ps
	for _, n := range []string{"cid-to-offset-and-size", "slot-to-cid", "sig-to-cid", "pubkey"} {
		targets = append(targets, ps{"compactindex:" + n, n, false, false})
	}
	targets = append(targets, ps{"dep-compactindex", "dep-compactindex", false, false}, ps{"dep-compactindex36", "dep-compactindex36", false, false},
		ps{"sigexists", "sigexists", true, false}, ps{"dep-sigexists", "dep-sigexists", false, false}, ps{"blocktime", "blocktime", true, false},
		ps{"manifest", "manifest", false, false}, ps{"linkedlog", "linkedlog", false, false}, ps{"gsfa-dir:pubkey", "pubkey", true, false},
		ps{"gsfa-dir:linkedlog", "linkedlog", true, false}, ps{"gsfa-dir:manifest", "manifest", true, false},
		ps{"car", "car", false, false}, ps{"car-info", "car", false, false}, ps{"car-at", "car", false, false}, ps{"indexmeta", "indexmeta", false, false})
	for _, n := range s.truth.Nodes {
		targets = append(targets, ps{"node", n, false, true})
	}
	for _, n := range s.truth.Metas {
		targets = append(targets, ps{"txmeta", n, false, false})
	}
	for i, n := range s.truth.Frames {
		if i < 6 {
			targets = append(targets, ps{"frames", n, false, true})
		}
	}
	for _, n := range s.truth.FrameTx {
		targets = append(targets, ps{"frames-tx", n, false, true})
	}
	scale := 1
	if !quick {
		scale = 24
	}
	for _, tg := range targets {
		tg := tg
		data := s.files[tg.seed]
		if data == nil {
			continue
		}
		add := func(mut, fam string, gen func() []byte) {
			jobs = append(jobs, c12Job{Parser: tg.parser, Seed: tg.seed, Mut: mut, Class: fam, Role: "bytes", Expect: "", gen: gen})
		}
		add("valid", "valid", func() []byte { return data })
		add("empty", "empty", func() []byte { return []byte{} })
		// truncations
		nTrunc := 300 * scale
		if tg.heavy {
			nTrunc = 25 * scale
		}
		var cuts []int
		if len(data) <= nTrunc {
			for i := 1; i < len(data); i++ {
				cuts = append(cuts, i)
			}
		} else {
			for i := 1; i < minInt(len(data), nTrunc/3); i++ {
				cuts = append(cuts, i)
			}
			for i := 0; i < nTrunc/3; i++ {
				cuts = append(cuts, 1+rng.Intn(len(data)-1))
			}
			for i := 1; i <= minInt(nTrunc/3, len(data)-1); i++ {
				cuts = append(cuts, len(data)-i)
			}
		}
		for _, c := range cuts {
			c := c
			add(fmt.Sprintf("trunc@%d", c), "trunc", func() []byte { return append([]byte{}, data[:c]...) })
		}
		// byte sets
		vals := c12Bytes
		if tg.cbor {
			vals = c12CborHeads
		}
		var offs []int
		head := 200
		if tg.cbor || tg.parser == "txmeta" {
			head = 1 << 20
		}
		if tg.heavy {
			head = 40
		}
		for i := 0; i < minInt(head, len(data)); i++ {
			offs = append(offs, i)
		}
		if len(data) > head {
			n := 120 * scale
			if tg.heavy {
				n = 10 * scale
			}
			for i := 0; i < n; i++ {
				offs = append(offs, head+rng.Intn(len(data)-head))
			}
		}
		for _, o := range offs {
			for _, v := range vals {
				o, v := o, v
				if data[o] == v {
					continue
				}
				if tg.heavy && rng.Intn(3) != 0 {
					continue
				}
				add(fmt.Sprintf("byte@%d=%#02x", o, v), "byteset", func() []byte { x := append([]byte{}, data...); x[o] = v; return x })
			}
		}
		// structure-aware CBOR mutation: every (nested) data item replaced as a whole by a null, a number, an empty string /
		// list, a boolean, a degenerate link - the node stays well-formed CBOR with a wrong item in one position
		if tg.cbor {
			for _, sp := range c12cborItems(data) {
				for k, sub := range c12ItemSubst {
					sp, sub := sp, sub
					add(fmt.Sprintf("item@%d-%d:=%d", sp[0], sp[1], k), "cbor-item", func() []byte {
						return append(append(append([]byte{}, data[:sp[0]]...), sub...), data[sp[1]:]...)
					})
				}
			}
		}
		// chunk operations: delete / duplicate / zero / randomise a chunk, insert random bytes
		nChunk := 150 * scale
		if tg.heavy {
			nChunk = 12 * scale
		}
		for i := 0; i < nChunk && len(data) > 2; i++ {
			op := rng.Intn(5)
			a := rng.Intn(len(data))
			if rng.Intn(2) == 0 {
				a = rng.Intn(minInt(len(data), 64))
			}
			n := 1 + rng.Intn(minInt(len(data)-a, 1+rng.Intn(64)))
			sd := rng.Int63()
			add(fmt.Sprintf("chunk%d@%d+%d", op, a, n), "chunk", func() []byte {
				r := rand.New(rand.NewSource(sd))
				x := append([]byte{}, data...)
				switch op {
				case 0:
					return append(x[:a], x[a+n:]...)
				case 1:
					return append(append(append([]byte{}, x[:a+n]...), x[a:a+n]...), x[a+n:]...)
				case 2:
					for k := a; k < a+n; k++ {
						x[k] = 0
					}
				case 3:
					r.Read(x[a : a+n])
				default:
					ins := make([]byte, n)
					r.Read(ins)
					return append(append(append([]byte{}, x[:a]...), ins...), x[a:]...)
				}
				return x
			})
		}
	}
	// (3) random byte strings for the pure-bytes parsers
	for _, p := range []string{"node", "txmeta", "indexmeta", "compactindex:slot-to-cid", "dep-compactindex", "dep-compactindex36", "dep-sigexists", "blocktime", "manifest", "linkedlog", "car", "car-info", "sigexists-raw"} {
		p := p
		n := 300 * scale
		for i := 0; i < n; i++ {
			ln := []int{1, 2, 3, 4, 8, 9, 12, 13, 16, 24, 25, 32, 33, 46, 47, 64, 100, 1000}[rng.Intn(18)]
			sd := rng.Int63()
			mode := rng.Intn(3)
			seedName := "random"
			jobs = append(jobs, c12Job{Parser: strings.TrimSuffix(p, "-raw"), Seed: seedName, Mut: fmt.Sprintf("random%d/%d#%d", mode, ln, i), Class: "random", Role: "bytes",
				gen: func() []byte {
					r := rand.New(rand.NewSource(sd))
					x := make([]byte, ln)
					switch mode {
					case 0:
						r.Read(x)
					case 1: // mostly small values
						for k := range x {
							x[k] = byte(r.Intn(4))
						}
					default: // mostly 0xff
						for k := range x {
							if r.Intn(4) == 0 {
								x[k] = byte(r.Intn(256))
							} else {
								x[k] = 0xff
							}
						}
					}
					// keep a valid magic in front half of the time so that parsing goes past the first check
					if pre := c12Magic(s, p); pre != nil && r.Intn(2) == 0 && len(x) > len(pre) {
						copy(x, pre)
					}
					return x
				}})
		}
	}
	return jobs
}

// c12cborItems returns the [start, end) spans of every (nested) data item of a definite-length CBOR encoding
func c12cborItems(b []byte) (spans [][2]int) {
	var walk func(p int) int
	walk = func(p int) int {
		if p >= len(b) {
			return -1
		}
		start := p
		major, info := b[p]>>5, b[p]&0x1f
		p++
		var arg uint64
		switch {
		case info < 24:
			arg = uint64(info)
		case info == 24 && p+1 <= len(b):
			arg, p = uint64(b[p]), p+1
		case info == 25 && p+2 <= len(b):
			arg, p = uint64(binary.BigEndian.Uint16(b[p:])), p+2
		case info == 26 && p+4 <= len(b):
			arg, p = uint64(binary.BigEndian.Uint32(b[p:])), p+4
		case info == 27 && p+8 <= len(b):
			arg, p = binary.BigEndian.Uint64(b[p:]), p+8
		default:
			return -1
		}
		switch major {
		case 2, 3:
			if arg > uint64(len(b)-p) {
				return -1
			}
			p += int(arg)
		case 4:
			for i := uint64(0); i < arg; i++ {
				if p = walk(p); p < 0 {
					return -1
				}
			}
		case 5:
			for i := uint64(0); i < 2*arg; i++ {
				if p = walk(p); p < 0 {
					return -1
				}
			}
		case 6:
			if p = walk(p); p < 0 {
				return -1
			}
		}
		spans = append(spans, [2]int{start, p})
		return p
	}
	walk(0)
	return spans
}

// whole-item replacements: null, 0, -1, empty bytes, empty text, empty list, true, a link tag around empty bytes
var c12ItemSubst = [][]byte{{0xf6}, {0x00}, {0x20}, {0x40}, {0x60}, {0x80}, {0xf5}, {0xd8, 0x2a, 0x40}, {0xd8, 0x2a, 0x41, 0x00}, {0x1b, 0xff, 0xff, 0xff, 0xff, 0xff, 0xff, 0xff, 0xff}, {0x3b, 0xff, 0xff, 0xff, 0xff, 0xff, 0xff, 0xff, 0xff}}

func c12Magic(s *c12Seeds, parser string) []byte {
	switch {
	case strings.HasPrefix(parser, "compactindex:"):
		return s.files["slot-to-cid"][:8]
	case parser == "dep-compactindex":
		return s.files["dep-compactindex"][:8]
	case parser == "dep-compactindex36":
		return s.files["dep-compactindex36"][:8]
	case parser == "blocktime":
		return s.files["blocktime"][:14]
	case parser == "manifest":
		return s.files["manifest"][:16]
	case parser == "node":
		return []byte{0x86, 0x00}
	}
	return nil
}

// ---- parser entry points --------------------------------------------------------------------------------------------

func c12Run(s *c12Seeds, job c12Job, data []byte, scratch string) (res string) {
	tr := &s.truth
	note := func(err error) {
		if err != nil {
			res = "error"
		}
	}
	res = "ok"
	p := job.Parser
	switch {
	case strings.HasPrefix(p, "compactindex:"):
		kind := strings.TrimPrefix(p, "compactindex:")
		var keys [][]byte
		switch kind {
		case "cid-to-offset-and-size":
			keys = tr.Cids
		case "slot-to-cid":
			for _, sl := range tr.Slots {
				keys = append(keys, indexes.Uint64tob(sl))
			}
		case "sig-to-cid":
			keys = tr.Sigs
		default:
			keys = tr.Addrs
		}
		if len(keys) > 12 {
			keys = keys[:12]
		}
		db, err := compactindexsized.Open(c12reader(data))
		note(err)
		if err == nil {
			db.GetKind()
			for _, k := range keys {
				_, err := db.Lookup(k)
				note(err)
			}
			_, err := db.Lookup([]byte("no such key"))
			_ = err
			db.Prefetch(true)
			if len(keys) > 0 {
				_, err := db.Lookup(keys[0])
				note(err)
			}
		}
		switch kind {
		case "cid-to-offset-and-size":
			r, err := indexes.OpenWithReader_CidToOffsetAndSize(c12reader(data))
			note(err)
			if err == nil {
				r.Meta()
				for _, k := range keys {
					_, c, _ := cid.CidFromBytes(k)
					_, err := r.Get(c)
					note(err)
				}
			}
		case "slot-to-cid":
			r, err := indexes.OpenWithReader_SlotToCid(c12reader(data))
			note(err)
			if err == nil {
				for _, sl := range tr.Slots {
					_, err := r.Get(sl)
					note(err)
				}
			}
		case "sig-to-cid":
			r, err := indexes.OpenWithReader_SigToCid(c12reader(data))
			note(err)
			if err == nil {
				for _, k := range keys {
					_, err := r.Get(solana.SignatureFromBytes(k))
					note(err)
				}
			}
		default:
			r, err := indexes.OpenWithReader_PubkeyToOffsetAndSize(c12reader(data))
			note(err)
			if err == nil {
				for _, k := range keys {
					_, err := r.Get(solana.PublicKeyFromBytes(k))
					note(err)
				}
			}
		}
	case p == "dep-compactindex":
		db, err := depcompactindex.Open(c12reader(data))
		note(err)
		if err == nil {
			for i, k := range tr.Cids {
				if i > 12 {
					break
				}
				_, err := db.Lookup(k)
				note(err)
			}
			db.Prefetch(true)
			_, err := db.Lookup(tr.Cids[0])
			note(err)
		}
		r, err := indexes.Deprecated_OpenWithReader_CidToOffset(c12reader(data))
		note(err)
		if err == nil {
			_, c, _ := cid.CidFromBytes(tr.Cids[0])
			_, err := r.Get(c)
			note(err)
		}
	case p == "dep-compactindex36":
		db, err := depcompactindex36.Open(c12reader(data))
		note(err)
		if err == nil {
			for i, k := range tr.Sigs {
				if i > 12 {
					break
				}
				_, err := db.Lookup(k)
				note(err)
			}
			db.Prefetch(true)
			_, err := db.Lookup(tr.Sigs[0])
			note(err)
		}
		r, err := indexes.OpenWithReader_SigToCid_Deprecated(c12reader(data))
		note(err)
		if err == nil {
			_, err := r.Get(solana.SignatureFromBytes(tr.Sigs[0]))
			note(err)
		}
	case p == "sigexists":
		r, err := bucketteer.NewReader(bytes.NewReader(data))
		note(err)
		if err == nil {
			r.Meta()
			for i, k := range tr.Sigs {
				if i > 12 {
					break
				}
				var x [64]byte
				copy(x[:], k)
				_, err := r.Has(x)
				note(err)
			}
			z := [64]byte{0, 0, 0x11, 0x22, 0x33}
			_, err := r.Has(z)
			note(err)
		}
	case p == "sigexists-sparse":
		// the same bytes at the start of a huge sparse file (or a remote that answers any range): reads past the bytes we have
		// return zeros up to a virtual size of 2^40, so offsets and counts taken from the file are not stopped by a short file
		r, err := bucketteer.NewReader(c12sparse{data: data, size: 1 << 40})
		note(err)
		if err == nil {
			r.Meta()
			for i, k := range tr.Sigs {
				if i > 12 {
					break
				}
				var x [64]byte
				copy(x[:], k)
				_, err := r.Has(x)
				note(err)
			}
			// a signature of the first prefix bucket (the one the structured bucket fields are mutated in)
			z := [64]byte{0, 0, 0x11, 0x22, 0x33}
			_, err := r.Has(z)
			note(err)
		}
	case p == "dep-sigexists":
		r, err := depbucketteer.NewReader(bytes.NewReader(data))
		note(err)
		if err == nil {
			r.Meta()
			for i, k := range tr.Sigs {
				if i > 12 {
					break
				}
				var x [64]byte
				copy(x[:], k)
				_, err := r.Has(x)
				note(err)
			}
		}
	case p == "blocktime":
		idx, err := blocktimeindex.FromBytes(data)
		note(err)
		if err == nil {
			for _, sl := range append(append([]uint64{}, tr.Slots...), 432000, 863999, 0, 864000, ^uint64(0)) {
				_, err := idx.Get(sl)
				note(err)
			}
		}
	case p == "manifest":
		fp := filepath.Join(scratch, "manifest")
		os.WriteFile(fp, data, 0o644)
		m, err := manifest.NewManifest(fp, indexmeta.Meta{})
		note(err)
		if err == nil {
			_, err := m.ReadAll()
			note(err)
			m.ContentSizeBytes()
			m.Version()
			mm := m.Meta()
			mm.GetUint64(indexmeta.MetadataKey_Epoch)
			m.Close()
		}
		os.Remove(fp)
	case p == "linkedlog":
		fp := filepath.Join(scratch, "linked-log")
		os.WriteFile(fp, data, 0o644)
		ll, err := linkedlog.NewLinkedLog(fp)
		note(err)
		if err == nil {
			for _, r := range tr.LogRecs {
				_, _, err := ll.ReadWithSize(r[0], r[1])
				note(err)
			}
			for _, r := range [][2]uint64{{0, uint64(len(data))}, {1, 20}, {uint64(len(data)), 10}, {0, 9}, {0, 10}, {3, 1 << 20}} {
				_, _, err := ll.ReadWithSize(r[0], r[1])
				note(err)
			}
			// the size a reader derives from the record's own length prefix (what Read(offset) computes), capped at the
			// 16 MiB an index entry can express
			offs := []uint64{0}
			for _, r := range tr.LogRecs {
				offs = append(offs, r[0])
			}
			for _, off := range offs {
				if off < uint64(len(data)) {
					if pl, n := binary.Uvarint(data[off:]); n > 0 && pl < 1<<24 {
						_, _, err := ll.ReadWithSize(off, uint64(n)+pl)
						note(err)
					}
				}
			}
			ll.Close()
		}
		os.Remove(fp)
	case strings.HasPrefix(p, "gsfa-dir:"):
		which := strings.TrimPrefix(p, "gsfa-dir:")
		dir := filepath.Join(scratch, "gsfa")
		os.MkdirAll(dir, 0o755)
		for seed, fn := range map[string]string{"pubkey": "pubkey-to-offset-and-size.index", "linkedlog": "linked-log", "manifest": "manifest"} {
			b := s.files[seed]
			if seed == which {
				b = data
			}
			os.WriteFile(filepath.Join(dir, fn), b, 0o644)
		}
		r, err := gsfa.NewGsfaReader(dir)
		note(err)
		if err == nil {
			for _, a := range tr.Addrs {
				_, err := r.Get(context.Background(), solana.PublicKeyFromBytes(a), 1000)
				note(err)
			}
			r.Version()
			r.Meta()
			r.Close()
		}
		os.RemoveAll(dir)
	case p == "car":
		cr, err := carreader.New(io.NopCloser(bytes.NewReader(data)))
		note(err)
		if err == nil {
			cr.HeaderSize()
			for i := 0; i < 200000; i++ {
				_, _, _, err := cr.NextNodeBytes()
				if err != nil {
					if err != io.EOF && !strings.HasSuffix(err.Error(), "EOF") {
						note(err)
					}
					break
				}
			}
		}
	case p == "car-info":
		// (a separate job: each open may allocate up to the 32 MiB header / section cap by design)
		cr, err := carreader.New(io.NopCloser(bytes.NewReader(data)))
		note(err)
		if err == nil {
			for i := 0; i < 200000; i++ {
				if i%2 == 0 {
					_, _, err = cr.NextInfo()
				} else {
					_, _, _, err = cr.NextNode()
				}
				if err != nil {
					break
				}
			}
		}
	case p == "car-at":
		rd := c12reader(data)
		for i, sec := range tr.Secs {
			if i%7 != 0 && i != len(tr.Secs)-1 {
				continue
			}
			_, c, _ := cid.CidFromBytes(tr.Cids[i])
			_, err := readNodeFromReaderAtWithOffsetAndSize(rd, &c, sec[0], sec[1])
			note(err)
			_, err = readNodeSizeFromReaderAtWithOffset(rd, sec[0])
			note(err)
			_, err = readSectionFromReaderAt(rd, sec[0], sec[1])
			note(err)
			_, err = readNodeWithKnownSize(bufio.NewReader(bytes.NewReader(data[minInt(int(sec[0]), len(data)):])), &c, sec[1])
			note(err)
		}
		_, err := parseNodeFromSection(data, nil)
		note(err)
	case p == "node":
		v, err := iplddecoders.DecodeAny(data)
		note(err)
		if err == nil {
			c12UseNode(v)
		}
		iplddecoders.DecodeEpoch(data)
		iplddecoders.DecodeSubset(data)
		iplddecoders.DecodeBlock(data)
		iplddecoders.DecodeEntry(data)
		iplddecoders.DecodeTransaction(data)
		iplddecoders.DecodeRewards(data)
		iplddecoders.DecodeDataFrame(data)
	case p == "frames" || p == "frames-tx":
		// reassembly of multi-frame payloads when one continuation frame (or the node embedding the first frame) is arbitrary bytes
		getter := func(ctx context.Context, want cid.Cid) (*ipldbindcode.DataFrame, error) {
			for i, cb := range tr.FrameCids {
				if bytes.Equal(cb, want.Bytes()) {
					raw := s.files[tr.Frames[i]]
					if p == "frames" && tr.Frames[i] == job.Seed {
						raw = data
					}
					return iplddecoders.DecodeDataFrame(raw)
				}
			}
			return nil, fmt.Errorf("no such frame")
		}
		txs := tr.FrameTx
		if p == "frames-tx" {
			txs = []string{job.Seed}
		}
		for _, name := range txs {
			raw := s.files[name]
			if p == "frames-tx" {
				raw = data
			}
			tx, err := iplddecoders.DecodeTransaction(raw)
			note(err)
			if err != nil {
				continue
			}
			_, err = tooling.LoadDataFromDataFrames(&tx.Metadata, getter)
			note(err)
			_, err = tooling.LoadDataFromDataFrames(&tx.Data, getter)
			note(err)
		}
	case p == "txmeta":
		buf := data
		if strings.HasSuffix(job.Seed, "-zstd") {
			var err error
			buf, err = tooling.DecompressZstd(data)
			note(err)
			if err != nil {
				return
			}
		}
		_, err := solanatxmetaparsers.ParseAnyTransactionStatusMeta(buf)
		note(err)
		c, err := solanatxmetaparsers.ParseTransactionStatusMetaContainer(buf)
		if err == nil {
			c.GetLoadedAccounts()
			c.Ok()
		}
		solanatxmetaparsers.ParseLegacyTransactionStatusMeta(buf)
		solanatxmetaparsers.ParseLegacyTransactionStatusMetaOldest(buf)
	case p == "indexmeta":
		var m indexmeta.Meta
		err := m.UnmarshalBinary(data)
		note(err)
		if err == nil {
			for _, k := range [][]byte{indexmeta.MetadataKey_Epoch, indexmeta.MetadataKey_Kind, indexmeta.MetadataKey_RootCid, indexmeta.MetadataKey_Network} {
				m.GetUint64(k)
				m.GetCid(k)
				m.GetString(k)
				m.Count(k)
			}
			m.Bytes()
		}
	default:
		panic("unknown parser " + p)
	}
	return
}

// c12UseNode follows the links of a successfully decoded node with the same unchecked assertions the server code uses
// (x.(cidlink.Link).Cid on every link of Epoch.Subsets, Subset.Blocks, Block.Entries / Rewards, Entry.Transactions,
// DataFrame.Next): a decoder that lets a non-link through makes these panic
func c12UseNode(v any) {
	links := func(l ipldbindcode.List__Link) {
		for _, x := range l {
			_ = x.(cidlink.Link).Cid
		}
	}
	frame := func(f *ipldbindcode.DataFrame) {
		if n, ok := f.GetNext(); ok {
			links(n)
		}
		f.GetHash()
		f.GetIndex()
		f.GetTotal()
		_ = f.Bytes()
	}
	switch x := v.(type) {
	case *ipldbindcode.Epoch:
		links(x.Subsets)
	case *ipldbindcode.Subset:
		links(x.Blocks)
	case *ipldbindcode.Block:
		links(x.Entries)
		_ = x.Rewards.(cidlink.Link).Cid
		x.GetBlockHeight()
		for _, s := range x.Shredding {
			_, _ = s.EntryEndIdx, s.ShredEndIdx
		}
	case *ipldbindcode.Entry:
		links(x.Transactions)
	case *ipldbindcode.Transaction:
		frame(&x.Data)
		frame(&x.Metadata)
		x.GetPositionIndex()
	case *ipldbindcode.Rewards:
		frame(&x.Data)
	case *ipldbindcode.DataFrame:
		frame(x)
	}
}

// ---- child ----------------------------------------------------------------------------------------------------------

func c12LoadCases(t testing.TB) []c12Case {
	var cases []c12Case
	for _, raw := range vt.Cases(t) {
		var c c12Case
		if err := json.Unmarshal(raw, &c); err != nil {
			panic(err)
		}
		cases = append(cases, c)
	}
	return cases
}

func TestVerifC12Child(t *testing.T) {
	dir := os.Getenv("VERIF_C12_SEEDS")
	if dir == "" || os.Getenv("VERIF_C12_CHILD") == "" {
		t.Skip("child only")
	}
	// address space limit: an allocation the file asks for beyond this kills this process, not the machine
	lim := uint64(6 << 30)
	syscall.Setrlimit(syscall.RLIMIT_AS, &syscall.Rlimit{Cur: lim, Max: lim})
	debug.SetMaxStack(256 << 20)
	debug.SetGCPercent(50)
	s, err := c12LoadSeeds(dir)
	if err != nil {
		t.Fatal(err)
	}
	jobs := c12Jobs(s, c12LoadCases(t), vt.Seed(), vt.Quick())
	start, _ := strconv.Atoi(os.Getenv("VERIF_C12_START"))
	hb, err := os.OpenFile(os.Getenv("VERIF_C12_HB"), os.O_CREATE|os.O_WRONLY, 0o644)
	if err != nil {
		t.Fatal(err)
	}
	resf, err := os.OpenFile(os.Getenv("VERIF_C12_RES"), os.O_CREATE|os.O_WRONLY|os.O_APPEND, 0o644)
	if err != nil {
		t.Fatal(err)
	}
	scratch := t.TempDir()
	only := os.Getenv("VERIF_C12_ONLY")
	var ms0, ms1 runtime.MemStats
	for i := start; i < len(jobs); i++ {
		if only != "" && jobs[i].Mut+"|"+jobs[i].Parser+"|"+jobs[i].Seed != only {
			continue
		}
		hb.WriteAt([]byte(fmt.Sprintf("%012d", i)), 0)
		data := jobs[i].gen()
		runtime.ReadMemStats(&ms0)
		t0 := time.Now()
		var outcome string
		detail := vt.Guard(func() { outcome = c12Run(s, jobs[i], data, scratch) })
		ms := time.Since(t0).Milliseconds()
		runtime.ReadMemStats(&ms1)
		if detail != "" {
			outcome = "panic"
		}
		r := c12Res{I: i, Outcome: outcome, Detail: detail, Alloc: ms1.TotalAlloc - ms0.TotalAlloc, Size: len(data), Ms: ms}
		if r.Alloc > 32<<20 {
			// a job that allocated a lot (within its bound): give the memory back before the next one, so that garbage of
			// several such jobs cannot add up to the address-space limit
			debug.FreeOSMemory()
		}
		b, _ := json.Marshal(r)
		resf.Write(append(b, '\n'))
	}
	hb.WriteAt([]byte(fmt.Sprintf("%012d", len(jobs))), 0)
}

// ---- parent ---------------------------------------------------------------------------------------------------------

func TestVerifC12(t *testing.T) {
	out := vt.Out(t)
	defer out.Close()
	work := os.Getenv("VERIF_SCRATCH")
	if work == "" {
		work = t.TempDir()
	}
	dir := filepath.Join(work, "c12seeds")
	os.RemoveAll(dir)
	os.MkdirAll(dir, 0o755)
	c12BuildSeeds(t, dir)
	s, err := c12LoadSeeds(dir)
	if err != nil {
		t.Fatal(err)
	}
	jobs := c12Jobs(s, c12LoadCases(t), vt.Seed(), vt.Quick())
	t.Logf("%d jobs", len(jobs))
	hbp, resp := filepath.Join(work, "c12.hb"), filepath.Join(work, "c12.res")
	os.Remove(resp)
	results := map[int]c12Res{}
	hangAfter := 30 * time.Second
	start, restarts := 0, 0
	for start < len(jobs) && restarts < 60 {
		os.WriteFile(hbp, []byte(fmt.Sprintf("%012d", start)), 0o644)
		cmd := exec.Command(os.Args[0], "-test.run=^TestVerifC12Child$", "-test.timeout=0")
		cmd.Env = append(os.Environ(), "VERIF_C12_CHILD=1", "VERIF_C12_SEEDS="+dir, "VERIF_C12_START="+strconv.Itoa(start), "VERIF_C12_HB="+hbp, "VERIF_C12_RES="+resp, "GOTRACEBACK=single")
		var errb bytes.Buffer
		cmd.Stderr = &errb
		cmd.Stdout = &errb
		cmd.Dir, _ = os.Getwd()
		if err := cmd.Start(); err != nil {
			t.Fatal(err)
		}
		done := make(chan error, 1)
		go func() { done <- cmd.Wait() }()
		lastHB, lastChange := "", time.Now()
		hung := false
		var werr error
	wait:
		for {
			select {
			case werr = <-done:
				break wait
			case <-time.After(200 * time.Millisecond):
				b, _ := os.ReadFile(hbp)
				if string(b) != lastHB {
					lastHB, lastChange = string(b), time.Now()
				} else if time.Since(lastChange) > hangAfter {
					hung = true
					cmd.Process.Kill()
					werr = <-done
					break wait
				}
			}
		}
		b, _ := os.ReadFile(hbp)
		cur, _ := strconv.Atoi(strings.TrimSpace(string(b)))
		if werr == nil && !hung {
			start = len(jobs)
			break
		}
		// the job in flight killed the child
		restarts++
		tail := errb.String()
		outcome := "crash"
		switch {
		case hung:
			outcome = "hang"
		case strings.Contains(tail, "out of memory") || strings.Contains(tail, "cannot allocate memory") || strings.Contains(tail, "exceeds"+" limit"):
			outcome = "alloc"
		case strings.Contains(tail, "stack overflow") || strings.Contains(tail, "goroutine stack exceeds"):
			outcome = "panic"
		case strings.Contains(tail, "all goroutines are asleep"):
			outcome = "hang"
		}
		site := ""
		if i := strings.Index(tail, "fatal error:"); i >= 0 {
			site = strings.SplitN(tail[i:], "\n", 2)[0] + " @ " + vPanicSite(tail[i:])
		} else if i := strings.Index(tail, "panic:"); i >= 0 {
			site = strings.SplitN(tail[i:], "\n", 2)[0] + " @ " + vPanicSite(tail[i:])
		} else if len(tail) > 300 {
			site = tail[len(tail)-300:]
		} else {
			site = tail
		}
		if cur >= len(jobs) {
			t.Fatalf("child died after the last job: %s", tail)
		}
		results[cur] = c12Res{I: cur, Outcome: outcome, Detail: "process death: " + site, Size: -1}
		start = cur + 1
	}
	f, err := os.Open(resp)
	if err == nil {
		sc := bufio.NewScanner(f)
		sc.Buffer(make([]byte, 1<<20), 1<<24)
		for sc.Scan() {
			var r c12Res
			if json.Unmarshal(sc.Bytes(), &r) == nil {
				if _, dup := results[r.I]; !dup {
					results[r.I] = r
				}
			}
		}
		f.Close()
	}
	only := os.Getenv("VERIF_C12_ONLY")
	for i, j := range jobs {
		r, ok := results[i]
		if !ok {
			if only != "" {
				continue
			}
			r = c12Res{I: i, Outcome: "notrun", Detail: fmt.Sprintf("not executed (restart cap reached after %d process deaths)", restarts)}
		}
		outcome := r.Outcome
		bound := uint64(64<<20) + 100*uint64(maxInt(r.Size, 0))
		if j.Parser == "linkedlog" || strings.HasPrefix(j.Parser, "gsfa-dir") || (j.Parser == "txmeta" && strings.HasSuffix(j.Seed, "-zstd")) {
			bound += 256 << 20 // the repository's cap on what a compressed payload may decompress to
		}
		if (outcome == "ok" || outcome == "error") && r.Alloc > bound {
			outcome = "alloc"
			r.Detail = fmt.Sprintf("allocated %d bytes for an input of %d bytes", r.Alloc, r.Size)
		}
		if (outcome == "ok" || outcome == "error") && r.Ms > 10000 {
			outcome = "hang"
			r.Detail = fmt.Sprintf("took %d ms", r.Ms)
		}
		out.Emit(c12Obs{Kind: "fault", Parser: j.Parser, Seed: j.Seed, Mut: j.Mut, Class: j.Class, Role: j.Role, Expect: j.Expect, Outcome: outcome, Detail: r.Detail, Alloc: r.Alloc, Size: r.Size, Job: i})
	}
	t.Logf("%d jobs, %d process deaths", len(jobs), restarts)
}
