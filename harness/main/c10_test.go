package main

// C10 replayer (R3): every configuration enumerated by spec/EpochLoad.tla is assembled from the index files of three
// fixture epochs (A = epoch 1 / CAR X, B = epoch 2 / CAR Y, C = epoch 1 / CAR Z) and given to the real
// NewEpochFromConfig; on success the identity fields are read back and every CID of CAR X is fetched.

import (
	"bytes"
	"context"
	"encoding/binary"
	"encoding/json"
	"fmt"
	"net/http"
	"net/http/httptest"
	"os"
	"os/exec"
	"path/filepath"
	"strconv"
	"strings"
	"testing"
	"time"

	"github.com/urfave/cli/v2"

	"github.com/rpcpool/yellowstone-faithful/indexes"
	"github.com/rpcpool/yellowstone-faithful/indexmeta"
	"github.com/rpcpool/yellowstone-faithful/zzverif/fixture"
	"github.com/rpcpool/yellowstone-faithful/zzverif/vt"
)

type c10File struct {
	Kind string `json:"kind"`
	Src  string `json:"src"`
}

type c10Case struct {
	CfgEpoch   uint64             `json:"cfgEpoch"`
	Car        string             `json:"car"`
	Assign     map[string]c10File `json:"assign"`
	Consistent bool               `json:"consistent"`
	Mismatches int                `json:"mismatches"`
}

type c10Obs struct {
	c10Case
	Case    int      `json:"case"`
	Outcome string   `json:"outcome"`
	Metaok  bool     `json:"metaok"`
	Fetch   []string `json:"fetch"`
	Detail  string   `json:"detail"`
	Remote  bool     `json:"remote"` // the index files were opened over HTTP
}

func c10spec(epoch uint64, seed int64) fixture.EpochSpec {
	base := epoch * 432000
	s := fixture.EpochSpec{Epoch: epoch, Seed: seed, Fanout: 2}
	parent := base - 1
	sig := 0
	offs := []uint64{3, 4, 9}
	if epoch == 0 {
		offs = []uint64{0, 1, 4}
		parent = 0
	}
	for _, off := range offs {
		slot := base + off
		b := fixture.BlockSpec{Slot: slot, Parent: parent, Blocktime: int64(1700000000 + slot%1000), RewardsFrames: int(off % 2)}
		es := fixture.EntrySpec{}
		for k := 0; k < 3; k++ {
			sig++
			es.Txs = append(es.Txs, fixture.TxSpec{SigID: sig, Accounts: []int{1, 2 + k%2}, DataFrames: 1, MetaFrames: 1 + k%2*2, MetaPad: 300 * (k % 2)})
		}
		b.Entries = []fixture.EntrySpec{es}
		s.Blocks = append(s.Blocks, b)
		parent = slot
	}
	return s
}

func c10path(l *loaded, kind string) string {
	switch kind {
	case "cid":
		return l.paths.CidToOffsetAndSize
	case "slot":
		return l.paths.SlotToCid
	case "sig":
		return l.paths.SignatureToCid
	case "sigexists":
		return l.paths.SignatureExists
	case "blocktime":
		return l.paths.SlotToBlocktime
	default:
		return l.gsfaDir
	}
}

// TestVerifC10ChildCmds runs the individual `index ...` commands (own process: one bucketteer writer per process).
func TestVerifC10ChildCmds(t *testing.T) {
	car := os.Getenv("VERIF_C10_CMD_CAR")
	if car == "" {
		t.Skip("child only")
	}
	dir, ep := os.Getenv("VERIF_C10_CMD_DIR"), os.Getenv("VERIF_C10_CMD_EPOCH")
	tmp := filepath.Join(dir, "tmp")
	os.MkdirAll(tmp, 0o755)
	for _, sub := range [][]string{
		{"cid-to-offset", "--tmp-dir=" + tmp}, {"slot-to-cid", "--tmp-dir=" + tmp}, {"sig-to-cid", "--tmp-dir=" + tmp},
		{"sig-exists"}, {"gsfa", "--tmp-dir=" + filepath.Join(dir, "tmpgsfa"), "--sigverify=false"},
	} {
		app := &cli.App{Commands: []*cli.Command{newCmd_Index()}}
		args := append([]string{"x", "index", sub[0], "--epoch=" + ep}, sub[1:]...)
		args = append(args, car, dir)
		if err := app.Run(args); err != nil {
			t.Fatalf("index %s: %v", sub[0], err)
		}
	}
}

func TestVerifC10(t *testing.T) {
	out := vt.Out(t)
	defer out.Close()
	// the model's epoch labels 1 and 2 are mapped to concrete epoch numbers (any epoch number, including 0)
	e1, e2 := uint64(1), uint64(2)
	if v, err := strconv.ParseUint(os.Getenv("VERIF_C10_E1"), 10, 64); err == nil {
		e1 = v
	}
	if v, err := strconv.ParseUint(os.Getenv("VERIF_C10_E2"), 10, 64); err == nil {
		e2 = v
	}
	label := map[uint64]uint64{1: e1, 2: e2}
	src := map[string]*loaded{}
	for name, sp := range map[string]fixture.EpochSpec{"A": c10spec(e1, 11), "B": c10spec(e2, 22), "C": c10spec(e1, 33)} {
		l, err := vBuild(t, sp, true)
		if err != nil {
			t.Fatalf("fixture %s: %v", name, err)
		}
		src[name] = l
	}
	A := src["A"]
	// D: the indexes of CAR X built one by one with the per-index commands and a wrong --epoch (same root CID)
	{
		dir := t.TempDir()
		cmd := exec.Command(os.Args[0], "-test.run=^TestVerifC10ChildCmds$")
		cmd.Env = append(os.Environ(), "VERIF_C10_CMD_CAR="+A.built.CarPath, "VERIF_C10_CMD_DIR="+dir, fmt.Sprintf("VERIF_C10_CMD_EPOCH=%d", e2))
		if b, err := cmd.CombinedOutput(); err != nil {
			tail := string(b)
			if len(tail) > 1200 {
				tail = tail[len(tail)-1200:]
			}
			t.Fatalf("per-index commands failed: %v\n%s", err, tail)
		}
		one := func(pat string) string {
			m, _ := filepath.Glob(filepath.Join(dir, pat))
			if len(m) != 1 {
				t.Fatalf("expected one %s, got %v", pat, m)
			}
			return m[0]
		}
		src["D"] = &loaded{built: A.built, paths: &IndexPaths{CidToOffsetAndSize: one("*cid-to-offset-and-size.index"), SlotToCid: one("*slot-to-cid.index"),
			SignatureToCid: one("*sig-to-cid.index"), SignatureExists: one("*sig-exists.index")}, gsfaDir: one("*gsfa.indexdir")}
	}
	// Ae / Ar / Am: A's own files with one recorded identity field replaced in place
	{
		dir := t.TempDir()
		epochKey := append([]byte{5}, []byte("epoch")...)
		rootKey := append([]byte{7}, []byte("rootCid")...)
		e2b := make([]byte, 8)
		binary.LittleEndian.PutUint64(e2b, e2)
		zroot := src["C"].built.Root.Bytes()
		patch := func(from, to string, key []byte, val []byte) {
			b, err := os.ReadFile(from)
			if err != nil {
				t.Fatal(err)
			}
			i := bytes.Index(b[:minInt(len(b), 1<<20)], key)
			if i < 0 || int(b[i+len(key)]) != len(val) {
				t.Fatalf("identity field %q not found in %s", key[1:], from)
			}
			copy(b[i+len(key)+1:], val)
			os.MkdirAll(filepath.Dir(to), 0o755)
			if err := os.WriteFile(to, b, 0o644); err != nil {
				t.Fatal(err)
			}
		}
		cp := func(from, to string) {
			b, _ := os.ReadFile(from)
			os.MkdirAll(filepath.Dir(to), 0o755)
			os.WriteFile(to, b, 0o644)
		}
		mk := func(name string, key, val []byte, manifestOnly bool) *loaded {
			d := filepath.Join(dir, name)
			p := &IndexPaths{CidToOffsetAndSize: filepath.Join(d, "cid"), SlotToCid: filepath.Join(d, "slot"), SignatureToCid: filepath.Join(d, "sig"),
				SignatureExists: filepath.Join(d, "sigexists"), SlotToBlocktime: filepath.Join(d, "blocktime")}
			if !manifestOnly {
				patch(A.paths.CidToOffsetAndSize, p.CidToOffsetAndSize, key, val)
				patch(A.paths.SlotToCid, p.SlotToCid, key, val)
				patch(A.paths.SignatureToCid, p.SignatureToCid, key, val)
				patch(A.paths.SignatureExists, p.SignatureExists, key, val)
				if name == "Ae" { // the slot-to-blocktime index: magic(14) start(8) end(8) epoch(8)
					b, _ := os.ReadFile(A.paths.SlotToBlocktime)
					copy(b[30:38], val)
					os.MkdirAll(d, 0o755)
					os.WriteFile(p.SlotToBlocktime, b, 0o644)
				} else {
					cp(A.paths.SlotToBlocktime, p.SlotToBlocktime)
				}
			}
			g := filepath.Join(d, "gsfa")
			for _, fn := range []string{"linked-log", "pubkey-to-offset-and-size.index", "manifest"} {
				from, to := filepath.Join(A.gsfaDir, fn), filepath.Join(g, fn)
				if fn == "manifest" || (fn != "linked-log" && !manifestOnly) {
					patch(from, to, key, val)
				} else {
					cp(from, to)
				}
			}
			return &loaded{built: A.built, paths: p, gsfaDir: g}
		}
		src["Ae"] = mk("Ae", epochKey, e2b, false)
		src["Ar"] = mk("Ar", rootKey, zroot, false)
		src["Am"] = mk("Am", epochKey, e2b, true)
	}
	carOf := map[string]string{"X": A.built.CarPath, "Z": src["C"].built.CarPath}
	cache := vCache(t)
	// the index files of every source are also reachable over loopback HTTP, one server ("mirror") per source, all with
	// the same URL paths (/cid, /slot, /sig, /sigexists, /blocktime)
	mirror := map[string]*httptest.Server{}
	for name, l := range src {
		l := l
		mirror[name] = httptest.NewServer(http.HandlerFunc(func(w http.ResponseWriter, r *http.Request) {
			kind := strings.TrimPrefix(r.URL.Path, "/")
			if kind == "gsfa" || l.paths == nil {
				http.NotFound(w, r)
				return
			}
			fp := c10path(l, kind)
			f, err := os.Open(fp)
			if err != nil || fp == "" {
				http.NotFound(w, r)
				return
			}
			defer f.Close()
			http.ServeContent(w, r, kind, time.Time{}, f)
		}))
		defer mirror[name].Close()
	}
	type job struct {
		c      c10Case
		remote bool
	}
	var jobs []job
	for _, raw := range vt.Cases(t) {
		var c c10Case
		if err := json.Unmarshal(raw, &c); err != nil {
			t.Fatal(err)
		}
		jobs = append(jobs, job{c, false})
	}
	// second pass, index files opened over HTTP: the consistent configuration first, then every configuration with at
	// most one deviating role (the deviating file has the same URL path on another mirror - and, for the field-level
	// deviations, the same size)
	for pass := 0; pass < 2; pass++ {
		for _, j := range jobs {
			if j.remote || j.c.Mismatches > 1 || (j.c.Mismatches == 0) != (pass == 0) {
				continue
			}
			if os.Getenv("VERIF_C10_E1") != "" {
				continue // (the remote pass runs with the default epoch labels only)
			}
			jobs = append(jobs, job{j.c, true})
		}
	}
	for i, jb := range jobs {
		c, remote := jb.c, jb.remote
		o := c10Obs{c10Case: c, Case: i + 1, Fetch: []string{}, Remote: remote}
		cfgEpoch := label[c.CfgEpoch]
		cfg := vConfig(cfgEpoch, carOf[c.Car], A.paths, A.gsfaDir)
		if remote {
			cfg.Indexes.CidToOffsetAndSize.URI = URI(mirror["A"].URL + "/cid")
			cfg.Indexes.SlotToCid.URI = URI(mirror["A"].URL + "/slot")
			cfg.Indexes.SigToCid.URI = URI(mirror["A"].URL + "/sig")
			cfg.Indexes.SigExists.URI = URI(mirror["A"].URL + "/sigexists")
			cfg.Indexes.SlotToBlocktime.URI = URI(mirror["A"].URL + "/blocktime")
		}
		for role, f := range c.Assign {
			p := URI(c10path(src[f.Src], f.Kind))
			if remote && role != "gsfa" && f.Kind != "gsfa" {
				p = URI(mirror[f.Src].URL + "/" + f.Kind)
			}
			switch role {
			case "cid":
				cfg.Indexes.CidToOffsetAndSize.URI = p
			case "slot":
				cfg.Indexes.SlotToCid.URI = p
			case "sig":
				cfg.Indexes.SigToCid.URI = p
			case "sigexists":
				cfg.Indexes.SigExists.URI = p
			case "blocktime":
				cfg.Indexes.SlotToBlocktime.URI = p
			case "gsfa":
				cfg.Indexes.Gsfa.URI = p
			}
		}
		var ep *Epoch
		var err error
		if p := vt.Guard(func() { ep, err = NewEpochFromConfig(cfg, vCliCtx(), cache, nil) }); p != "" {
			o.Outcome, o.Detail = "panic", p
			out.Emit(o)
			continue
		}
		if err != nil {
			o.Outcome, o.Detail = "rejected", err.Error()
			if len(o.Detail) > 200 {
				o.Detail = o.Detail[:200]
			}
			out.Emit(o)
			continue
		}
		o.Outcome = "ok"
		// identity fields written at build time are read back unchanged (A's, since the load succeeded)
		if p := vt.Guard(func() {
			root := A.built.Root
			okm := func(m *indexes.Metadata, kind []byte) bool {
				return m != nil && m.Epoch == cfgEpoch && m.RootCid.Equals(root) && m.Network == indexes.NetworkMainnet && bytes.Equal(m.IndexKind, kind)
			}
			o.Metaok = okm(ep.cidToOffsetAndSizeIndex.Meta(), indexes.Kind_CidToOffsetAndSize) &&
				okm(ep.slotToCidIndex.Meta(), indexes.Kind_SlotToCid) && okm(ep.sigToCidIndex.Meta(), indexes.Kind_SigToCid)
			if ep.gsfaReader != nil {
				gm := ep.gsfaReader.Meta()
				ge, ok1 := gm.GetUint64(indexmeta.MetadataKey_Epoch)
				gr, ok2 := gm.GetCid(indexmeta.MetadataKey_RootCid)
				o.Metaok = o.Metaok && ok1 && ok2 && ge == cfgEpoch && gr.Equals(root)
			}
			if ep.blocktimeindex != nil {
				o.Metaok = o.Metaok && ep.blocktimeindex.Epoch() == cfgEpoch
			}
			for _, s := range A.built.Sections {
				got, err := ep.GetNodeByCid(context.Background(), s.Cid)
				switch {
				case err != nil:
					o.Fetch = append(o.Fetch, "error")
				case bytes.Equal(got, s.Data):
					o.Fetch = append(o.Fetch, "same")
				default:
					o.Fetch = append(o.Fetch, "different")
				}
			}
		}); p != "" {
			o.Outcome, o.Detail = "panic", p
		}
		if remote && c.Mismatches == 0 {
			// the consistently configured remote epoch stays loaded while the deviating remote configurations are tried
			// (as on a server that serves several epochs from the same mirrors)
			defer ep.Close()
		} else {
			ep.Close()
		}
		out.Emit(o)
	}
}
