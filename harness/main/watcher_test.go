package main

// --watch replayer (C09, "every operation completes" under --watch reloads): TLC-simulated schedules of config-file touches
// and callback completions (spec/Watcher.tla) are executed against the real onFileChanged (fsnotify watcher, errgroup limited
// to --epoch-load-concurrency, fileProcessingTracker) on a temporary directory. The callback does what the callback in
// cmd-rpc.go does once the epoch object exists (ReplaceOrAddEpoch / RemoveEpochByConfigFilepath on a real MultiEpoch) and is
// gated by the schedule: it returns when the schedule says "finish". cbStart / cbEnd are logged under one mutex with a
// sequence number. After the schedule every gate is opened, the run settles, and a probe file is dropped into the
// directory: the watcher has to hand it to the callback.

import (
	"context"
	"encoding/json"
	"fmt"
	"os"
	"path/filepath"
	"strconv"
	"strings"
	"sync"
	"testing"
	"time"

	"github.com/fsnotify/fsnotify"
	"github.com/rpcpool/yellowstone-faithful/zzverif/vt"
)

type wtStep struct {
	Step string `json:"step"`
	File string `json:"file"`
}

type wtEvent struct {
	Ev   string `json:"ev"`
	File string `json:"file"`
}

type wtObs struct {
	Case    int       `json:"case"`
	Slots   int       `json:"slots"`
	Steps   []wtStep  `json:"steps"`
	Events  []wtEvent `json:"events"`
	Stuck   int       `json:"stuck"`
	Probe   string    `json:"probe"`
	Listing []uint64  `json:"listing"`
	Detail  string    `json:"detail"`
}

var wtEpochOf = map[string]uint64{"a": 11, "b": 12, "c": 13, "probe": 99}

func wtRun(t *testing.T, ci int, slots int, steps []wtStep) wtObs {
	o := wtObs{Case: ci, Slots: slots, Steps: steps, Events: []wtEvent{}, Listing: []uint64{}}
	dir, err := os.MkdirTemp("", "verif-watch-")
	if err != nil {
		t.Fatal(err)
	}
	defer os.RemoveAll(dir)
	multi := NewMultiEpoch(&Options{EpochSearchConcurrency: 2})
	var mu sync.Mutex
	tokens := map[string]chan struct{}{}
	for f := range wtEpochOf {
		tokens[f] = make(chan struct{}, 64)
	}
	open := make(chan struct{}) // closed after the schedule: callbacks no longer wait
	active := 0
	lastActivity := time.Now()
	probeSeen := make(chan struct{}, 1)
	ctx, cancel := context.WithCancel(context.Background())
	defer cancel()
	err = onFileChanged(ctx, slots, []string{dir}, func(event fsnotify.Event) {
		if !isYAMLFile(event.Name) {
			return
		}
		name := strings.TrimSuffix(filepath.Base(event.Name), filepath.Ext(event.Name))
		epoch, ok := wtEpochOf[name]
		if !ok {
			return
		}
		mu.Lock()
		if name != "probe" {
			o.Events = append(o.Events, wtEvent{Ev: "cbStart", File: name})
		}
		active++
		lastActivity = time.Now()
		mu.Unlock()
		if name == "probe" {
			select {
			case probeSeen <- struct{}{}:
			default:
			}
		} else {
			select {
			case <-tokens[name]:
			case <-open:
			}
		}
		if event.Op&fsnotify.Remove != 0 {
			multi.RemoveEpochByConfigFilepath(event.Name)
		} else if event.Op&(fsnotify.Create|fsnotify.Write) != 0 {
			e := epoch
			ep := &Epoch{epoch: epoch, config: &Config{Epoch: &e, originalFilepath: event.Name, hashOfConfigFile: strconv.FormatInt(time.Now().UnixNano(), 36)}}
			multi.ReplaceOrAddEpoch(epoch, ep)
		}
		mu.Lock()
		if name != "probe" {
			o.Events = append(o.Events, wtEvent{Ev: "cbEnd", File: name})
		}
		active--
		lastActivity = time.Now()
		mu.Unlock()
	})
	if err != nil {
		// (no file watcher in this environment: nothing was exercised - the engine reports that as inconclusive)
		o.Detail = "onFileChanged: " + err.Error()
		o.Probe = "unavailable"
		return o
	}
	path := func(f string) string { return filepath.Join(dir, f+".yml") }
	touch := func(f string) {
		fh, err := os.OpenFile(path(f), os.O_CREATE|os.O_WRONLY|os.O_APPEND, 0o644)
		if err != nil {
			t.Fatal(err)
		}
		fmt.Fprintf(fh, "epoch: %d\n", wtEpochOf[f])
		fh.Close()
	}
	for _, st := range steps {
		switch st.Step {
		case "touch":
			touch(st.File)
		case "finish":
			select {
			case tokens[st.File] <- struct{}{}:
			default:
			}
		}
		time.Sleep(8 * time.Millisecond)
	}
	close(open)
	// settle: no callback active and no callback activity for 250 ms (at most 6 s)
	deadline := time.Now().Add(6 * time.Second)
	for time.Now().Before(deadline) {
		mu.Lock()
		quiet := active == 0 && time.Since(lastActivity) > 250*time.Millisecond
		mu.Unlock()
		if quiet {
			break
		}
		time.Sleep(20 * time.Millisecond)
	}
	mu.Lock()
	o.Stuck = active
	mu.Unlock()
	touch("probe")
	select {
	case <-probeSeen:
		o.Probe = "seen"
	case <-time.After(5 * time.Second):
		o.Probe = "lost"
		o.Detail = "a config file dropped into the watched directory after the run settled was never handed to the callback"
	}
	// let the probe callback finish, then read the listing (bounded: a wedged epoch set must not hang the harness)
	time.Sleep(30 * time.Millisecond)
	got := make(chan []uint64, 1)
	go func() { got <- multi.GetEpochNumbers() }()
	select {
	case l := <-got:
		if l != nil {
			o.Listing = l
		}
	case <-time.After(3 * time.Second):
		o.Stuck++
		o.Detail += " epoch listing did not return"
	}
	mu.Lock()
	o.Events = append([]wtEvent{}, o.Events...)
	mu.Unlock()
	return o
}

func TestVerifWatcher(t *testing.T) {
	out := vt.Out(t)
	defer out.Close()
	type wtCase struct {
		Slots int      `json:"slots"`
		Steps []wtStep `json:"steps"`
	}
	var cases []wtCase
	for _, raw := range vt.Cases(t) {
		var c wtCase
		if err := json.Unmarshal(raw, &c); err != nil {
			t.Fatal(err)
		}
		cases = append(cases, c)
	}
	// environment self-test, independent of the code under test: a plain fsnotify watcher must see a file being created
	{
		dir, _ := os.MkdirTemp("", "verif-watch-selftest-")
		ok := false
		if w, err := fsnotify.NewWatcher(); err == nil {
			if w.Add(dir) == nil {
				os.WriteFile(filepath.Join(dir, "x.yml"), []byte("x"), 0o644)
				select {
				case <-w.Events:
					ok = true
				case <-time.After(3 * time.Second):
				}
			}
			w.Close()
		}
		os.RemoveAll(dir)
		if !ok {
			for i := range cases {
				out.Emit(wtObs{Case: i + 1, Slots: cases[i].Slots, Steps: cases[i].Steps, Events: []wtEvent{}, Listing: []uint64{}, Probe: "unavailable", Detail: "file notifications do not arrive in this environment"})
			}
			return
		}
	}
	res := make([]wtObs, len(cases))
	sem := make(chan struct{}, 12)
	var wg sync.WaitGroup
	for i := range cases {
		wg.Add(1)
		sem <- struct{}{}
		go func(i int) {
			defer wg.Done()
			defer func() { <-sem }()
			res[i] = wtRun(t, i+1, cases[i].Slots, cases[i].Steps)
		}(i)
	}
	wg.Wait()
	for _, o := range res {
		out.Emit(o)
	}
}
