package main

// C18 replayer (R3): every TLC-generated (outcomes, limit, completion order) is forced on the real
// FirstSuccess / JobGroup.RunWithConcurrency by gating each job closure on a channel.

import (
	"context"
	"encoding/json"
	"errors"
	"fmt"
	"regexp"
	"strconv"
	"testing"
	"time"

	"github.com/rpcpool/yellowstone-faithful/zzverif/vt"
)

type c18Case struct {
	N       int      `json:"n"`
	Limit   int      `json:"limit"`
	Outcome []string `json:"outcome"`
	Order   []int    `json:"order"`
	Expect  int      `json:"expect"`
}

type c18Obs struct {
	Case       int      `json:"case"`
	Via        string   `json:"via"`
	N          int      `json:"n"`
	Limit      int      `json:"limit"`
	Outcome    []string `json:"outcome"`
	Order      []int    `json:"order"`
	Kind       string   `json:"kind"` // ok | errs | hang | panic | other
	Val        int      `json:"val"`
	ErrJobs    []int    `json:"errjobs"`
	Expect     int      `json:"expect"`     // model: value of the first succeeding job in completion order (drift only)
	NotStarted []int    `json:"notStarted"` // jobs the model says are running but that had not been started (drift only)
	Detail     string   `json:"detail"`
}

var c18re = regexp.MustCompile(`job (\d+) failed`)

func c18run(c *c18Case, via string) c18Obs {
	o := c18Obs{Via: via, N: c.N, Limit: c.Limit, Outcome: c.Outcome, Order: c.Order, Expect: c.Expect, ErrJobs: []int{}, NotStarted: []int{}}
	started := make([]chan struct{}, c.N+1)
	release := make([]chan struct{}, c.N+1)
	var jobs []JobFunc[int]
	for j := 1; j <= c.N; j++ {
		j := j
		started[j] = make(chan struct{})
		release[j] = make(chan struct{})
		jobs = append(jobs, func(ctx context.Context) (int, error) {
			close(started[j])
			// like the real per-epoch search job, give up when the context handed to the job is cancelled
			// (the request context passed to FirstSuccess stays live for the whole call)
			if err := ctx.Err(); err != nil {
				<-release[j]
				return 0, err
			}
			<-release[j]
			if err := ctx.Err(); err != nil {
				return 0, err
			}
			if c.Outcome[j-1] == "ok" {
				return j, nil
			}
			return 0, fmt.Errorf("job %d failed", j)
		})
	}
	type res struct {
		v     int
		err   error
		panic string
	}
	out := make(chan res, 1)
	limit := c.Limit
	if limit == 0 {
		limit = -1
	}
	go func() {
		var r res
		r.panic = vt.Guard(func() {
			if via == "JobGroup" {
				g := NewJobGroup[int]()
				for _, f := range jobs {
					g.Add(f)
				}
				r.v, r.err = g.RunWithConcurrency(context.Background(), limit)
			} else {
				r.v, r.err = FirstSuccess(context.Background(), limit, jobs...)
			}
		})
		out <- r
	}()
	var got *res
	released := map[int]bool{}
	for _, j := range c.Order {
		if got == nil {
			// the model says job j is running now, so it must have been started
			select {
			case <-started[j]:
			case r := <-out:
				got = &r // returned early (a success was already delivered)
			case <-time.After(2 * time.Second):
				o.NotStarted = append(o.NotStarted, j)
			}
		}
		close(release[j])
		released[j] = true
		if got == nil {
			// give the result a chance to be consumed in completion order
			select {
			case <-time.After(150 * time.Microsecond):
			case r := <-out:
				got = &r
			}
		}
	}
	for j := 1; j <= c.N; j++ {
		if !released[j] {
			close(release[j])
		}
	}
	if got == nil {
		select {
		case r := <-out:
			got = &r
		case <-time.After(3 * time.Second):
			o.Kind = "hang"
			o.Detail = "FirstSuccess did not return 3 s after every job had finished"
			return o
		}
	}
	switch {
	case got.panic != "":
		o.Kind, o.Detail = "panic", got.panic
	case got.err == nil:
		o.Kind, o.Val = "ok", got.v
	default:
		var es ErrorSlice
		if errors.As(got.err, &es) {
			o.Kind = "errs"
			for _, e := range es {
				id := 0
				if e != nil {
					if m := c18re.FindStringSubmatch(e.Error()); m != nil {
						id, _ = strconv.Atoi(m[1])
					}
				}
				o.ErrJobs = append(o.ErrJobs, id)
			}
		} else {
			o.Kind, o.Detail = "other", got.err.Error()
		}
	}
	return o
}

func TestVerifC18(t *testing.T) {
	cases := vt.Cases(t)
	out := vt.Out(t)
	defer out.Close()
	for i, raw := range cases {
		var c c18Case
		if err := json.Unmarshal(raw, &c); err != nil {
			t.Fatal(err)
		}
		via := "FirstSuccess"
		if i%3 == 2 {
			via = "JobGroup"
		}
		o := c18run(&c, via)
		o.Case = i + 1
		out.Emit(o)
	}
	t.Logf("cases=%d", len(cases))
}
