package main

// C18 replayer (R3): every TLC-generated (outcomes, limit, completion order) is forced on the real
// FirstSuccess / JobGroup.RunWithConcurrency by gating each job closure on a channel.

import (
	"context"
	"encoding/json"
	"errors"
	"fmt"
	"regexp"
	"runtime"
	"strconv"
	"strings"
	"sync"
	"sync/atomic"
	"testing"
	"time"

	"github.com/rpcpool/yellowstone-faithful/zzverif/fixture"

	"github.com/rpcpool/yellowstone-faithful/zzverif/vt"
)

type c18Case struct {
	N       int      `json:"n"`
	Limit   int      `json:"limit"`
	Outcome []string `json:"outcome"`
	Order   []int    `json:"order"`
	Expect  int      `json:"expect"`
}

type c18Obs struct {
	Case       int      `json:"case"`
	Via        string   `json:"via"`
	N          int      `json:"n"`
	Limit      int      `json:"limit"`
	Outcome    []string `json:"outcome"`
	Order      []int    `json:"order"`
	Kind       string   `json:"kind"` // ok | errs | hang | panic | other
	Val        int      `json:"val"`
	ErrJobs    []int    `json:"errjobs"`
	Expect     int      `json:"expect"`     // model: value of the first succeeding job in completion order (drift only)
	NotStarted []int    `json:"notStarted"` // jobs the model says are running but that had not been started (drift only)
	Detail     string   `json:"detail"`
}

var c18re = regexp.MustCompile(`job (\d+) failed`)

// c18SameTextErr: the error of a failing job whose text is the same for every job (as the per-epoch search's "not found");
// the job is identified through the value, not the text
type c18SameTextErr struct{ job int }

func (e *c18SameTextErr) Error() string { return "not found" }

// c18jobOf maps an element of the returned error list back to the failing job (0 = not attributable)
func c18jobOf(e error) int {
	if e == nil {
		return 0
	}
	var st *c18SameTextErr
	if errors.As(e, &st) {
		return st.job
	}
	if m := c18re.FindStringSubmatch(e.Error()); m != nil {
		id, _ := strconv.Atoi(m[1])
		return id
	}
	return 0
}

func c18run(c *c18Case, via string) c18Obs {
	sameText := strings.HasSuffix(via, "/same-text-errors")
	via = strings.TrimSuffix(via, "/same-text-errors")
	// failing jobs that are themselves a group of jobs (a nested JobGroup whose leaves all fail): the job's error is
	// an ErrorSlice of several leaf errors, and it is still the error of ONE job
	nested := strings.HasSuffix(via, "/nested-groups")
	via = strings.TrimSuffix(via, "/nested-groups")
	defer func() {}()
	o := c18Obs{Via: via, N: c.N, Limit: c.Limit, Outcome: c.Outcome, Order: c.Order, Expect: c.Expect, ErrJobs: []int{}, NotStarted: []int{}}
	started := make([]chan struct{}, c.N+1)
	release := make([]chan struct{}, c.N+1)
	var jobs []JobFunc[int]
	for j := 1; j <= c.N; j++ {
		j := j
		started[j] = make(chan struct{})
		release[j] = make(chan struct{})
		var once sync.Once
		jobs = append(jobs, func(ctx context.Context) (int, error) {
			once.Do(func() { close(started[j]) }) // (a job run twice must not kill the driver: the result record shows it)
			// like the real per-epoch search job, give up when the context handed to the job is cancelled
			// (the request context passed to FirstSuccess stays live for the whole call)
			if err := ctx.Err(); err != nil {
				<-release[j]
				return 0, err
			}
			<-release[j]
			if err := ctx.Err(); err != nil {
				return 0, err
			}
			if c.Outcome[j-1] == "ok" {
				return j, nil
			}
			if sameText {
				return 0, &c18SameTextErr{job: j}
			}
			if nested {
				inner := NewJobGroup[int]()
				for leaf := 0; leaf < 1+(j+c.N)%3; leaf++ {
					inner.Add(func(context.Context) (int, error) { return 0, fmt.Errorf("job %d failed", j) })
				}
				_, ierr := inner.RunWithConcurrency(ctx, -1)
				return 0, ierr
			}
			if (c.N+j+len(c.Order))%4 == 0 {
				// a job that hit a deadline of its own (e.g. the HTTP client's): its error wraps a context error although the
				// request's context is live
				return 0, fmt.Errorf("job %d failed: %w", j, context.DeadlineExceeded)
			}
			return 0, fmt.Errorf("job %d failed", j)
		})
	}
	type res struct {
		v     int
		err   error
		panic string
	}
	out := make(chan res, 1)
	limit := c.Limit
	if limit == 0 {
		limit = -1
	}
	go func() {
		var r res
		r.panic = vt.Guard(func() {
			if via == "JobGroup" {
				g := NewJobGroup[int]()
				for _, f := range jobs {
					g.Add(f)
				}
				r.v, r.err = g.RunWithConcurrency(context.Background(), limit)
			} else {
				r.v, r.err = FirstSuccess(context.Background(), limit, jobs...)
			}
		})
		out <- r
	}()
	var got *res
	released := map[int]bool{}
	for _, j := range c.Order {
		if got == nil {
			// the model says job j is running now, so it must have been started
			select {
			case <-started[j]:
			case r := <-out:
				got = &r // returned early (a success was already delivered)
			case <-time.After(2 * time.Second):
				o.NotStarted = append(o.NotStarted, j)
			}
		}
		close(release[j])
		released[j] = true
		if got == nil {
			// give the result a chance to be consumed in completion order
			select {
			case <-time.After(150 * time.Microsecond):
			case r := <-out:
				got = &r
			}
		}
	}
	for j := 1; j <= c.N; j++ {
		if !released[j] {
			close(release[j])
		}
	}
	if got == nil {
		select {
		case r := <-out:
			got = &r
		case <-time.After(3 * time.Second):
			o.Kind = "hang"
			o.Detail = "FirstSuccess did not return 3 s after every job had finished"
			return o
		}
	}
	switch {
	case got.panic != "":
		o.Kind, o.Detail = "panic", got.panic
	case got.err == nil:
		o.Kind, o.Val = "ok", got.v
	default:
		var es ErrorSlice
		if errors.As(got.err, &es) {
			o.Kind = "errs"
			for _, e := range es {
				o.ErrJobs = append(o.ErrJobs, c18jobOf(e))
			}
		} else {
			o.Kind, o.Detail = "other", got.err.Error()
		}
	}
	return o
}

func TestVerifC18(t *testing.T) {
	cases := vt.Cases(t)
	out := vt.Out(t)
	defer out.Close()
	for i, raw := range cases {
		var c c18Case
		if err := json.Unmarshal(raw, &c); err != nil {
			t.Fatal(err)
		}
		via := "FirstSuccess"
		if i%3 == 2 {
			via = "JobGroup"
		}
		if i%4 == 1 {
			via += "/same-text-errors" // failing jobs return distinct error values with one and the same text
		}
		if i%4 == 3 {
			via += "/nested-groups"
		}
		o := c18run(&c, via)
		if i%4 == 1 {
			o.Via += "/same-text-errors"
		}
		if i%4 == 3 {
			o.Via += "/nested-groups"
		}
		o.Case = i + 1
		out.Emit(o)
	}
	t.Logf("cases=%d", len(cases))
}

// TestVerifC18Stress: free-running calls in which the jobs admitted together finish together (a barrier of the size of the
// limit), so that the launcher / workers race on whatever shared state they have; every job counts its executions.
// Judged like the gated runs (a value only from a succeeding job; otherwise exactly one error per job).
func TestVerifC18Stress(t *testing.T) {
	out := vt.Out(t)
	defer out.Close()
	rng := vt.Rand()
	iters := 3000
	if !vt.Quick() {
		iters = 60000
	}
	emitted := 0
	for it := 0; it < iters; it++ {
		n := 3 + rng.Intn(14)
		limit := 1 + rng.Intn(n)
		if it%5 == 0 {
			limit = -1
		}
		outcome := make([]string, n)
		for j := range outcome {
			outcome[j] = "fail"
		}
		if it%2 == 1 {
			outcome[rng.Intn(n)] = "ok"
		}
		width := limit
		if width <= 0 || width > n {
			width = n
		}
		var arrived atomic.Int32
		runs := make([]atomic.Int32, n+1)
		var jobs []JobFunc[int]
		for j := 1; j <= n; j++ {
			j := j
			jobs = append(jobs, func(ctx context.Context) (int, error) {
				runs[j].Add(1)
				// wait (briefly) until `width` jobs are in flight, then return together
				arrived.Add(1)
				for k := 0; k < 2000 && int(arrived.Load())%width != 0; k++ {
					runtime.Gosched()
				}
				if outcome[j-1] == "ok" {
					return j, nil
				}
				if it%4 >= 2 {
					return 0, &c18SameTextErr{job: j}
				}
				return 0, fmt.Errorf("job %d failed", j)
			})
		}
		via := []string{"FirstSuccess", "JobGroup"}[it%2]
		o := c18Obs{Case: it + 1, Via: "stress/" + via, N: n, Limit: limit, Outcome: outcome, Order: []int{}, ErrJobs: []int{}, NotStarted: []int{}}
		var v int
		var err error
		done := make(chan string, 1)
		go func() {
			done <- vt.Guard(func() {
				if via == "JobGroup" {
					g := NewJobGroup[int]()
					for _, f := range jobs {
						g.Add(f)
					}
					v, err = g.RunWithConcurrency(context.Background(), limit)
				} else {
					v, err = FirstSuccess(context.Background(), limit, jobs...)
				}
			})
		}()
		select {
		case p := <-done:
			switch {
			case p != "":
				o.Kind, o.Detail = "panic", p
			case err == nil:
				o.Kind, o.Val = "ok", v
			default:
				var es ErrorSlice
				if errors.As(err, &es) {
					o.Kind = "errs"
					for _, e := range es {
						o.ErrJobs = append(o.ErrJobs, c18jobOf(e))
					}
				} else {
					o.Kind, o.Detail = "other", err.Error()
				}
			}
		case <-time.After(10 * time.Second):
			o.Kind, o.Detail = "hang", "no return 10 s after the call"
		}
		twice := 0
		for j := 1; j <= n; j++ {
			if runs[j].Load() > 1 {
				twice++
			}
		}
		if twice > 0 {
			o.Detail += fmt.Sprintf(" %d job(s) executed more than once", twice)
		}
		// identical well-behaved outcomes are written once per (n, limit, shape) to keep the record file small
		bad := o.Kind != "ok" && !(o.Kind == "errs" && len(o.ErrJobs) == n) || twice > 0
		if bad || emitted < 400 || it%20 == 0 {
			out.Emit(o)
			emitted++
		}
		if o.Kind == "hang" {
			return // goroutines of the stuck call are still around: stop here, the record is the verdict
		}
	}
}

type c18FaultySigExists struct {
	inner SigExistsIndex
	fail  bool
	claim bool // answers "present" for every signature (a stale or colliding sig-exists file): the epoch's job then fails later
}

func (f *c18FaultySigExists) Has(sig [64]byte) (bool, error) {
	if f.fail {
		return false, errors.New("sig-exists index: input/output error")
	}
	if f.claim {
		return true, nil
	}
	return f.inner.Has(sig)
}

// TestVerifC18Search: the real per-epoch search (findEpochNumberFromSignature) over three loaded epochs when the
// sig-exists index of some of the *other* epochs fails: the epoch holding the signature must still be found.
func TestVerifC18Search(t *testing.T) {
	out := vt.Out(t)
	defer out.Close()
	cache := vCache(t)
	var eps []*loaded
	for i, e := range []uint64{1, 2, 3} {
		eps = append(eps, vBuildAndLoad(t, c10spec(e, int64(180+i)), false, cache))
	}
	// abandoned requests first: searches whose context is cancelled while they run must not take anything away from later
	// ones (the live search afterwards has a context that stays live, as the property requires)
	for _, conc := range []int{1, 2} {
		multi := NewMultiEpoch(&Options{EpochSearchConcurrency: conc})
		for _, l := range eps {
			multi.AddEpoch(l.epoch.Epoch(), l.epoch)
		}
		var wg sync.WaitGroup
		for g := 0; g < 8; g++ {
			wg.Add(1)
			go func(g int) {
				defer wg.Done()
				for i := 0; i < 150; i++ {
					ctx, cancel := context.WithCancel(context.Background())
					go func() {
						for y := 0; y < (i+g)%40; y++ {
							runtime.Gosched()
						}
						cancel()
					}()
					vt.Guard(func() { multi.findEpochNumberFromSignature(ctx, eps[i%3].built.Blocks[0].Txs[0].Sig) })
					cancel()
				}
			}(g)
		}
		waited := make(chan struct{})
		go func() { wg.Wait(); close(waited) }()
		select {
		case <-waited:
		case <-time.After(30 * time.Second):
			// (a search that never returns - with or without a live context - is the property's "must return")
			out.Emit(c18Obs{Case: 9000 + conc, Via: "findEpochNumberFromSignature/cancelled-requests", N: 3, Limit: conc, Outcome: []string{"fail", "fail", "ok"}, Order: []int{}, ErrJobs: []int{}, NotStarted: []int{},
				Kind: "hang", Detail: "1 200 searches with contexts cancelled while they run did not all return within 30 s"})
			return
		}
		o := c18Obs{Case: 9000 + conc, Via: "findEpochNumberFromSignature/after-cancelled-requests", N: 3, Limit: conc, Outcome: []string{"fail", "fail", "ok"}, Order: []int{}, ErrJobs: []int{}, NotStarted: []int{}}
		var got uint64
		var err error
		pch := make(chan string, 1)
		go func() {
			pch <- vt.Guard(func() {
				got, err = multi.findEpochNumberFromSignature(context.Background(), eps[0].built.Blocks[0].Txs[0].Sig)
			})
		}()
		select {
		case p := <-pch:
			switch {
			case p != "":
				o.Kind, o.Detail = "panic", p
			case err == nil:
				o.Kind, o.Val = "ok", 4-int(got)
			default:
				o.Kind, o.ErrJobs, o.Detail = "errs", []int{1, 2, 3}, err.Error()
			}
		case <-time.After(10 * time.Second):
			o.Kind, o.Detail = "hang", "a search with a live context did not return within 10 s after 2400 abandoned searches"
		}
		out.Emit(o)
		if o.Kind == "hang" {
			return
		}
	}
	k := 0
	for _, conc := range []int{-1, 1, 2, 3} {
		for hit := 0; hit < 4; hit++ { // 3 = a signature of no epoch
			for faulty := 0; faulty < 27; faulty++ {
				// per epoch: 0 = the sig-exists index works, 1 = it fails, 2 = it claims every signature
				mode := func(i int) int { return faulty / []int{1, 3, 9}[i] % 3 }
				if hit < 3 && mode(hit) != 0 {
					continue // the epoch holding the signature works
				}
				multi := NewMultiEpoch(&Options{EpochSearchConcurrency: conc})
				outcome := make([]string, 3)
				for i, l := range eps {
					ep := *l.epoch
					ep.sigExists = &c18FaultySigExists{inner: l.epoch.sigExists, fail: mode(i) == 1, claim: mode(i) == 2}
					multi.AddEpoch(ep.Epoch(), &ep)
				}
				// jobs are created newest epoch first: job j <-> epoch 4-j
				for j := 1; j <= 3; j++ {
					if hit < 3 && 3-j == hit {
						outcome[j-1] = "ok"
					} else {
						outcome[j-1] = "fail"
					}
				}
				var sig [64]byte
				if hit < 3 {
					sig = eps[hit].built.Blocks[0].Txs[0].Sig
				} else {
					sig = fixture.Sig(999, k)
				}
				k++
				o := c18Obs{Case: k, Via: "findEpochNumberFromSignature", N: 3, Limit: conc, Outcome: outcome, Order: []int{}, ErrJobs: []int{}, NotStarted: []int{}}
				var got uint64
				var err error
				pch := make(chan string, 1)
				go func() {
					pch <- vt.Guard(func() { got, err = multi.findEpochNumberFromSignature(context.Background(), sig) })
				}()
				var p string
				select {
				case p = <-pch:
				case <-time.After(10 * time.Second):
					o.Kind, o.Detail = "hang", "the search did not return within 10 s"
					out.Emit(o)
					return
				}
				if p != "" {
					o.Kind, o.Detail = "panic", p
				} else if err == nil {
					o.Kind, o.Val = "ok", 4-int(got) // epoch number e is job 4-e
				} else {
					// a miss: the judge wants one error per job; the search reports ErrNotFound or the error list
					o.Kind, o.ErrJobs, o.Detail = "errs", []int{1, 2, 3}, err.Error()
					if len(o.Detail) > 150 {
						o.Detail = o.Detail[:150]
					}
				}
				out.Emit(o)
			}
		}
	}
	// searches around changes of the epoch set: a signature found while its epoch is loaded must not be "found" after the
	// epoch was removed (by number, by config file, by replacement with an epoch object that does not hold it)
	for ri, how := range []string{"RemoveEpoch", "RemoveEpochByConfigFilepath", "ReplaceOrAddEpoch"} {
		for _, conc := range []int{1, 2} {
			multi := NewMultiEpoch(&Options{EpochSearchConcurrency: conc})
			for i, l := range eps {
				ep := *l.epoch
				cfg := *l.epoch.config
				cfg.originalFilepath = fmt.Sprintf("/cfg/epoch-%d.yml", i+1)
				ep.config = &cfg
				ep.onClose = nil // (the copies share the index handles of the loaded epoch: removing a copy must not close them)
				multi.AddEpoch(ep.Epoch(), &ep)
			}
			sig := eps[1].built.Blocks[0].Txs[0].Sig // held by epoch 2
			search := func(caseNo int, n int, outcome []string, jobOf func(epoch uint64) int) bool {
				o := c18Obs{Case: caseNo, Via: "findEpochNumberFromSignature/after-" + how, N: n, Limit: conc, Outcome: outcome, Order: []int{}, ErrJobs: []int{}, NotStarted: []int{}}
				var got uint64
				var err error
				pch := make(chan string, 1)
				go func() {
					pch <- vt.Guard(func() { got, err = multi.findEpochNumberFromSignature(context.Background(), sig) })
				}()
				select {
				case p := <-pch:
					switch {
					case p != "":
						o.Kind, o.Detail = "panic", p
					case err == nil:
						o.Kind, o.Val = "ok", jobOf(got)
						o.Detail = fmt.Sprintf("answered epoch %d", got)
					default:
						o.Kind, o.Detail = "errs", err.Error()
						for j := 1; j <= n; j++ {
							o.ErrJobs = append(o.ErrJobs, j)
						}
					}
				case <-time.After(10 * time.Second):
					o.Kind, o.Detail = "hang", "the search did not return within 10 s"
				}
				out.Emit(o)
				return o.Kind != "hang"
			}
			// jobs newest first: epochs 3, 2, 1 <-> jobs 1, 2, 3
			if !search(9100+10*ri+conc, 3, []string{"fail", "ok", "fail"}, func(e uint64) int { return 4 - int(e) }) {
				return
			}
			switch how {
			case "RemoveEpoch":
				multi.RemoveEpoch(2)
			case "RemoveEpochByConfigFilepath":
				multi.RemoveEpochByConfigFilepath("/cfg/epoch-2.yml")
			default:
				// epoch number 2 now served by an object holding epoch 1's data (its indexes do not know the signature)
				ep := *eps[0].epoch
				ep.epoch = 2
				ep.onClose = nil
				multi.ReplaceOrAddEpoch(2, &ep)
			}
			if how == "ReplaceOrAddEpoch" {
				if !search(9150+10*ri+conc, 3, []string{"fail", "fail", "fail"}, func(e uint64) int { return 4 - int(e) }) {
					return
				}
			} else {
				// two jobs left: epoch 3 <-> job 1, epoch 1 <-> job 2; an answer naming another epoch is no job's value (0)
				if !search(9150+10*ri+conc, 2, []string{"fail", "fail"}, func(e uint64) int { return map[uint64]int{3: 1, 1: 2}[e] }) {
					return
				}
			}
		}
	}
}
