package main

// C09 (R3): (1) recorder - every JSON-RPC method, gRPC method and reload operation is executed once on a two-epoch
// server whose epoch-set mutex is a tracing wrapper; the lock-call sequence of every goroutine is written out as the
// programs of spec/EpochSet.tla.  (2) replayer - every deadlock state TLC finds for those programs is forced on the
// real MultiEpoch through the wrapper's gates; a hang of the real goroutines (all blocked in sync.RWMutex) confirms it.
// (3) stress - queries against epochs that stay loaded run concurrently with add / replace / remove of other epochs.

import (
	"bytes"
	"context"
	"encoding/json"
	"fmt"
	"math/rand"
	"os"
	"path/filepath"
	"runtime"
	"sort"
	"strconv"
	"strings"
	"sync"
	"sync/atomic"
	"testing"
	"time"

	"github.com/gagliardetto/solana-go"
	old_faithful_grpc "github.com/rpcpool/yellowstone-faithful/old-faithful-proto/old-faithful-grpc"
	"github.com/rpcpool/yellowstone-faithful/zzverif/fixture"
	"github.com/rpcpool/yellowstone-faithful/zzverif/vt"
	"github.com/valyala/fasthttp"
)

type solanaSig = solana.Signature

type c09World struct {
	multi *MultiEpoch
	eps   []*loaded
	h     func(*fasthttp.RequestCtx)
	ops   map[string]func()
}

func c09spec(epoch uint64, seed int64) fixture.EpochSpec {
	sp := c10spec(epoch, seed)
	return sp
}

func c09get(h func(*fasthttp.RequestCtx), uri string) {
	var rc fasthttp.RequestCtx
	var rq fasthttp.Request
	rq.Header.SetMethod("GET")
	rq.SetRequestURI(uri)
	rc.Init(&rq, nil, nil)
	h(&rc)
}

func c09world(t *testing.T, nepochs int) *c09World {
	w := &c09World{}
	cache := vCache(t)
	w.multi = NewMultiEpoch(&Options{EpochSearchConcurrency: 2})
	for i := 0; i < nepochs; i++ {
		l := vBuildAndLoad(t, c09spec(uint64(i+1), int64(100+i)), i == 0, cache)
		w.eps = append(w.eps, l)
		w.multi.AddEpoch(uint64(i+1), l.epoch)
	}
	w.h = newMultiEpochHandler(w.multi, nil)
	w.ops = c09ops(w)
	return w
}

// c09ops: one closure per client / reload operation, against w.multi
func c09ops(w *c09World) map[string]func() {
	l1, l2 := w.eps[0], w.eps[1]
	sig := l1.built.Blocks[0].Txs[0].Sig
	slot := l1.built.Blocks[1].Spec.Slot
	addr := fixture.Account(l1.built.Spec.Seed, 1).String()
	ctx := context.Background()
	end := slot + 8
	tr := true
	multi, h := w.multi, w.h
	return map[string]func(){
		"rpc.getSlot":                func() { vCall(h, `{"jsonrpc":"2.0","id":1,"method":"getSlot"}`) },
		"rpc.getFirstAvailableBlock": func() { vCall(h, `{"jsonrpc":"2.0","id":1,"method":"getFirstAvailableBlock"}`) },
		"rpc.getVersion":             func() { vCall(h, `{"jsonrpc":"2.0","id":1,"method":"getVersion"}`) },
		"rpc.getGenesisHash":         func() { vCall(h, `{"jsonrpc":"2.0","id":1,"method":"getGenesisHash"}`) },
		"rpc.getBlock":               func() { vCall(h, fmt.Sprintf(`{"jsonrpc":"2.0","id":1,"method":"getBlock","params":[%d]}`, slot)) },
		"rpc.getBlockTime":           func() { vCall(h, fmt.Sprintf(`{"jsonrpc":"2.0","id":1,"method":"getBlockTime","params":[%d]}`, slot)) },
		"rpc.getTransaction":         func() { vCall(h, `{"jsonrpc":"2.0","id":1,"method":"getTransaction","params":["`+sig.String()+`"]}`) },
		"rpc.getSignaturesForAddress": func() {
			vCall(h, `{"jsonrpc":"2.0","id":1,"method":"getSignaturesForAddress","params":["`+addr+`"]}`)
		},
		"grpc.GetBlock":       func() { multi.GetBlock(ctx, &old_faithful_grpc.BlockRequest{Slot: slot}) },
		"grpc.GetBlockTime":   func() { multi.GetBlockTime(ctx, &old_faithful_grpc.BlockTimeRequest{Slot: slot}) },
		"grpc.GetTransaction": func() { multi.GetTransaction(ctx, &old_faithful_grpc.TransactionRequest{Signature: sig[:]}) },
		"grpc.GetVersion":     func() { multi.GetVersion(ctx, &old_faithful_grpc.VersionRequest{}) },
		"grpc.StreamBlocks": func() {
			multi.StreamBlocks(&old_faithful_grpc.StreamBlocksRequest{StartSlot: slot, EndSlot: &end}, &fakeBlockStream{ctx: ctx})
		},
		"grpc.StreamTransactions": func() {
			multi.StreamTransactions(&old_faithful_grpc.StreamTransactionsRequest{StartSlot: slot, EndSlot: &end, Filter: &old_faithful_grpc.StreamTransactionsFilter{Vote: &tr, Failed: &tr, AccountInclude: []string{addr}}}, &fakeTxStream{ctx: ctx})
		},
		"api.slot-to-cid":               func() { c09get(h, fmt.Sprintf("/api/v1/slot-to-cid/%d", slot)) },
		"api.sig-to-cid":                func() { c09get(h, "/api/v1/sig-to-cid/"+sig.String()) },
		"http.health":                   func() { c09get(h, "/health") },
		"list.GetEpochNumbers":          func() { multi.GetEpochNumbers() },
		"list.CountEpochs":              func() { multi.CountEpochs() },
		"list.MostRecentEpochNumber":    func() { multi.GetMostRecentAvailableEpochNumber() },
		"reload.HasEpochWithSameHash":   func() { multi.HasEpochWithSameHashAsFile("/nonexistent") },
		"reload.AddEpoch":               func() { multi.AddEpoch(77, l2.epoch); multi.RemoveEpoch(77) },
		"reload.ReplaceEpoch":           func() { multi.ReplaceEpoch(2, l2.epoch) },
		"reload.RemoveEpoch":            func() { multi.RemoveEpoch(78) },
		"reload.RemoveByConfigFilepath": func() { multi.RemoveEpochByConfigFilepath("/nonexistent") },
	}
}

// c09emptyWorld: the operations of w against a MultiEpoch without epochs
func c09emptyWorld(w *c09World) *c09World {
	we := &c09World{eps: w.eps}
	we.multi = NewMultiEpoch(&Options{EpochSearchConcurrency: 2})
	we.h = newMultiEpochHandler(we.multi, nil)
	we.ops = c09ops(we)
	// (the reload operations that add an epoch leave the set empty again)
	return we
}

type c09Prog struct {
	Name    string   `json:"name"`
	Prog    []string `json:"prog"`
	Callers []string `json:"callers"`
	Leaked  bool     `json:"leaked"` // after the operation (and the goroutines it spawned) had returned, a writer could not take the epoch-set lock
}

func TestVerifC09Record(t *testing.T) {
	out := vt.Out(t)
	defer out.Close()
	w := c09world(t, 2)
	var mu sync.Mutex
	type thr struct {
		prog    []string
		callers map[string]bool
		order   int
	}
	var progs map[int64]*thr
	w.multi.mu.rec = func(g int64, op string, caller string) {
		mu.Lock()
		p := progs[g]
		if p == nil {
			p = &thr{callers: map[string]bool{}, order: len(progs)}
			progs[g] = p
		}
		p.prog = append(p.prog, op)
		p.callers[caller] = true
		mu.Unlock()
	}
	names := []string{}
	for n := range w.ops {
		names = append(names, n)
	}
	sort.Strings(names)
	// the same operations against a server on which no epoch has been loaded yet (asynchronous start-up loading)
	we := c09emptyWorld(w)
	we.multi.mu.rec = w.multi.mu.rec
	for _, n := range names {
		names = append(names, n+"@empty")
		if len(names) >= 2*len(w.ops) {
			break
		}
	}
	for _, n := range names {
		mu.Lock()
		progs = map[int64]*thr{}
		mu.Unlock()
		done := make(chan struct{})
		var first int64
		opf, world := w.ops[n], w
		if strings.HasSuffix(n, "@empty") {
			opf, world = we.ops[strings.TrimSuffix(n, "@empty")], we
		}
		go func() {
			defer close(done)
			atomic.StoreInt64(&first, verifGoid())
			vt.Guard(opf)
		}()
		select {
		case <-done:
		case <-time.After(20 * time.Second):
			t.Fatalf("operation %s did not return while recording (single-threaded)", n)
		}
		time.Sleep(2 * time.Millisecond) // let spawned goroutines finish their lock calls
		// can a writer (an epoch being added) still get the lock?  (probed on the real mutex, not recorded)
		leaked := false
		for try := 0; ; try++ {
			if world.multi.mu.inner.TryLock() {
				world.multi.mu.inner.Unlock()
				break
			}
			if try > 200 {
				leaked = true
				break
			}
			time.Sleep(time.Millisecond)
		}
		mu.Lock()
		var ts []*thr
		var ids []int64
		for g, p := range progs {
			ts = append(ts, p)
			ids = append(ids, g)
		}
		sort.Slice(ts, func(i, j int) bool { return ts[i].order < ts[j].order })
		k := 0
		for _, p := range ts {
			name := n
			isFirst := false
			for g, q := range progs {
				if q == p && g == atomic.LoadInt64(&first) {
					isFirst = true
				}
			}
			if !isFirst {
				k++
				name = fmt.Sprintf("%s#%d", n, k)
			}
			var cs []string
			for c := range p.callers {
				cs = append(cs, c[strings.LastIndex(c, ".")+1:])
			}
			sort.Strings(cs)
			out.Emit(c09Prog{Name: name, Prog: p.prog, Callers: cs, Leaked: leaked && isFirst})
		}
		if len(ts) == 0 {
			out.Emit(c09Prog{Name: n, Prog: []string{}, Callers: []string{}, Leaked: leaked})
		}
		_ = ids
		mu.Unlock()
	}
}

// ---- replay of model deadlocks ------------------------------------------------------------------------------

type c09Case struct {
	Ops   []string `json:"ops"`
	Sched []struct {
		T  int    `json:"t"`
		Op string `json:"op"`
	} `json:"sched"`
	Blocked []bool `json:"blocked"`
}

type c09Replay struct {
	Kind     string    `json:"kind"`
	Case     int       `json:"case"`
	Ops      []string  `json:"ops"`
	Outcome  string    `json:"outcome"` // completed | hang | unreplayable | diverged
	Detail   string    `json:"detail"`
	Blocked  []string  `json:"blocked"` // wait reasons of the threads at the end
	Listings [][]int   `json:"listings"`
	Calls    []rpcCall `json:"calls"`
}

func c09goroutineHeader(id int64) string {
	buf := make([]byte, 1<<20)
	n := runtime.Stack(buf, true)
	for _, blk := range bytes.Split(buf[:n], []byte("\n\n")) {
		if bytes.HasPrefix(blk, []byte("goroutine "+strconv.FormatInt(id, 10)+" ")) {
			return string(bytes.SplitN(blk, []byte("\n"), 2)[0])
		}
	}
	return ""
}

func TestVerifC09Replay(t *testing.T) {
	out := vt.Out(t)
	defer out.Close()
	cases := vt.Cases(t)
	for ci, raw := range cases {
		var c c09Case
		if err := json.Unmarshal(raw, &c); err != nil {
			t.Fatal(err)
		}
		o := c09Replay{Kind: "replay", Case: ci + 1, Ops: c.Ops, Blocked: []string{}, Listings: [][]int{}, Calls: []rpcCall{}}
		unre := false
		for _, n := range c.Ops {
			if strings.Contains(n, "#") {
				unre = true // a spawned worker goroutine: cannot be started on its own
			}
		}
		if unre {
			o.Outcome = "unreplayable"
			out.Emit(o)
			continue
		}
		w := c09world(t, 2) // a fresh server per candidate (a confirmed hang leaves its goroutines blocked for good)
		nT := len(c.Ops)
		ids := make([]int64, nT)
		arrive := make(chan [2]int64, 64) // (thread index, 0) on gate arrival
		grants := make([]chan struct{}, nT)
		for i := range grants {
			grants[i] = make(chan struct{}, 1)
		}
		var idmu sync.Mutex
		free := int32(0)
		parkedOp := make([]string, nT)
		w.multi.mu.gate = func(g int64, op string) {
			if atomic.LoadInt32(&free) == 1 {
				return
			}
			idmu.Lock()
			th := -1
			for i, id := range ids {
				if id == g {
					th = i
				}
			}
			if th >= 0 {
				parkedOp[th] = op
			}
			idmu.Unlock()
			if th < 0 {
				return // worker goroutines of an operation run free
			}
			arrive <- [2]int64{int64(th), 0}
			<-grants[th]
		}
		done := make([]chan struct{}, nT)
		for i, n := range c.Ops {
			i, n := i, n
			done[i] = make(chan struct{})
			started := make(chan struct{})
			go func() {
				idmu.Lock()
				ids[i] = verifGoid()
				idmu.Unlock()
				close(started)
				vt.Guard(w.ops[n])
				close(done[i])
			}()
			<-started
		}
		atGate := make([]bool, nT)
		finished := func(i int) bool {
			select {
			case <-done[i]:
				return true
			default:
				return false
			}
		}
		blockedInMutex := func(i int) bool {
			h := c09goroutineHeader(ids[i])
			return strings.Contains(h, "sync.RWMutex") || strings.Contains(h, "semacquire")
		}
		// wait until thread i is at a gate, finished, or blocked inside the mutex
		settle := func(i int) string {
			deadline := time.Now().Add(3 * time.Second)
			for time.Now().Before(deadline) {
				if atGate[i] {
					return "gate"
				}
				if finished(i) {
					return "done"
				}
				select {
				case a := <-arrive:
					atGate[a[0]] = true
					continue
				default:
				}
				if blockedInMutex(i) {
					return "blocked"
				}
				time.Sleep(200 * time.Microsecond)
			}
			return "timeout"
		}
		for si, e := range c.Sched {
			th := e.T - 1
			st := settle(th)
			idmu.Lock()
			op := parkedOp[th]
			idmu.Unlock()
			if st != "gate" || op != e.Op {
				o.Outcome, o.Detail = "diverged", fmt.Sprintf("step %d: schedule wants thread %d (%s) at %s, it is %s at %q", si, e.T, c.Ops[th], e.Op, st, op)
				break
			}
			atGate[th] = false
			grants[th] <- struct{}{}
			// the granted call either returns (thread goes on to its next gate / finishes) or blocks inside the mutex
			settle(th)
		}
		if o.Outcome == "" {
			// the model says every thread the schedule left `blocked` can never proceed: give the real ones 1.5 s
			time.Sleep(300 * time.Millisecond)
			allBlocked := true
			for i := range c.Ops {
				st := "done"
				if !finished(i) {
					if blockedInMutex(i) {
						st = c09goroutineHeader(ids[i])
					} else {
						st = "running: " + c09goroutineHeader(ids[i])
						allBlocked = false
					}
				} else if c.Blocked[i] {
					allBlocked = false
				}
				o.Blocked = append(o.Blocked, st)
			}
			if allBlocked {
				time.Sleep(1200 * time.Millisecond)
				for i := range c.Ops {
					if c.Blocked[i] && (finished(i) || !blockedInMutex(i)) {
						allBlocked = false
					}
				}
			}
			if allBlocked {
				o.Outcome, o.Detail = "hang", "every goroutine of the candidate is blocked in sync.RWMutex for good"
			} else {
				o.Outcome = "completed"
			}
		}
		// release everything that can still be released
		atomic.StoreInt32(&free, 1)
		for i := range grants {
			select {
			case grants[i] <- struct{}{}:
			default:
			}
		}
		out.Emit(o)
	}
	_ = os.Remove
	_ = rand.Int
}

// ---- stress: queries against stable epochs while other epochs are added / replaced / removed -------------------

func rpcWorldFromLoaded(eps []*loaded) *rpcWorld {
	w := &rpcWorld{eps: eps, sigID: map[solanaSig]int{}, hashID: map[string][2]int64{}, truthTx: map[int]*fixture.TxTruth{}}
	n := 0
	for _, l := range eps {
		for _, bt := range l.built.Blocks {
			for ei, h := range bt.EntryHashes {
				w.hashID[string(h)] = [2]int64{int64(bt.Spec.Slot), int64(ei + 1)}
			}
			for _, tt := range bt.Txs {
				n++
				id := int(l.built.Spec.Epoch)*100000 + tt.Spec.SigID
				w.sigID[tt.Sig] = id
				w.truthTx[id] = tt
			}
		}
	}
	return w
}

type c09Pair struct {
	Idle   rpcCall `json:"idle"`
	Stress rpcCall `json:"stress"`
}

type c09Stress struct {
	Kind     string    `json:"kind"`
	Outcome  string    `json:"outcome"`
	Detail   string    `json:"detail"`
	Pairs    []c09Pair `json:"pairs"`
	Listings [][]int   `json:"listings"`
	Stable   []int     `json:"stable"`
	Reloads  int       `json:"reloads"`
}

func TestVerifC09Stress(t *testing.T) {
	out := vt.Out(t)
	defer out.Close()
	rng := vt.Rand()
	w := c09world(t, 3)
	cache := vCache(t)
	extra := []*loaded{vBuildAndLoad(t, c09spec(4, 204), false, cache), vBuildAndLoad(t, c09spec(5, 205), false, cache)}
	rw := rpcWorldFromLoaded(w.eps)
	multi := w.multi
	h := func(body string) (int, string, any) { return vCall(w.h, body) }
	type q struct {
		kind string
		slot uint64
		sig  solanaSig
		id   int
	}
	var qs []q
	for _, l := range w.eps {
		for _, bt := range l.built.Blocks {
			qs = append(qs, q{kind: "block", slot: bt.Spec.Slot}, q{kind: "blockg", slot: bt.Spec.Slot}, q{kind: "time", slot: bt.Spec.Slot})
			for _, tt := range bt.Txs {
				qs = append(qs, q{kind: "tx", sig: tt.Sig, id: rw.sigID[tt.Sig]}, q{kind: "txg", sig: tt.Sig, id: rw.sigID[tt.Sig]})
			}
		}
	}
	do := func(x q) rpcCall {
		switch x.kind {
		case "block":
			return rw.jsonGetBlock(h, x.slot, "base64")
		case "blockg":
			return rw.grpcGetBlock(multi, x.slot)
		case "time":
			return rw.blockTime(h, multi, x.slot, "json")
		case "tx":
			return rw.jsonGetTransaction(h, x.sig, x.id, "base64")
		default:
			return rw.grpcGetTransaction(multi, x.sig, x.id)
		}
	}
	idle := make([]rpcCall, len(qs))
	for i, x := range qs {
		idle[i] = do(x)
	}
	o := c09Stress{Kind: "stress", Stable: []int{3, 2, 1}}
	precheckFile := filepath.Join(t.TempDir(), "epoch-9.yml")
	os.WriteFile(precheckFile, []byte("epoch: 9\nversion: 1\n"), 0o644)
	var mu sync.Mutex
	stop := make(chan struct{})
	var wg sync.WaitGroup
	var reloads int64
	nq, nr := 6, 3
	rounds := 500
	if !vt.Quick() {
		rounds = 1500
	}
	for r := 0; r < nr; r++ {
		wg.Add(1)
		go func(seed int64) {
			defer wg.Done()
			lr := rand.New(rand.NewSource(seed))
			for {
				select {
				case <-stop:
					return
				default:
				}
				e := extra[lr.Intn(2)]
				n := e.built.Spec.Epoch
				switch lr.Intn(5) {
				case 0:
					multi.AddEpoch(n, e.epoch)
				case 1:
					multi.RemoveEpoch(n)
				case 2:
					multi.ReplaceEpoch(n, e.epoch)
				case 3:
					multi.RemoveEpochByConfigFilepath("/nonexistent")
				case 4:
					// the --watch callback's pre-check, on a config file that exists (its content is hashed per loaded epoch)
					multi.HasEpochWithSameHashAsFile(precheckFile)
				}
				atomic.AddInt64(&reloads, 1)
				if lr.Intn(3) == 0 {
					time.Sleep(time.Duration(lr.Intn(150)) * time.Microsecond)
				}
			}
		}(rng.Int63())
	}
	var qwg sync.WaitGroup
	for g := 0; g < nq; g++ {
		qwg.Add(1)
		go func(seed int64) {
			defer qwg.Done()
			lr := rand.New(rand.NewSource(seed))
			for i := 0; i < rounds; i++ {
				k := lr.Intn(len(qs))
				c := do(qs[k])
				var listing []int
				if lr.Intn(3) == 0 {
					for _, n := range multi.GetEpochNumbers() {
						listing = append(listing, int(n))
					}
					vCall(w.h, `{"jsonrpc":"2.0","id":1,"method":"getSlot"}`)
					vCall(w.h, `{"jsonrpc":"2.0","id":1,"method":"getFirstAvailableBlock"}`)
				}
				mu.Lock()
				o.Pairs = append(o.Pairs, c09Pair{Idle: idle[k], Stress: c})
				if listing != nil {
					o.Listings = append(o.Listings, listing)
				}
				mu.Unlock()
			}
		}(rng.Int63())
	}
	qdone := make(chan struct{})
	go func() { qwg.Wait(); close(qdone) }()
	select {
	case <-qdone:
		o.Outcome = "completed"
	case <-time.After(90 * time.Second):
		buf := make([]byte, 1<<20)
		n := runtime.Stack(buf, true)
		blocked := strings.Count(string(buf[:n]), "sync.RWMutex")
		o.Outcome, o.Detail = "hang", fmt.Sprintf("queries did not complete within 90 s; %d goroutines blocked in sync.RWMutex", blocked)
	}
	close(stop)
	rdone := make(chan struct{})
	go func() { wg.Wait(); close(rdone) }()
	select {
	case <-rdone:
	case <-time.After(10 * time.Second):
		if o.Outcome == "completed" {
			o.Outcome, o.Detail = "hang", "reload goroutines did not complete"
		}
	}
	o.Reloads = int(atomic.LoadInt64(&reloads))
	mu.Lock()
	if o.Pairs == nil {
		o.Pairs = []c09Pair{}
	}
	if o.Listings == nil {
		o.Listings = [][]int{}
	}
	out.Emit(o)
	mu.Unlock()
}

// ---- atomicity of the epoch-set mutators (linearizability of pairs) --------------------------------------------------

type c09LinOutcome struct {
	Reply1  string   `json:"reply1"`
	Reply2  string   `json:"reply2"`
	Numbers []uint64 `json:"numbers"`
	Served  []int    `json:"served"` // object id served under each epoch number (same order as Numbers)
	Closed  []int    `json:"closed"`
}

type c09LinObs struct {
	Kind    string        `json:"kind"`
	Op1     string        `json:"op1"`
	Op2     string        `json:"op2"`
	GateAt  int           `json:"gateAt"` // op1 was parked before its gateAt-th lock acquisition (0 = it has a single critical section)
	Outcome string        `json:"outcome"`
	Detail  string        `json:"detail"`
	Inter   c09LinOutcome `json:"inter"`
	Seq12   c09LinOutcome `json:"seq12"`
	Seq21   c09LinOutcome `json:"seq21"`
}

// TestVerifC09Atomic: every ordered pair of mutators over a small set of light Epoch objects (real Config with a config
// path and hash, close tracked); op1 is parked before each of its lock acquisitions after the first, op2 runs, op1 resumes.
func TestVerifC09Atomic(t *testing.T) {
	out := vt.Out(t)
	defer out.Close()
	type world struct {
		multi  *MultiEpoch
		objs   []*Epoch
		closed map[int]bool
	}
	mk := func() *world {
		w := &world{multi: NewMultiEpoch(&Options{}), closed: map[int]bool{}}
		add := func(epoch uint64, file string) {
			id := len(w.objs) + 1
			e := epoch
			ep := &Epoch{epoch: epoch, config: &Config{Epoch: &e, originalFilepath: file, hashOfConfigFile: fmt.Sprintf("h%d", id)}}
			ep.onClose = append(ep.onClose, func() error { w.closed[id] = true; return nil })
			w.objs = append(w.objs, ep)
		}
		add(5, "/cfg/a.yml") // 1: served at start
		add(6, "/cfg/b.yml") // 2: served at start
		add(5, "/cfg/c.yml") // 3: epoch 5 again, from another config file
		add(7, "/cfg/d.yml") // 4
		add(6, "/cfg/e.yml") // 5: epoch 6 again, from another config file
		// (no two objects share a config path: RemoveEpochByConfigFilepath ranges over a map, so with two served epochs
		// loaded from one path even the sequential outcome would be nondeterministic - and a config file holds one epoch)
		w.multi.AddEpoch(5, w.objs[0])
		w.multi.AddEpoch(6, w.objs[1])
		return w
	}
	type op struct {
		name string
		run  func(w *world) string
	}
	rep := func(err error) string {
		if err != nil {
			return "err"
		}
		return "ok"
	}
	ops := []op{
		{"RemoveByFile(a)", func(w *world) string {
			n, err := w.multi.RemoveEpochByConfigFilepath("/cfg/a.yml")
			if err != nil {
				return "err"
			}
			return fmt.Sprint(n)
		}},
		{"RemoveByFile(b)", func(w *world) string {
			n, err := w.multi.RemoveEpochByConfigFilepath("/cfg/b.yml")
			if err != nil {
				return "err"
			}
			return fmt.Sprint(n)
		}},
		{"ReplaceOrAdd(5<-obj3)", func(w *world) string { return rep(w.multi.ReplaceOrAddEpoch(5, w.objs[2])) }},
		{"ReplaceOrAdd(6<-obj5)", func(w *world) string { return rep(w.multi.ReplaceOrAddEpoch(6, w.objs[4])) }},
		{"ReplaceOrAdd(7<-obj4)", func(w *world) string { return rep(w.multi.ReplaceOrAddEpoch(7, w.objs[3])) }},
		{"Add(7<-obj4)", func(w *world) string { return rep(w.multi.AddEpoch(7, w.objs[3])) }},
		{"Add(5<-obj3)", func(w *world) string { return rep(w.multi.AddEpoch(5, w.objs[2])) }},
		{"Remove(5)", func(w *world) string { return rep(w.multi.RemoveEpoch(5)) }},
		{"Remove(6)", func(w *world) string { return rep(w.multi.RemoveEpoch(6)) }},
		{"Replace(5<-obj3)", func(w *world) string { return rep(w.multi.ReplaceEpoch(5, w.objs[2])) }},
	}
	snap := func(w *world, r1, r2 string) c09LinOutcome {
		o := c09LinOutcome{Reply1: r1, Reply2: r2, Numbers: w.multi.GetEpochNumbers(), Served: []int{}, Closed: []int{}}
		if o.Numbers == nil {
			o.Numbers = []uint64{}
		}
		for _, n := range o.Numbers {
			ep, _ := w.multi.GetEpoch(n)
			id := 0
			for i, x := range w.objs {
				if x == ep {
					id = i + 1
				}
			}
			o.Served = append(o.Served, id)
		}
		for id := range w.closed {
			o.Closed = append(o.Closed, id)
		}
		sort.Ints(o.Closed)
		return o
	}
	// every operation has to return, also when it runs alone: a sequential run that does not return within 5 s is recorded
	// as a hang (the property's "never deadlock") and ends the phase - the stuck goroutine still holds the lock
	seq := func(w *world, first, second op) (r1, r2 string, ok bool) {
		done := make(chan struct{})
		go func() {
			defer close(done)
			r1 = first.run(w)
			r2 = second.run(w)
		}()
		select {
		case <-done:
			return r1, r2, true
		case <-time.After(5 * time.Second):
			return "", "", false
		}
	}
	empty := c09LinOutcome{Numbers: []uint64{}, Served: []int{}, Closed: []int{}}
	for _, a := range ops {
		for _, b := range ops {
			if a.name == b.name {
				continue
			}
			var s12, s21 c09LinOutcome
			{
				w := mk()
				r1, r2, ok := seq(w, a, b)
				if !ok {
					out.Emit(c09LinObs{Kind: "linpair", Op1: a.name, Op2: b.name, GateAt: 0, Seq12: empty, Seq21: empty, Inter: empty, Outcome: "hang",
						Detail: "run one after the other on an otherwise idle epoch set, the two operations did not return"})
					return
				}
				s12 = snap(w, r1, r2)
			}
			{
				w := mk()
				r2, r1, ok := seq(w, b, a)
				if !ok {
					out.Emit(c09LinObs{Kind: "linpair", Op1: b.name, Op2: a.name, GateAt: 0, Seq12: empty, Seq21: empty, Inter: empty, Outcome: "hang",
						Detail: "run one after the other on an otherwise idle epoch set, the two operations did not return"})
					return
				}
				s21 = snap(w, r1, r2)
			}
			// how many lock acquisitions does op1 make?
			nacq := 0
			{
				w := mk()
				var mu sync.Mutex
				w.multi.mu.rec = func(g int64, op string, caller string) {
					if op == "RLock" || op == "Lock" {
						mu.Lock()
						nacq++
						mu.Unlock()
					}
				}
				a.run(w)
			}
			gates := []int{0}
			for k := 2; k <= nacq; k++ {
				gates = append(gates, k)
			}
			for _, k := range gates {
				w := mk()
				o := c09LinObs{Kind: "linpair", Op1: a.name, Op2: b.name, GateAt: k, Seq12: s12, Seq21: s21, Outcome: "completed"}
				var r1, r2 string
				if k == 0 {
					r1 = a.run(w)
					r2 = b.run(w)
				} else {
					parked := make(chan struct{})
					release := make(chan struct{})
					var g1 int64
					cnt := 0
					w.multi.mu.gate = func(g int64, op string) {
						if g != atomic.LoadInt64(&g1) || (op != "RLock" && op != "Lock") {
							return
						}
						cnt++
						if cnt == k {
							close(parked)
							<-release
						}
					}
					done := make(chan struct{})
					go func() {
						defer close(done)
						atomic.StoreInt64(&g1, verifGoid())
						r1 = a.run(w)
					}()
					select {
					case <-parked:
						r2 = b.run(w)
						close(release)
					case <-done:
						r2 = b.run(w) // (op1 finished without reaching the k-th acquisition)
					case <-time.After(5 * time.Second):
						o.Outcome, o.Detail = "hang", "op1 neither parked nor returned"
					}
					if o.Outcome == "completed" {
						select {
						case <-done:
						case <-time.After(5 * time.Second):
							o.Outcome, o.Detail = "hang", "op1 did not return after being released"
						}
					}
					w.multi.mu.gate = nil
				}
				if o.Outcome == "completed" {
					o.Inter = snap(w, r1, r2)
				} else {
					o.Inter = c09LinOutcome{Numbers: []uint64{}, Served: []int{}, Closed: []int{}}
				}
				out.Emit(o)
			}
		}
	}
}
