package main

// C13 replayer (R3): valid files of one fixture epoch (four compact-index kinds, sig-exists, slot-to-blocktime, gsfa
// pubkey index / linked log / manifest, CAR; deprecated compact index and sig-exists formats) are cut at every offset
// (small files) or at region boundaries +-2 plus a seeded sample (large ones) and every stored key is looked up:
// through a truncated copy on disk opened the way the server does, and through a truncating io.ReaderAt that produces
// each short-read flavour and logs every ReadAt.

import (
	"bytes"
	"encoding/binary"
	"context"
	"encoding/json"
	"errors"
	"fmt"
	"io"
	"math/rand"
	"os"
	"path/filepath"
	"strings"
	"testing"

	"github.com/gagliardetto/solana-go"
	"github.com/rpcpool/yellowstone-faithful/blocktimeindex"
	"github.com/rpcpool/yellowstone-faithful/bucketteer"
	"github.com/rpcpool/yellowstone-faithful/compactindexsized"
	"github.com/rpcpool/yellowstone-faithful/gsfa"
	"github.com/rpcpool/yellowstone-faithful/indexes"
	"github.com/rpcpool/yellowstone-faithful/zzverif/fixture"
	"github.com/rpcpool/yellowstone-faithful/zzverif/vt"
)

type c13Obs struct {
	Kind      string `json:"kind"`
	File      string `json:"file"`
	Size      int64  `json:"size"`
	Cut       int64  `json:"cut"`
	Reader    string `json:"reader"`
	Flavour   string `json:"flavour"`
	Keys      int    `json:"keys"`
	Same      int    `json:"same"`
	Error     int    `json:"error"`
	Notfound  int    `json:"notfound"`
	Different int    `json:"different"`
	Panic     int    `json:"panic"`
	Maxread   int64  `json:"maxread"`
	OpenErr   bool   `json:"openerr"`
	Example   string `json:"example"`
	Removes   bool   `json:"removes"` // the cut removes at least one byte that the complete lookups read
}

// truncating ReaderAt with short-read flavours and a read log
type c13Reader struct {
	data    []byte
	cut     int64
	flavour string
	maxEnd  int64
}

func (r *c13Reader) ReadAt(p []byte, off int64) (int, error) {
	if end := off + int64(len(p)); end > r.maxEnd {
		r.maxEnd = end
	}
	if off+int64(len(p)) <= r.cut {
		return copy(p, r.data[off:off+int64(len(p))]), nil
	}
	switch r.flavour {
	case "short-eof":
		if off >= r.cut {
			return 0, io.EOF
		}
		return copy(p, r.data[off:r.cut]), io.EOF
	case "short-unexpected":
		if off >= r.cut {
			return 0, io.ErrUnexpectedEOF
		}
		return copy(p, r.data[off:r.cut]), io.ErrUnexpectedEOF
	case "zero-eof":
		return 0, io.EOF
	default:
		return 0, errors.New("connection reset")
	}
}

var c13LastPanic string

type c13req struct {
	body string
	slot uint64
}

// the client's view of one epoch: getBlock for every slot, getTransaction for every signature
func c13requests(l *loaded) (out []c13req) {
	seen := map[solana.PublicKey]bool{}
	for _, bt := range l.built.Blocks {
		for _, tt := range bt.Txs {
			for _, a := range tt.Accounts {
				if !seen[a] && len(seen) < 8 {
					seen[a] = true
					out = append(out, c13req{fmt.Sprintf(`{"jsonrpc":"2.0","id":1,"method":"getSignaturesForAddress","params":["%s",{"limit":1000}]}`, a), 0})
				}
			}
		}
	}
	for _, bt := range l.built.Blocks {
		out = append(out, c13req{fmt.Sprintf(`{"jsonrpc":"2.0","id":1,"method":"getBlock","params":[%d,{"encoding":"base64","maxSupportedTransactionVersion":0}]}`, bt.Spec.Slot), bt.Spec.Slot})
		for _, tt := range bt.Txs {
			out = append(out, c13req{fmt.Sprintf(`{"jsonrpc":"2.0","id":1,"method":"getTransaction","params":["%s",{"encoding":"base64","maxSupportedTransactionVersion":0}]}`, tt.Sig), bt.Spec.Slot})
		}
	}
	return out
}

func c13classify(body string, p any, wantSlot uint64) string {
	if p != nil {
		c13LastPanic = fmt.Sprint(p)
		return "panic"
	}
	var resp struct {
		Result json.RawMessage `json:"result"`
		Error  map[string]any  `json:"error"`
	}
	if json.Unmarshal([]byte(body), &resp) != nil {
		return "error"
	}
	if resp.Error != nil {
		code, _ := resp.Error["code"].(float64)
		msg, _ := resp.Error["message"].(string)
		if int(code) == CodeNotFound || strings.Contains(strings.ToLower(msg), "not found") {
			return "notfound"
		}
		return "error"
	}
	if len(resp.Result) == 0 || string(resp.Result) == "null" {
		return "notfound"
	}
	var obj map[string]any
	if json.Unmarshal(resp.Result, &obj) == nil {
		if s, ok := obj["slot"].(float64); ok && uint64(s) != wantSlot {
			return "different"
		}
	}
	// (lists - getSignaturesForAddress - are compared with the intact server's answer by the caller)
	return "same"
}

type c13Target struct {
	name string
	path string
	// lookups on an opened instance: returns outcome strings for every key; open may fail
	disk func(path string) (func() []string, error)
	ra   func(r io.ReaderAt, size int64) (func() []string, error)
}

func c13class(err error, same bool) string {
	switch {
	case err == nil && same:
		return "same"
	case err == nil:
		return "different"
	case errors.Is(err, compactindexsized.ErrNotFound) || errors.Is(err, bucketteer.ErrNotFound) || strings.Contains(strings.ToLower(err.Error()), "not found"):
		return "notfound"
	default:
		return "error"
	}
}

func c13cuts(size int64, rng *rand.Rand, boundaries []int64, quick bool) []int64 {
	seen := map[int64]bool{}
	var out []int64
	add := func(c int64) {
		if c >= 0 && c < size && !seen[c] {
			seen[c] = true
			out = append(out, c)
		}
	}
	if size <= 4096 || (!quick && size <= 65536) {
		for c := int64(0); c < size; c++ {
			add(c)
		}
		return out
	}
	for _, b := range append(boundaries, 0, size-1, size/2) {
		for d := int64(-2); d <= 2; d++ {
			add(b + d)
		}
	}
	n := 150
	if !quick {
		n = 4000
	}
	for i := 0; i < n; i++ {
		add(rng.Int63n(size))
	}
	for i := int64(1); i <= 40; i++ {
		add(size - i)
	}
	return out
}

func TestVerifC13(t *testing.T) {
	out := vt.Out(t)
	defer out.Close()
	rng := vt.Rand()
	quick := vt.Quick()
	cache := vCache(t)
	sp := c10spec(1, 1313)
	// a few more blocks / transactions so that indexes have some depth
	for i := 0; i < 12; i++ {
		slot := uint64(432000 + 20 + i*2)
		b := fixture.BlockSpec{Slot: slot, Parent: slot - 2, Blocktime: int64(1700000000 + slot%1000)}
		es := fixture.EntrySpec{}
		for k := 0; k < 3; k++ {
			es.Txs = append(es.Txs, fixture.TxSpec{SigID: 100 + i*3 + k, Accounts: []int{1 + k, 4 + i%3}, DataFrames: 1, MetaFrames: 1})
		}
		b.Entries = []fixture.EntrySpec{es}
		sp.Blocks = append(sp.Blocks, b)
	}
	sp.Blocks[3].Parent = sp.Blocks[2].Slot
	{ // the last slot of the epoch: its block time is the last value of the slot-to-blocktime file
		last := sp.Blocks[len(sp.Blocks)-1].Slot
		slot := uint64(432000 + 431999)
		sp.Blocks = append(sp.Blocks, fixture.BlockSpec{Slot: slot, Parent: last, Blocktime: 0x65aa11bb, Entries: []fixture.EntrySpec{{Txs: []fixture.TxSpec{{SigID: 900, Accounts: []int{1, 2}, DataFrames: 1, MetaFrames: 1}}}}})
	}
	l := vBuildAndLoad(t, sp, true, cache)
	ctx := context.Background()
	var sigs []solana.Signature
	var addrs []solana.PublicKey
	seenAddr := map[solana.PublicKey]bool{}
	for _, bt := range l.built.Blocks {
		for _, tt := range bt.Txs {
			sigs = append(sigs, tt.Sig)
			for _, a := range tt.Accounts {
				if !seenAddr[a] {
					seenAddr[a] = true
					addrs = append(addrs, a)
				}
			}
		}
	}
	// reference answers from the complete files
	gr, err := gsfa.NewGsfaReader(l.gsfaDir)
	if err != nil {
		t.Fatal(err)
	}
	refAddr := map[solana.PublicKey]string{}
	for _, a := range addrs {
		locs, err := gr.Get(ctx, a, 1000)
		if err != nil {
			t.Fatal(err)
		}
		refAddr[a] = fmt.Sprint(locs)
	}
	gr.Close()
	compact := func(name, path string, keys [][]byte, want func(i int) []byte, opener func(io.ReaderAt) (func(key []byte) ([]byte, error), error)) c13Target {
		look := func(lk func(key []byte) ([]byte, error)) func() []string {
			return func() []string {
				res := make([]string, len(keys))
				for i, k := range keys {
					func() {
						defer func() {
							if r := recover(); r != nil {
								res[i] = "panic"
							}
						}()
						v, err := lk(k)
						res[i] = c13class(err, err == nil && bytes.Equal(v, want(i)))
					}()
				}
				return res
			}
		}
		return c13Target{name: name, path: path,
			disk: func(p string) (func() []string, error) {
				f, err := os.Open(p)
				if err != nil {
					return nil, err
				}
				lk, err := opener(f)
				if err != nil {
					f.Close()
					return nil, err
				}
				return look(lk), nil
			},
			ra: func(r io.ReaderAt, size int64) (func() []string, error) {
				lk, err := opener(r)
				if err != nil {
					return nil, err
				}
				return look(lk), nil
			}}
	}
	var targets []c13Target
	{ // cid -> offset and size
		var keys [][]byte
		var vals [][]byte
		for _, s := range l.built.Sections {
			keys = append(keys, s.Cid.Bytes())
			oas := indexes.OffsetAndSize{Offset: s.Offset, Size: s.Length}
			vals = append(vals, oas.Bytes())
		}
		targets = append(targets, compact("cid-to-offset-and-size", l.paths.CidToOffsetAndSize, keys, func(i int) []byte { return vals[i] },
			func(r io.ReaderAt) (func([]byte) ([]byte, error), error) {
				db, err := compactindexsized.Open(r)
				if err != nil {
					return nil, err
				}
				return db.Lookup, nil
			}))
	}
	{ // slot -> cid, sig -> cid
		var keys, vals [][]byte
		for _, bt := range l.built.Blocks {
			keys = append(keys, indexes.Uint64tob(bt.Spec.Slot))
			vals = append(vals, bt.Cid.Bytes())
		}
		k2, v2 := keys, vals
		targets = append(targets, compact("slot-to-cid", l.paths.SlotToCid, k2, func(i int) []byte { return v2[i] },
			func(r io.ReaderAt) (func([]byte) ([]byte, error), error) {
				db, err := compactindexsized.Open(r)
				if err != nil {
					return nil, err
				}
				return db.Lookup, nil
			}))
		var k3, v3 [][]byte
		for _, bt := range l.built.Blocks {
			for _, tt := range bt.Txs {
				s := tt.Sig
				k3 = append(k3, s[:])
				v3 = append(v3, tt.Cid.Bytes())
			}
		}
		targets = append(targets, compact("sig-to-cid", l.paths.SignatureToCid, k3, func(i int) []byte { return v3[i] },
			func(r io.ReaderAt) (func([]byte) ([]byte, error), error) {
				db, err := compactindexsized.Open(r)
				if err != nil {
					return nil, err
				}
				return db.Lookup, nil
			}))
	}
	{ // sig-exists
		mk := func(has func(sig [64]byte) (bool, error)) func() []string {
			return func() []string {
				res := make([]string, len(sigs))
				for i, s := range sigs {
					func() {
						defer func() {
							if r := recover(); r != nil {
								res[i] = "panic"
							}
						}()
						ok, err := has(s)
						switch {
						case err != nil:
							res[i] = "error"
						case ok:
							res[i] = "same"
						default:
							res[i] = "notfound"
						}
					}()
				}
				return res
			}
		}
		targets = append(targets, c13Target{name: "sig-exists", path: l.paths.SignatureExists,
			disk: func(p string) (func() []string, error) {
				r, err := bucketteer.Open(p)
				if err != nil {
					return nil, err
				}
				return mk(r.Has), nil
			},
			ra: func(r io.ReaderAt, size int64) (func() []string, error) {
				x, err := bucketteer.NewReader(r)
				if err != nil {
					return nil, err
				}
				return mk(x.Has), nil
			}})
	}
	{ // slot -> blocktime
		mk := func(idx *blocktimeindex.Index) func() []string {
			return func() []string {
				res := make([]string, len(l.built.Blocks))
				for i, bt := range l.built.Blocks {
					func() {
						defer func() {
							if r := recover(); r != nil {
								res[i] = "panic"
							}
						}()
						v, err := idx.Get(bt.Spec.Slot)
						res[i] = c13class(err, v == bt.Spec.Blocktime)
					}()
				}
				// the last slots of the epoch sit at the very end of the file
				return res
			}
		}
		targets = append(targets, c13Target{name: "slot-to-blocktime", path: l.paths.SlotToBlocktime,
			disk: func(p string) (func() []string, error) {
				idx, err := blocktimeindex.FromFile(p)
				if err != nil {
					return nil, err
				}
				return mk(idx), nil
			},
			ra: func(r io.ReaderAt, size int64) (func() []string, error) {
				// the server reads the index with ReadAllFromReaderAt (exact size) and FromBytes
				buf, err := ReadAllFromReaderAt(r, uint64(blocktimeindex.DefaultIndexByteSize))
				if err != nil {
					return nil, err
				}
				idx, err := blocktimeindex.FromBytes(buf)
				if err != nil {
					return nil, err
				}
				return mk(idx), nil
			}})
	}
	// gsfa directory files: a copy of the directory with one file cut
	for _, fn := range []string{"linked-log", "pubkey-to-offset-and-size.index", "manifest"} {
		fn := fn
		targets = append(targets, c13Target{name: "gsfa/" + fn, path: filepath.Join(l.gsfaDir, fn),
			disk: func(p string) (func() []string, error) {
				dir := filepath.Dir(p)
				r, err := gsfa.NewGsfaReader(dir)
				if err != nil {
					return nil, err
				}
				return func() []string {
					defer r.Close()
					res := make([]string, len(addrs))
					for i, a := range addrs {
						func() {
							defer func() {
								if rr := recover(); rr != nil {
									res[i] = "panic"
								}
							}()
							locs, err := r.Get(ctx, a, 1000)
							if err == nil && len(locs) == 0 {
								res[i] = "notfound"
								return
							}
							res[i] = c13class(err, fmt.Sprint(locs) == refAddr[a])
						}()
					}
					return res
				}, nil
			}})
	}
	{ // CAR through a loaded Epoch
		targets = append(targets, c13Target{name: "car", path: l.built.CarPath,
			disk: func(p string) (func() []string, error) {
				cfg := *l.cfg
				car := *l.cfg.Data.Car
				car.URI = URI(p)
				cfg.Data.Car = &car
				cfg.Indexes.Gsfa.URI = ""
				ep, err := NewEpochFromConfig(&cfg, vCliCtx(), cache, nil)
				if err != nil {
					return nil, err
				}
				return func() []string {
					defer ep.Close()
					res := make([]string, len(l.built.Sections))
					for i, s := range l.built.Sections {
						func() {
							defer func() {
								if r := recover(); r != nil {
									res[i] = "panic"
								}
							}()
							got, err := ep.GetNodeByCid(ctx, s.Cid)
							res[i] = c13class(err, bytes.Equal(got, s.Data))
						}()
					}
					return res
				}, nil
			}})
	}
	{ // the CAR served over HTTP (range requests; the remote path of the server)
		targets = append(targets, c13Target{name: "car-remote", path: l.built.CarPath,
			disk: func(p string) (func() []string, error) {
				srv := c01serve(p)
				cfg := *l.cfg
				car := *l.cfg.Data.Car
				car.URI = URI(srv.URL + "/" + filepath.Base(p))
				cfg.Data.Car = &car
				cfg.Indexes.Gsfa.URI = ""
				ep, err := NewEpochFromConfig(&cfg, vCliCtx(), cache, nil)
				if err != nil {
					srv.Close()
					return nil, err
				}
				return func() []string {
					defer srv.Close()
					defer ep.Close()
					res := make([]string, len(l.built.Sections))
					for i, s := range l.built.Sections {
						func() {
							defer func() {
								if r := recover(); r != nil {
									res[i] = "panic"
								}
							}()
							got, err := ep.GetNodeByCid(ctx, s.Cid)
							res[i] = c13class(err, bytes.Equal(got, s.Data))
						}()
					}
					return res
				}, nil
			}})
	}
	// the same cuts seen by a client: a server with this epoch and a second, intact epoch loaded; getTransaction for
	// every signature and getBlock for every slot of this epoch through the JSON-RPC handler
	l2 := vBuildAndLoad(t, c10spec(2, 1314), true, cache)
	refBody := map[string]string{}
	{
		multi := NewMultiEpoch(&Options{EpochSearchConcurrency: 2})
		multi.AddEpoch(l.epoch.Epoch(), l.epoch)
		multi.AddEpoch(l2.epoch.Epoch(), l2.epoch)
		h := newMultiEpochHandler(multi, nil)
		for _, rq := range c13requests(l) {
			if _, body, p := vCall(h, rq.body); p == nil && c13classify(body, nil, rq.slot) == "same" {
				refBody[rq.body] = body
			}
		}
	}
	server := func(name string, set func(cfg *Config, p string)) c13Target {
		return c13Target{name: "server/" + name, path: map[string]string{"sig-exists": l.paths.SignatureExists, "sig-to-cid": l.paths.SignatureToCid,
			"slot-to-cid": l.paths.SlotToCid, "cid-to-offset-and-size": l.paths.CidToOffsetAndSize, "car": l.built.CarPath,
			"gsfa-linked-log": filepath.Join(l.gsfaDir, "linked-log"), "gsfa-pubkey": filepath.Join(l.gsfaDir, "pubkey-to-offset-and-size.index"),
			"gsfa-manifest": filepath.Join(l.gsfaDir, "manifest")}[name],
			disk: func(p string) (func() []string, error) {
				cfg := *l.cfg
				car := *l.cfg.Data.Car
				cfg.Data.Car = &car
				set(&cfg, p)
				ep, err := NewEpochFromConfig(&cfg, vCliCtx(), vSmallCache(t), nil)
				if err != nil {
					return nil, err
				}
				multi := NewMultiEpoch(&Options{EpochSearchConcurrency: 2})
				multi.AddEpoch(ep.Epoch(), ep)
				multi.AddEpoch(l2.epoch.Epoch(), l2.epoch)
				h := newMultiEpochHandler(multi, nil)
				return func() []string {
					defer ep.Close()
					var res []string
					for _, rq := range c13requests(l) {
						_, body, p := vCall(h, rq.body)
						c := c13classify(body, p, rq.slot)
						// the whole answer must equal the one the intact files give (a field silently missing - e.g. the
						// previous blockhash - is a different answer, not the same one)
						if want, ok := refBody[rq.body]; c == "same" && ok && want != body {
							c = "different"
						}
						res = append(res, c)
					}
					return res
				}, nil
			}}
	}
	targets = append(targets,
		server("sig-exists", func(cfg *Config, p string) { cfg.Indexes.SigExists.URI = URI(p) }),
		server("sig-to-cid", func(cfg *Config, p string) { cfg.Indexes.SigToCid.URI = URI(p) }),
		server("slot-to-cid", func(cfg *Config, p string) { cfg.Indexes.SlotToCid.URI = URI(p) }),
		server("cid-to-offset-and-size", func(cfg *Config, p string) { cfg.Indexes.CidToOffsetAndSize.URI = URI(p) }),
		server("car", func(cfg *Config, p string) { cfg.Data.Car.URI = URI(p) }),
		// (for the address-index files p is the cut file inside a copy of the directory)
		server("gsfa-linked-log", func(cfg *Config, p string) { cfg.Indexes.Gsfa.URI = URI(filepath.Dir(p)) }),
		server("gsfa-pubkey", func(cfg *Config, p string) { cfg.Indexes.Gsfa.URI = URI(filepath.Dir(p)) }),
		server("gsfa-manifest", func(cfg *Config, p string) { cfg.Indexes.Gsfa.URI = URI(filepath.Dir(p)) }))
	// every lookup pass is run twice on the same opened instance (a client retrying): an error in the first pass must not
	// turn into "not found" / another value in the second; per key the worse of the two answers is reported
	worse := func(a, b string) string {
		rank := map[string]int{"same": 0, "error": 1, "notfound": 2, "different": 3, "panic": 4}
		if rank[b] > rank[a] {
			return b
		}
		return a
	}
	for ti := range targets {
		tg := &targets[ti]
		if strings.HasPrefix(tg.name, "gsfa/") || tg.name == "car" || tg.name == "car-remote" || strings.HasPrefix(tg.name, "server/") {
			continue // (their lookup closures close what they opened after one pass)
		}
		wrap := func(open func() (func() []string, error)) (func() []string, error) {
			lk, err := open()
			if err != nil {
				return nil, err
			}
			return func() []string {
				r1 := lk()
				r2 := lk()
				for i := range r1 {
					if i < len(r2) {
						r1[i] = worse(r1[i], r2[i])
					}
				}
				return r1
			}, nil
		}
		if d := tg.disk; d != nil {
			tg.disk = func(p string) (func() []string, error) { return wrap(func() (func() []string, error) { return d(p) }) }
		}
		if ra := tg.ra; ra != nil {
			tg.ra = func(r io.ReaderAt, size int64) (func() []string, error) {
				return wrap(func() (func() []string, error) { return ra(r, size) })
			}
		}
	}
	scratch := t.TempDir()
	onlyFile, onlyCut := os.Getenv("VERIF_C13_FILE"), os.Getenv("VERIF_C13_CUT")
	for _, tg := range targets {
		if onlyFile != "" && tg.name != onlyFile {
			continue
		}
		full, err := os.ReadFile(tg.path)
		if err != nil {
			t.Fatalf("%s: %v", tg.name, err)
		}
		size := int64(len(full))
		var boundaries []int64
		// cuts inside a stored 8-byte hash of the sig-exists file (the buckets are sparse: a seeded sample of a 900 KiB file
		// practically never lands inside one of the few stored hashes)
		var insideHash []int64
		if tg.name == "sig-exists" || tg.name == "server/sig-exists" {
			nh := 8
			if !quick {
				nh = len(sigs)
			}
			for i, sg := range sigs {
				if i >= nh {
					break
				}
				var le [8]byte
				binary.LittleEndian.PutUint64(le[:], bucketteer.Hash(sg))
				if at := bytes.LastIndex(full, le[:]); at > 655000 {
					insideHash = append(insideHash, int64(at)+4)
				}
			}
		}
		if tg.name == "sig-exists" {
			boundaries = append([]int64{4, 12, 20, 655400}, insideHash...)
		}
		if tg.name == "slot-to-blocktime" {
			boundaries = []int64{8, 40, 44, size - 4, size - 3, size - 2, size - 1}
		}
		cuts := c13cuts(size, rng, boundaries, quick)
		if tg.name == "car-remote" && len(cuts) > 70 && quick {
			cuts = cuts[:70]
		}
		if (tg.name == "car" || tg.name == "car-remote") && !quick && len(cuts) > 2500 {
			// every cut loads an epoch: the first 600 offsets (header and first sections), the tail and a seeded sample
			head := append([]int64{}, cuts[:600]...)
			rest := cuts[600:]
			rng.Shuffle(len(rest), func(i, j int) { rest[i], rest[j] = rest[j], rest[i] })
			cuts = append(head, rest[:1900]...)
		}
		if strings.HasPrefix(tg.name, "server/") {
			// each cut loads an epoch: boundaries, a seeded sample and the tail of the file
			rng.Shuffle(len(cuts), func(i, j int) { cuts[i], cuts[j] = cuts[j], cuts[i] })
			n := 60
			if !quick {
				n = 600
			}
			if tg.name == "server/sig-exists" {
				// the bucket area lies behind the 655 KiB header: sample it
				cuts = nil
				for _, at := range insideHash {
					cuts = append(cuts, at-3, at+1) // one byte / five bytes of a stored hash left
				}
				for i := 0; i < n; i++ {
					cuts = append(cuts, 655400+rng.Int63n(size-655400))
				}
			}
			if len(cuts) > n {
				cuts = cuts[:n]
			}
		}
		if tg.name == "sig-exists" && len(cuts) > 120 && quick {
			cuts = cuts[:120] // opening this format parses a 65 536-entry header (~30 ms)
		}
		emit := func(cut int64, reader, flavour string, res []string, openErr error, maxread int64) {
			o := c13Obs{Kind: "trunc", File: tg.name, Size: size, Cut: cut, Reader: reader, Flavour: flavour, Keys: len(res), Maxread: maxread, OpenErr: openErr != nil, Removes: true}
			for i, r := range res {
				switch r {
				case "same":
					o.Same++
				case "error":
					o.Error++
				case "notfound":
					o.Notfound++
				case "different":
					o.Different++
				default:
					o.Panic++
				}
				if r != "same" && r != "error" && o.Example == "" {
					o.Example = fmt.Sprintf("key #%d: %s", i, r)
					if r == "panic" && c13LastPanic != "" {
						o.Example += " " + c13LastPanic
						if len(o.Example) > 300 {
							o.Example = o.Example[:300]
						}
					}
				}
			}
			out.Emit(o)
		}
		if onlyCut != "" {
			var c int64
			fmt.Sscan(onlyCut, &c)
			cuts = []int64{c}
		}
		for _, cut := range cuts {
			// (a) truncated copy on disk, opened the way the server does
			var p string
			if strings.HasPrefix(tg.name, "gsfa/") || strings.HasPrefix(tg.name, "server/gsfa-") {
				dir := filepath.Join(scratch, fmt.Sprintf("gsfa-%d", cut))
				os.MkdirAll(dir, 0o755)
				for _, f2 := range []string{"linked-log", "pubkey-to-offset-and-size.index", "manifest"} {
					b, _ := os.ReadFile(filepath.Join(l.gsfaDir, f2))
					if "gsfa/"+f2 == tg.name || filepath.Base(tg.path) == f2 && strings.HasPrefix(tg.name, "server/gsfa-") {
						b = b[:cut]
					}
					os.WriteFile(filepath.Join(dir, f2), b, 0o644)
				}
				p = filepath.Join(dir, filepath.Base(tg.path))
			} else {
				p = filepath.Join(scratch, fmt.Sprintf("cut-%d-%s", cut, filepath.Base(tg.path)))
				os.WriteFile(p, full[:cut], 0o644)
			}
			var res []string
			var oerr error
			if pm := vt.Guard(func() {
				lk, err := tg.disk(p)
				if err != nil {
					oerr = err
					return
				}
				res = lk()
			}); pm != "" {
				res = []string{"panic"}
			}
			emit(cut, "disk", "", res, oerr, -1)
			if strings.HasPrefix(tg.name, "gsfa/") || strings.HasPrefix(tg.name, "server/gsfa-") {
				os.RemoveAll(filepath.Dir(p))
			} else {
				os.Remove(p)
			}
			// (b) truncating ReaderAt, every flavour
			if tg.ra != nil {
				for _, fl := range []string{"short-eof", "short-unexpected", "zero-eof", "custom-error"} {
					r := &c13Reader{data: full, cut: cut, flavour: fl}
					var res []string
					var oerr error
					if pm := vt.Guard(func() {
						lk, err := tg.ra(r, cut)
						if err != nil {
							oerr = err
							return
						}
						res = lk()
					}); pm != "" {
						res = []string{"panic"}
					}
					emit(cut, "readerat", fl, res, oerr, r.maxEnd)
				}
			}
		}
	}
}
