package main

// C02 / C03 replayer (R3): TLC-generated multi-epoch archives -> real CARs + real indexes -> real Epochs loaded into a
// MultiEpoch in every chosen combination; every archived slot and signature (C02) and absent keys - every skipped
// slot, slots of epochs that are not loaded, random signatures, and keys whose 24-bit in-bucket hash collides with a
// stored key, found by searching with the index's own hash (C03) - are requested over JSON-RPC (in-memory
// fasthttp context) and through the gRPC methods. Responses are projected onto the Ledger vocabulary.

import (
	"bytes"
	"context"
	"encoding/base64"
	"encoding/json"
	"fmt"
	"github.com/valyala/fasthttp"
	"io"
	"math/rand"
	"os"
	"runtime"
	"sort"
	"strings"
	"sync"
	"testing"
	"time"

	"github.com/gagliardetto/solana-go"
	"github.com/ipfs/go-cid"
	"github.com/klauspost/compress/zstd"
	"github.com/mr-tron/base58"
	"github.com/rpcpool/yellowstone-faithful/compactindexsized"
	old_faithful_grpc "github.com/rpcpool/yellowstone-faithful/old-faithful-proto/old-faithful-grpc"
	"github.com/rpcpool/yellowstone-faithful/zzverif/fixture"
	"github.com/rpcpool/yellowstone-faithful/zzverif/vt"
	"google.golang.org/grpc"
	"google.golang.org/grpc/codes"
	"google.golang.org/grpc/status"
)

type rpcCall struct {
	Op        string   `json:"op"`
	Proto     string   `json:"proto"`
	Enc       string   `json:"enc"`
	Slot      int64    `json:"slot"`
	Sig       int      `json:"sig"`
	Status    string   `json:"status"`
	Parent    int64    `json:"parent"`
	Blocktime int64    `json:"blocktime"`
	Height    int64    `json:"height"`
	Blockhash [2]int64 `json:"blockhash"`
	Prev      [2]int64 `json:"prev"`
	Sigs      []int    `json:"sigs"`
	Txsame    bool     `json:"txsame"`
	Metasame  bool     `json:"metasame"`
	Pos       int64    `json:"pos"`
	Rsig      int      `json:"rsig"`
	Detail    string   `json:"detail"`
	Alias     bool     `json:"alias"` // absent key whose in-bucket hash equals a stored key's
}

type rpcObs struct {
	Kind   string    `json:"kind"`
	Case   int       `json:"case"`
	Arch   []aEpoch  `json:"arch"`
	Loaded []uint64  `json:"loaded"`
	Conc   int       `json:"conc"`
	Calls  []rpcCall `json:"calls"`
}

type rpcWorld struct {
	eps     []*loaded
	sigID   map[solana.Signature]int
	hashID  map[string][2]int64 // entry hash (raw bytes as string) -> <<slot, entry index>>
	truthTx map[int]*fixture.TxTruth
	truthBl map[uint64]*fixture.BlockTruth
}

func rpcBuildWorld(t *testing.T, a []aEpoch, seed int64) (*rpcWorld, string) {
	w := &rpcWorld{sigID: map[solana.Signature]int{}, hashID: map[string][2]int64{}, truthTx: map[int]*fixture.TxTruth{}, truthBl: map[uint64]*fixture.BlockTruth{}}
	cache := vCache(t) // one cache shared by every epoch, as in the server
	for i, ep := range a {
		l, err := vBuild(t, ep.spec(seed+int64(i)*17, 2+i%4), false)
		if err != nil {
			return nil, err.Error()
		}
		e, err := NewEpochFromConfig(l.cfg, vCliCtx(), cache, nil)
		if err != nil {
			return nil, "NewEpochFromConfig: " + err.Error()
		}
		l.epoch = e
		w.eps = append(w.eps, l)
		for _, bt := range l.built.Blocks {
			w.truthBl[bt.Spec.Slot] = bt
			for ei, h := range bt.EntryHashes {
				w.hashID[string(h)] = [2]int64{int64(bt.Spec.Slot), int64(ei + 1)}
			}
			for _, tt := range bt.Txs {
				w.sigID[tt.Sig] = tt.Spec.SigID
				w.truthTx[tt.Spec.SigID] = tt
			}
		}
	}
	return w, ""
}

func (w *rpcWorld) close() {
	for _, l := range w.eps {
		if l.epoch != nil {
			l.epoch.Close()
		}
		os.RemoveAll(strings.TrimSuffix(l.built.CarPath, "/"+lastPath(l.built.CarPath)))
	}
}

func lastPath(p string) string {
	i := strings.LastIndex(p, "/")
	return p[i+1:]
}

func (w *rpcWorld) hashOf(raw []byte) [2]int64 {
	if len(raw) == 0 {
		return [2]int64{-2, -2}
	}
	if id, ok := w.hashID[string(raw)]; ok {
		return id
	}
	return [2]int64{-1, -1}
}

func rpcDecodeTx(v any) ([]byte, string, bool) {
	switch x := v.(type) {
	case []any:
		if len(x) != 2 {
			return nil, "", false
		}
		data, _ := x[0].(string)
		enc, _ := x[1].(string)
		switch enc {
		case "base58":
			b, err := base58.Decode(data)
			return b, "", err == nil
		case "base64":
			b, err := base64.StdEncoding.DecodeString(data)
			return b, "", err == nil
		case "base64+zstd":
			z, err := base64.StdEncoding.DecodeString(data)
			if err != nil {
				return nil, "", false
			}
			d, _ := zstd.NewReader(nil)
			b, err := d.DecodeAll(z, nil)
			return b, "", err == nil
		}
		return nil, "", false
	case map[string]any: // "json" encoding
		sigs, _ := x["signatures"].([]any)
		if len(sigs) == 0 {
			return nil, "", false
		}
		s, _ := sigs[0].(string)
		return nil, s, true
	}
	return nil, "", false
}

// metaOK projects the JSON metadata onto what the archive recorded
func rpcMetaOK(meta any, tt *fixture.TxTruth) bool {
	m, isObj := meta.(map[string]any)
	if tt.Spec.NoMeta {
		// no metadata archived: the answer says so (null) - a metadata object would state a status, a fee and balances that
		// the archive does not hold
		return meta == nil
	}
	if !isObj {
		return false
	}
	errv, has := m["err"]
	if tt.Spec.Failed != (has && errv != nil) {
		return false
	}
	if fee, ok := m["fee"].(float64); !ok || fee != 5000 {
		return false
	}
	if tt.TokenUi != 0 {
		// numbers survive digit for digit
		ui := func(key string) (float64, string, bool) {
			arr, _ := m[key].([]any)
			if len(arr) != 1 {
				return 0, "", false
			}
			tb, _ := arr[0].(map[string]any)
			uta, _ := tb["uiTokenAmount"].(map[string]any)
			f, ok := uta["uiAmount"].(float64)
			str, _ := uta["uiAmountString"].(string)
			return f, str, ok
		}
		pre, pres, ok1 := ui("preTokenBalances")
		post, _, ok2 := ui("postTokenBalances")
		if !ok1 || !ok2 || pre != tt.TokenUi || post != tt.TokenUi+1e-9 || pres != fmt.Sprintf("%.9f", tt.TokenUi) {
			return false
		}
		if cu, ok := m["computeUnitsConsumed"].(float64); !ok || uint64(cu) != tt.ComputeUnits {
			return false
		}
	}
	if len(tt.Loaded) > 0 {
		la, _ := m["loadedAddresses"].(map[string]any)
		wr, _ := la["writable"].([]any)
		if len(wr) != len(tt.Loaded) {
			return false
		}
		for i, a := range wr {
			if s, _ := a.(string); s != tt.Loaded[i].String() {
				return false
			}
		}
	}
	return true
}

func (w *rpcWorld) sigIDOfTx(raw []byte, sigStr string) int {
	var sig solana.Signature
	if raw != nil {
		if len(raw) < 65 {
			return -1
		}
		copy(sig[:], raw[1:65])
	} else {
		s, err := solana.SignatureFromBase58(sigStr)
		if err != nil {
			return -1
		}
		sig = s
	}
	if id, ok := w.sigID[sig]; ok {
		return id
	}
	return -1
}

func rpcStatusFromJSONError(e map[string]any) (string, string) {
	msg, _ := e["message"].(string)
	code, _ := e["code"].(float64)
	switch {
	case strings.Contains(msg, "is not available"):
		return "unavailable", msg
	case int(code) == CodeNotFound:
		return "notfound", msg
	default:
		return "error", fmt.Sprintf("%v %s", code, msg)
	}
}

func (w *rpcWorld) jsonGetBlock(h func(body string) (int, string, any), slot uint64, enc string) rpcCall {
	c := rpcCall{Op: "getBlock", Proto: "json", Enc: enc, Slot: int64(slot), Sigs: []int{}, Blockhash: [2]int64{-2, -2}, Prev: [2]int64{-2, -2}, Height: -1}
	st, out, p := h(fmt.Sprintf(`{"jsonrpc":"2.0","id":1,"method":"getBlock","params":[%d,{"encoding":"%s","maxSupportedTransactionVersion":0}]}`, slot, enc))
	if p != nil {
		c.Status, c.Detail = "panic", fmt.Sprint(p)
		return c
	}
	var resp struct {
		Result map[string]any `json:"result"`
		Error  map[string]any `json:"error"`
	}
	if err := json.Unmarshal([]byte(out), &resp); err != nil {
		c.Status, c.Detail = "error", fmt.Sprintf("http %d, unparsable body %.80q", st, out)
		return c
	}
	if resp.Error != nil {
		c.Status, c.Detail = rpcStatusFromJSONError(resp.Error)
		return c
	}
	if resp.Result == nil {
		c.Status, c.Detail = "notfound", "null result"
		return c
	}
	r := resp.Result
	c.Status = "ok"
	if v, ok := r["parentSlot"].(float64); ok {
		c.Parent = int64(v)
	}
	if v, ok := r["blockTime"].(float64); ok {
		c.Blocktime = int64(v)
	}
	if v, ok := r["blockHeight"].(float64); ok {
		c.Height = int64(v)
	}
	if s, ok := r["blockhash"].(string); ok {
		b, _ := base58.Decode(s)
		c.Blockhash = w.hashOf(b)
	}
	if s, ok := r["previousBlockhash"].(string); ok && s != "" {
		b, _ := base58.Decode(s)
		c.Prev = w.hashOf(b)
	}
	c.Txsame, c.Metasame = true, true
	if bt := w.truthBl[slot]; bt != nil {
		// rewards: the archived list, entry for entry (pubkey, lamports, post balance)
		got, _ := r["rewards"].([]any)
		ok := len(got) == len(bt.RewardList)
		for i := 0; ok && i < len(got); i++ {
			m, _ := got[i].(map[string]any)
			lam, _ := m["lamports"].(float64)
			pb, _ := m["postBalance"].(float64)
			ok = m["pubkey"] == bt.RewardList[i].Pubkey && int64(lam) == bt.RewardList[i].Lamports && uint64(pb) == bt.RewardList[i].PostBalance
		}
		if !ok {
			c.Metasame = false
			c.Detail += fmt.Sprintf("rewards: %d entries, archived %d (or an entry differs); ", len(got), len(bt.RewardList))
		}
	}
	txs, _ := r["transactions"].([]any)
	for _, x := range txs {
		m, _ := x.(map[string]any)
		raw, sigStr, ok := rpcDecodeTx(m["transaction"])
		if !ok {
			c.Txsame = false
			c.Sigs = append(c.Sigs, -1)
			continue
		}
		id := w.sigIDOfTx(raw, sigStr)
		c.Sigs = append(c.Sigs, id)
		tt := w.truthTx[id]
		if tt == nil {
			c.Txsame = false
			continue
		}
		if raw != nil && !bytes.Equal(raw, tt.TxBytes) {
			c.Txsame = false
		}
		if !rpcMetaOK(m["meta"], tt) {
			c.Metasame = false
		}
	}
	return c
}

func (w *rpcWorld) jsonGetTransaction(h func(body string) (int, string, any), sig solana.Signature, sigID int, enc string) rpcCall {
	c := rpcCall{Op: "getTransaction", Proto: "json", Enc: enc, Sig: sigID, Sigs: []int{}, Pos: -1, Rsig: -1}
	st, out, p := h(fmt.Sprintf(`{"jsonrpc":"2.0","id":1,"method":"getTransaction","params":["%s",{"encoding":"%s","maxSupportedTransactionVersion":0}]}`, sig, enc))
	if p != nil {
		c.Status, c.Detail = "panic", fmt.Sprint(p)
		return c
	}
	var resp struct {
		Result map[string]any `json:"result"`
		Error  map[string]any `json:"error"`
	}
	if err := json.Unmarshal([]byte(out), &resp); err != nil {
		c.Status, c.Detail = "error", fmt.Sprintf("http %d, unparsable body %.80q", st, out)
		return c
	}
	if resp.Error != nil {
		c.Status, c.Detail = rpcStatusFromJSONError(resp.Error)
		return c
	}
	if resp.Result == nil {
		c.Status = "notfound"
		return c
	}
	r := resp.Result
	c.Status = "ok"
	if v, ok := r["slot"].(float64); ok {
		c.Slot = int64(v)
	}
	if v, ok := r["blockTime"].(float64); ok {
		c.Blocktime = int64(v)
	}
	raw, sigStr, ok := rpcDecodeTx(r["transaction"])
	if !ok {
		return c
	}
	c.Rsig = w.sigIDOfTx(raw, sigStr)
	tt := w.truthTx[c.Rsig]
	if tt != nil {
		c.Txsame = raw == nil || bytes.Equal(raw, tt.TxBytes)
		c.Metasame = rpcMetaOK(r["meta"], tt)
	}
	return c
}

func rpcGrpcStatus(err error) (string, string) {
	s, _ := status.FromError(err)
	switch {
	case s.Code() == codes.NotFound && strings.Contains(s.Message(), "is not available"):
		return "unavailable", s.Message()
	case s.Code() == codes.NotFound:
		return "notfound", s.Message()
	default:
		return "error", s.Code().String() + ": " + s.Message()
	}
}

func (w *rpcWorld) grpcGetBlock(multi *MultiEpoch, slot uint64) rpcCall {
	c := rpcCall{Op: "getBlock", Proto: "grpc", Slot: int64(slot), Sigs: []int{}, Blockhash: [2]int64{-2, -2}, Prev: [2]int64{-2, -2}}
	var resp *old_faithful_grpc.BlockResponse
	var err error
	if p := vt.Guard(func() { resp, err = multi.GetBlock(context.Background(), &old_faithful_grpc.BlockRequest{Slot: slot}) }); p != "" {
		c.Status, c.Detail = "panic", p
		return c
	}
	if err != nil {
		c.Status, c.Detail = rpcGrpcStatus(err)
		return c
	}
	w.fillBlock(&c, resp, slot)
	return c
}

func (w *rpcWorld) fillBlock(c *rpcCall, resp *old_faithful_grpc.BlockResponse, slot uint64) {
	c.Status = "ok"
	c.Parent, c.Blocktime, c.Height = int64(resp.ParentSlot), resp.BlockTime, int64(resp.BlockHeight)
	c.Blockhash, c.Prev = w.hashOf(resp.Blockhash), w.hashOf(resp.PreviousBlockhash)
	if int64(resp.Slot) != int64(slot) {
		c.Detail = fmt.Sprintf("response slot %d", resp.Slot)
		c.Txsame = false
	} else {
		c.Txsame = true
	}
	c.Metasame = true
	if bt := w.truthBl[slot]; bt != nil && !bytes.Equal(resp.Rewards, bt.Rewards) {
		// (metasame also stands for the block's rewards: the uncompressed rewards payload, byte for byte)
		c.Metasame = false
		c.Detail += fmt.Sprintf("rewards: %d bytes, archived %d bytes; ", len(resp.Rewards), len(bt.Rewards))
	}
	for i, tx := range resp.Transactions {
		id := w.sigIDOfTx(tx.Transaction, "")
		c.Sigs = append(c.Sigs, id)
		tt := w.truthTx[id]
		if tt == nil || !bytes.Equal(tx.Transaction, tt.TxBytes) || tx.Index == nil || int(*tx.Index) != i {
			c.Txsame = false
			continue
		}
		if !bytes.Equal(tx.Meta, tt.Meta) {
			c.Metasame = false
		}
	}
}

func (w *rpcWorld) grpcGetTransaction(multi *MultiEpoch, sig solana.Signature, sigID int) rpcCall {
	c := rpcCall{Op: "getTransaction", Proto: "grpc", Sig: sigID, Sigs: []int{}, Pos: -1, Rsig: -1}
	var resp *old_faithful_grpc.TransactionResponse
	var err error
	if p := vt.Guard(func() {
		resp, err = multi.GetTransaction(context.Background(), &old_faithful_grpc.TransactionRequest{Signature: sig[:]})
	}); p != "" {
		c.Status, c.Detail = "panic", p
		return c
	}
	if err != nil {
		c.Status, c.Detail = rpcGrpcStatus(err)
		return c
	}
	w.fillTx(&c, resp)
	return c
}

func (w *rpcWorld) fillTx(c *rpcCall, resp *old_faithful_grpc.TransactionResponse) {
	c.Status = "ok"
	c.Slot, c.Blocktime = int64(resp.Slot), resp.BlockTime
	if resp.Index != nil {
		c.Pos = int64(*resp.Index)
	}
	if resp.Transaction != nil {
		c.Rsig = w.sigIDOfTx(resp.Transaction.Transaction, "")
		if tt := w.truthTx[c.Rsig]; tt != nil {
			c.Txsame = bytes.Equal(resp.Transaction.Transaction, tt.TxBytes)
			c.Metasame = bytes.Equal(resp.Transaction.Meta, tt.Meta)
		}
	}
}

// rpcGetStream: the bidirectional gRPC Get stream is a sequence of unary calls - one response per request, in request
// order, with the request's id, of the request's kind (or an in-band error: NOT_FOUND exactly when the unary call says
// NotFound). Every response is projected like the unary one (and judged by the same CallOK); a response that is missing,
// out of order, of another kind or carries another id is recorded as status "error".
type rpcGetStream struct {
	grpc.ServerStream
	reqs []*old_faithful_grpc.GetRequest
	i    int
	sent []*old_faithful_grpc.GetResponse
}

func (s *rpcGetStream) Context() context.Context { return context.Background() }
func (s *rpcGetStream) Send(r *old_faithful_grpc.GetResponse) error {
	s.sent = append(s.sent, r)
	return nil
}
func (s *rpcGetStream) Recv() (*old_faithful_grpc.GetRequest, error) {
	if s.i >= len(s.reqs) {
		return nil, io.EOF
	}
	s.i++
	return s.reqs[s.i-1], nil
}

type rpcGetItem struct {
	op    string
	slot  uint64
	sig   solana.Signature
	sigID int
}

func (w *rpcWorld) grpcGet(multi *MultiEpoch, items []rpcGetItem, idBase uint64) []rpcCall {
	st := &rpcGetStream{}
	for k, it := range items {
		r := &old_faithful_grpc.GetRequest{Id: idBase + uint64(k)*3}
		switch it.op {
		case "getBlock":
			r.Request = &old_faithful_grpc.GetRequest_Block{Block: &old_faithful_grpc.BlockRequest{Slot: it.slot}}
		case "getBlockTime":
			r.Request = &old_faithful_grpc.GetRequest_BlockTime{BlockTime: &old_faithful_grpc.BlockTimeRequest{Slot: it.slot}}
		default:
			sg := it.sig
			r.Request = &old_faithful_grpc.GetRequest_Transaction{Transaction: &old_faithful_grpc.TransactionRequest{Signature: sg[:]}}
		}
		st.reqs = append(st.reqs, r)
	}
	var err error
	pan := vt.Guard(func() { err = multi.Get(st) })
	out := make([]rpcCall, 0, len(items))
	for k, it := range items {
		c := rpcCall{Op: it.op, Proto: "grpc", Slot: int64(it.slot), Sig: it.sigID, Sigs: []int{}, Pos: -1, Rsig: -1, Blockhash: [2]int64{-2, -2}, Prev: [2]int64{-2, -2}}
		if it.op == "getTransaction" {
			c.Slot = 0
		}
		switch {
		case pan != "":
			c.Status, c.Detail = "panic", "Get stream: "+pan
		case k >= len(st.sent):
			c.Status, c.Detail = "error", fmt.Sprintf("Get stream: %d responses for %d requests (stream ended with %v)", len(st.sent), len(items), err)
		case st.sent[k].Id != st.reqs[k].Id:
			c.Status, c.Detail = "error", fmt.Sprintf("Get stream: response %d carries id %d, request id %d", k, st.sent[k].Id, st.reqs[k].Id)
		default:
			switch r := st.sent[k].Response.(type) {
			case *old_faithful_grpc.GetResponse_Error:
				if r.Error.GetCode() == old_faithful_grpc.GetResponseErrorCode_NOT_FOUND {
					c.Status = "notfound"
				} else {
					c.Status = "error"
				}
				c.Detail = "Get stream: " + r.Error.GetMessage()
			case *old_faithful_grpc.GetResponse_Block:
				if it.op != "getBlock" {
					c.Status, c.Detail = "error", "Get stream: block response to a "+it.op+" request"
				} else {
					w.fillBlock(&c, r.Block, it.slot)
				}
			case *old_faithful_grpc.GetResponse_Transaction:
				if it.op != "getTransaction" {
					c.Status, c.Detail = "error", "Get stream: transaction response to a "+it.op+" request"
				} else {
					w.fillTx(&c, r.Transaction)
				}
			case *old_faithful_grpc.GetResponse_BlockTime:
				if it.op != "getBlockTime" {
					c.Status, c.Detail = "error", "Get stream: block-time response to a "+it.op+" request"
				} else {
					c.Status, c.Blocktime = "ok", r.BlockTime.GetBlockTime()
				}
			default:
				c.Status, c.Detail = "error", fmt.Sprintf("Get stream: response of kind %T", r)
			}
		}
		out = append(out, c)
	}
	if len(st.sent) > len(items) && len(out) > 0 {
		out[len(out)-1].Status, out[len(out)-1].Detail = "error", fmt.Sprintf("Get stream: %d responses for %d requests", len(st.sent), len(items))
	}
	return out
}

func (w *rpcWorld) blockTime(h func(body string) (int, string, any), multi *MultiEpoch, slot uint64, proto string) rpcCall {
	c := rpcCall{Op: "getBlockTime", Proto: proto, Slot: int64(slot), Sigs: []int{}}
	if proto == "grpc" {
		var resp *old_faithful_grpc.BlockTimeResponse
		var err error
		if p := vt.Guard(func() {
			resp, err = multi.GetBlockTime(context.Background(), &old_faithful_grpc.BlockTimeRequest{Slot: slot})
		}); p != "" {
			c.Status, c.Detail = "panic", p
		} else if err != nil {
			c.Status, c.Detail = rpcGrpcStatus(err)
		} else {
			c.Status, c.Blocktime = "ok", resp.BlockTime
		}
		return c
	}
	_, out, p := h(fmt.Sprintf(`{"jsonrpc":"2.0","id":1,"method":"getBlockTime","params":[%d]}`, slot))
	if p != nil {
		c.Status, c.Detail = "panic", fmt.Sprint(p)
		return c
	}
	var resp struct {
		Result *int64         `json:"result"`
		Error  map[string]any `json:"error"`
	}
	if err := json.Unmarshal([]byte(out), &resp); err != nil {
		c.Status = "error"
	} else if resp.Error != nil {
		c.Status, c.Detail = rpcStatusFromJSONError(resp.Error)
	} else if resp.Result == nil {
		c.Status = "notfound"
	} else {
		c.Status, c.Blocktime = "ok", *resp.Result
	}
	return c
}

// REST endpoints /api/v1/slot-to-cid/{slot} and /api/v1/sig-to-cid/{sig}: 200 + the CID of the block / transaction, 404 when
// the key is not served (growth beyond the listed properties: the same "reproduce the archive" reading)
func (w *rpcWorld) apiCid(handler func(*fasthttp.RequestCtx), op string, slot uint64, sig solana.Signature, sigID int, truth cid.Cid) rpcCall {
	c := rpcCall{Op: op, Proto: "rest", Slot: int64(slot), Sig: sigID, Sigs: []int{}}
	path := fmt.Sprintf("/api/v1/slot-to-cid/%d", slot)
	if op == "api.sig-to-cid" {
		path = "/api/v1/sig-to-cid/" + sig.String()
	}
	var rc fasthttp.RequestCtx
	var rq fasthttp.Request
	rq.Header.SetMethod("GET")
	rq.SetRequestURI(path)
	rc.Init(&rq, nil, nil)
	if p := vt.Guard(func() { handler(&rc) }); p != "" {
		c.Status, c.Detail = "panic", p
		return c
	}
	switch st := rc.Response.StatusCode(); {
	case st == 200:
		c.Status = "ok"
		c.Txsame = truth.Defined() && string(rc.Response.Body()) == truth.String()
	case st == 404:
		c.Status = "notfound"
	default:
		c.Status, c.Detail = "error", fmt.Sprintf("http %d", st)
	}
	return c
}

// getSlot / getFirstAvailableBlock (JSON-RPC only): the newest / oldest archived slot of the loaded epochs
func (w *rpcWorld) edgeSlot(h func(body string) (int, string, any), method string) rpcCall {
	c := rpcCall{Op: method, Proto: "json", Slot: -1, Sigs: []int{}}
	_, out, p := h(fmt.Sprintf(`{"jsonrpc":"2.0","id":1,"method":"%s","params":[]}`, method))
	if p != nil {
		c.Status, c.Detail = "panic", fmt.Sprint(p)
		return c
	}
	var resp struct {
		Result *int64         `json:"result"`
		Error  map[string]any `json:"error"`
	}
	if err := json.Unmarshal([]byte(out), &resp); err != nil {
		c.Status = "error"
	} else if resp.Error != nil {
		c.Status, c.Detail = rpcStatusFromJSONError(resp.Error)
	} else if resp.Result == nil {
		c.Status = "notfound"
	} else {
		c.Status, c.Slot = "ok", *resp.Result
	}
	return c
}

// mainnet-beta's genesis hash (public constant; the genesis archive every epoch-0 configuration of the fixture points at)
const rpcMainnetGenesisHash = "5eykt4UsFv8P8NJdTREpY1vzqKqZKvdpKuc147dw2N9d"

// getGenesisHash: answered from epoch 0's genesis configuration, available exactly when epoch 0 is loaded
func (w *rpcWorld) genesisHash(h func(body string) (int, string, any)) rpcCall {
	c := rpcCall{Op: "getGenesisHash", Proto: "json", Slot: -1, Sigs: []int{}}
	_, out, p := h(`{"jsonrpc":"2.0","id":1,"method":"getGenesisHash","params":[]}`)
	if p != nil {
		c.Status, c.Detail = "panic", fmt.Sprint(p)
		return c
	}
	var resp struct {
		Result *string        `json:"result"`
		Error  map[string]any `json:"error"`
	}
	if err := json.Unmarshal([]byte(out), &resp); err != nil {
		c.Status = "error"
	} else if resp.Error != nil {
		c.Status, c.Detail = rpcStatusFromJSONError(resp.Error)
	} else if resp.Result == nil {
		c.Status = "notfound"
	} else {
		c.Status, c.Txsame, c.Detail = "ok", *resp.Result == rpcMainnetGenesisHash, *resp.Result
	}
	return c
}

// getNode: Epoch.GetNodeByCid for a CID of epoch i (stored: section index >= 0) or an absent CID
func (w *rpcWorld) getNode(i int, c cid.Cid, section int, alias bool) rpcCall {
	call := rpcCall{Op: "getNode", Proto: "epoch", Slot: int64(w.eps[i].built.Spec.Epoch), Sig: section, Sigs: []int{}, Alias: alias}
	var got []byte
	var err error
	if p := vt.Guard(func() { got, err = w.eps[i].epoch.GetNodeByCid(context.Background(), c) }); p != "" {
		call.Status, call.Detail = "panic", p
		return call
	}
	if err != nil {
		call.Status, call.Detail = "notfound", err.Error()
		if len(call.Detail) > 120 {
			call.Detail = call.Detail[:120]
		}
		return call
	}
	call.Status = "ok"
	if section >= 0 {
		call.Txsame = bytes.Equal(got, w.eps[i].built.Sections[section].Data)
	}
	return call
}

// getNodesRetained fetches every stored object of epoch i by CID; the returned bytes are compared only after the whole pass
// and after a concurrent pass over the same objects (bytes handed out for one CID must never turn into another object's)
func (w *rpcWorld) getNodesRetained(i int) []rpcCall {
	secs := w.eps[i].built.Sections
	ep := w.eps[i].epoch
	kept := make([][]byte, len(secs))
	errs := make([]error, len(secs))
	panicked := vt.Guard(func() {
		for k, sec := range secs {
			kept[k], errs[k] = ep.GetNodeByCid(context.Background(), sec.Cid)
		}
	})
	bad := make([]bool, len(secs))
	var wg sync.WaitGroup
	for g := 0; g < 4; g++ {
		wg.Add(1)
		go func(g int) {
			defer wg.Done()
			defer func() { recover() }()
			for k := g % 2; k < len(secs); k += 2 {
				got, err := ep.GetNodeByCid(context.Background(), secs[k].Cid)
				if err == nil && !bytes.Equal(got, secs[k].Data) {
					bad[k] = true
				}
			}
		}(g)
	}
	wg.Wait()
	var calls []rpcCall
	for k := range secs {
		call := rpcCall{Op: "getNode", Proto: "epoch", Slot: int64(w.eps[i].built.Spec.Epoch), Sig: k, Sigs: []int{}}
		switch {
		case panicked != "":
			call.Status, call.Detail = "panic", panicked
		case errs[k] != nil:
			call.Status, call.Detail = "notfound", errs[k].Error()
			if len(call.Detail) > 120 {
				call.Detail = call.Detail[:120]
			}
		default:
			call.Status = "ok"
			call.Txsame = bytes.Equal(kept[k], secs[k].Data) && !bad[k]
		}
		calls = append(calls, call)
	}
	return calls
}

func (w *rpcWorld) multi(loadedIdx []int, conc int) (*MultiEpoch, []uint64) {
	multi := NewMultiEpoch(&Options{EpochSearchConcurrency: conc})
	var nums []uint64
	for _, i := range loadedIdx {
		multi.AddEpoch(w.eps[i].built.Spec.Epoch, w.eps[i].epoch)
		nums = append(nums, w.eps[i].built.Spec.Epoch)
	}
	return multi, nums
}

func rpcSubsets(n int) [][]int {
	var out [][]int
	for m := 1; m < 1<<n; m++ {
		var s []int
		for i := 0; i < n; i++ {
			if m&(1<<i) != 0 {
				s = append(s, i)
			}
		}
		out = append(out, s)
	}
	return out
}

var rpcEncodings = []string{"base58", "base64", "base64+zstd", "json"}

// TestVerifC02: every archived slot and signature, every loaded-epoch combination, every encoding, several concurrencies
func TestVerifC02(t *testing.T) {
	out := vt.Out(t)
	defer out.Close()
	rng := vt.Rand()
	concs := []int{-1, 1, 2, runtime.NumCPU()}
	for ci, raw := range vt.Cases(t) {
		var a aArch
		if err := json.Unmarshal(raw, &a); err != nil {
			t.Fatal(err)
		}
		w, e := rpcBuildWorld(t, a.Arch, vt.Seed()*1000+int64(ci))
		if e != "" {
			t.Fatalf("case %d: cannot build the archive: %s", ci+1, e)
		}
		// every second archive is served by ONE long-lived MultiEpoch that walks through the loaded-epoch combinations
		// (epochs added with AddEpoch or ReplaceOrAddEpoch, removed with RemoveEpoch, queries in every state): what a
		// request is answered with may depend on the loaded set only, not on how the server got there
		live := NewMultiEpoch(&Options{EpochSearchConcurrency: concs[ci%len(concs)]})
		cur := map[int]bool{}
		subsets := rpcSubsets(len(a.Arch))
		if ci%2 == 0 {
			// the walk starts with a growing chain {0}, {0,1}, {0,1,2}, ... (pure additions after queries), then visits the rest
			var chain, rest [][]int
			for n := 1; n <= len(a.Arch); n++ {
				var s []int
				for i := 0; i < n; i++ {
					s = append(s, i)
				}
				chain = append(chain, s)
			}
			for _, s := range subsets {
				isChain := true
				for k, v := range s {
					isChain = isChain && v == k
				}
				if !isChain {
					rest = append(rest, s)
				}
			}
			subsets = append(chain, rest...)
		}
		adds := 0
		for si, sub := range subsets {
			conc := concs[(ci+si)%len(concs)]
			var multi *MultiEpoch
			var nums []uint64
			if ci%2 == 0 {
				want := map[int]bool{}
				for _, i := range sub {
					want[i] = true
				}
				for i := range cur {
					if !want[i] {
						live.RemoveEpoch(w.eps[i].built.Spec.Epoch)
						delete(cur, i)
					}
				}
				for _, i := range sub {
					if !cur[i] {
						if adds == 0 || (si >= len(a.Arch) && adds%2 == 0) {
							live.AddEpoch(w.eps[i].built.Spec.Epoch, w.eps[i].epoch)
						} else {
							live.ReplaceOrAddEpoch(w.eps[i].built.Spec.Epoch, w.eps[i].epoch)
						}
						adds++
						cur[i] = true
					}
					nums = append(nums, w.eps[i].built.Spec.Epoch)
				}
				multi, conc = live, concs[ci%len(concs)]
			} else {
				multi, nums = w.multi(sub, conc)
			}
			handler := newMultiEpochHandler(multi, nil)
			h := func(body string) (int, string, any) { return vCall(handler, body) }
			o := rpcObs{Kind: "rpc", Case: ci + 1, Arch: a.Arch, Loaded: nums, Conc: conc}
			k := 0
			for _, i := range sub {
				for _, bt := range w.eps[i].built.Blocks {
					enc := rpcEncodings[(k+rng.Intn(2))%len(rpcEncodings)]
					k++
					o.Calls = append(o.Calls, w.jsonGetBlock(h, bt.Spec.Slot, enc), w.grpcGetBlock(multi, bt.Spec.Slot))
					o.Calls = append(o.Calls, w.blockTime(h, multi, bt.Spec.Slot, "json"), w.blockTime(h, multi, bt.Spec.Slot, "grpc"))
					o.Calls = append(o.Calls, w.apiCid(handler, "api.slot-to-cid", bt.Spec.Slot, solana.Signature{}, 0, bt.Cid))
					for _, tt := range bt.Txs {
						enc := rpcEncodings[k%len(rpcEncodings)]
						k++
						o.Calls = append(o.Calls, w.jsonGetTransaction(h, tt.Sig, tt.Spec.SigID, enc), w.grpcGetTransaction(multi, tt.Sig, tt.Spec.SigID))
						o.Calls = append(o.Calls, w.apiCid(handler, "api.sig-to-cid", 0, tt.Sig, tt.Spec.SigID, tt.Cid))
					}
				}
			}
			o.Calls = append(o.Calls, w.edgeSlot(h, "getSlot"), w.edgeSlot(h, "getFirstAvailableBlock"), w.genesisHash(h))
			// the same keys through one bidirectional Get stream (archived keys interleaved with absent ones: an in-band error
			// must not end or shift the stream)
			{
				var items []rpcGetItem
				for _, i := range sub {
					for bi, bt := range w.eps[i].built.Blocks {
						items = append(items, rpcGetItem{op: "getBlock", slot: bt.Spec.Slot}, rpcGetItem{op: "getBlockTime", slot: bt.Spec.Slot})
						if bi%2 == 0 {
							items = append(items, rpcGetItem{op: "getTransaction", sig: fixture.Sig(4242, bi), sigID: 2_000_000 + bi})
						}
						for _, tt := range bt.Txs {
							items = append(items, rpcGetItem{op: "getTransaction", sig: tt.Sig, sigID: tt.Spec.SigID})
						}
					}
				}
				if len(items) > 300 {
					items = items[:300]
				}
				o.Calls = append(o.Calls, w.grpcGet(multi, items, uint64(si))...)
			}
			// the same archived keys again, from eight clients at once: a request answers the same whoever else is being
			// served (every concurrent answer is judged like the sequential ones)
			{
				type job func() rpcCall
				var jobs []job
				for _, i := range sub {
					for _, bt := range w.eps[i].built.Blocks {
						slot := bt.Spec.Slot
						jobs = append(jobs, func() rpcCall { return w.grpcGetBlock(multi, slot) }, func() rpcCall { return w.jsonGetBlock(h, slot, "base64") })
						for _, tt := range bt.Txs {
							sg, id := tt.Sig, tt.Spec.SigID
							jobs = append(jobs, func() rpcCall { return w.grpcGetTransaction(multi, sg, id) })
						}
					}
				}
				if len(jobs) > 400 {
					jobs = jobs[:400]
				}
				res := make([][]rpcCall, 8)
				var wg sync.WaitGroup
				for g := 0; g < 8; g++ {
					wg.Add(1)
					go func(g int) {
						defer wg.Done()
						for k := g % 2; k < len(jobs); k += 2 {
							res[g] = append(res[g], jobs[k]())
						}
					}(g)
				}
				wg.Wait()
				bad := 0
				for g := range res {
					for _, c := range res[g] {
						if c.Status != "ok" || !c.Txsame || !c.Metasame {
							if bad < 20 {
								c.Detail = "concurrent clients: " + c.Detail
								o.Calls = append(o.Calls, c)
							}
							bad++
						}
					}
				}
			}
			out.Emit(o)
		}
		w.close()
	}
}

// TestVerifC02Big: one block whose CAR span (from its parent block's node to its own) exceeds 10 MiB - the size at which the
// getBlock handlers stop prefetching the span in one read. getBlock (gRPC and JSON-RPC) and getTransaction of transactions
// at the start, in the middle and at the end of the block, each asked twice (the second answer comes out of the caches the
// first one filled).
func TestVerifC02Big(t *testing.T) {
	out := vt.Out(t)
	defer out.Close()
	var txs []aTx
	for i := 0; i < 660; i++ {
		txs = append(txs, aTx{Sig: i + 3, Accts: []int{1 + i%3}, Loaded: []int{}, Dframes: 1, Mframes: 1, Pad: 2})
	}
	ep := aEpoch{Epoch: 1, Blocks: []aBlock{
		{Slot: 432002, Parent: 431999, Blocktime: 1600000002, Height: -1, Entries: []aEntry{{Txs: []aTx{{Sig: 1, Accts: []int{1}, Loaded: []int{}, Dframes: 1, Mframes: 1}}}}},
		{Slot: 432003, Parent: 432002, Blocktime: 1600000003, Height: -1, Entries: []aEntry{{Txs: txs}}},
		{Slot: 432005, Parent: 432003, Blocktime: 1600000005, Height: -1, Entries: []aEntry{{Txs: []aTx{{Sig: 2, Accts: []int{2}, Loaded: []int{}, Dframes: 1, Mframes: 1}}}}},
	}}
	w, e := rpcBuildWorld(t, []aEpoch{ep}, vt.Seed()+4100)
	if e != "" {
		t.Fatalf("cannot build the archive: %s", e)
	}
	defer w.close()
	multi, nums := w.multi([]int{0}, 2)
	handler := newMultiEpochHandler(multi, nil)
	h := func(body string) (int, string, any) { return vCall(handler, body) }
	o := rpcObs{Kind: "rpc", Case: 1, Arch: []aEpoch{ep}, Loaded: nums, Conc: 2}
	big := w.eps[0].built.Blocks[1]
	for pass := 0; pass < 2; pass++ {
		for _, bt := range w.eps[0].built.Blocks {
			o.Calls = append(o.Calls, w.grpcGetBlock(multi, bt.Spec.Slot), w.jsonGetBlock(h, bt.Spec.Slot, "base64"))
		}
		for _, k := range []int{0, 1, len(big.Txs) / 2, len(big.Txs) - 2, len(big.Txs) - 1} {
			tt := big.Txs[k]
			o.Calls = append(o.Calls, w.grpcGetTransaction(multi, tt.Sig, tt.Spec.SigID), w.jsonGetTransaction(h, tt.Sig, tt.Spec.SigID, "base64"))
		}
	}
	out.Emit(o)
}

// rpcAliases searches absent keys whose in-bucket hash equals that of a stored key, with the index's own hash
func rpcAliases(path string, stored map[string]bool, gen func(i int) []byte, budget int, want int) [][]byte {
	f, err := os.Open(path)
	if err != nil {
		return nil
	}
	defer f.Close()
	db, err := compactindexsized.Open(f)
	if err != nil {
		return nil
	}
	type bk struct {
		b      *compactindexsized.Bucket
		hashes map[uint64]bool
	}
	cache := map[uint]*bk{}
	var out [][]byte
	for i := 0; i < budget && len(out) < want; i++ {
		key := gen(i)
		if key == nil {
			break
		}
		if stored[string(key)] {
			continue
		}
		bi := db.Header.BucketHash(key)
		c := cache[bi]
		if c == nil {
			b, err := db.GetBucket(bi)
			if err != nil {
				return out
			}
			ents, err := b.Load(0)
			if err != nil {
				return out
			}
			c = &bk{b: b, hashes: map[uint64]bool{}}
			for _, e := range ents {
				c.hashes[e.Hash] = true
			}
			cache[bi] = c
		}
		if c.hashes[c.b.Hash(key)] {
			out = append(out, key)
		}
	}
	return out
}

// TestVerifC03: absent keys - skipped slots, slots of unloaded epochs, random and aliasing signatures / slots
func TestVerifC03(t *testing.T) {
	out := vt.Out(t)
	defer out.Close()
	rng := rand.New(rand.NewSource(vt.Seed() + 77))
	for ci, raw := range vt.Cases(t) {
		var a aArch
		if err := json.Unmarshal(raw, &a); err != nil {
			t.Fatal(err)
		}
		w, e := rpcBuildWorld(t, a.Arch, vt.Seed()*1000+int64(ci))
		if e != "" {
			t.Fatalf("case %d: cannot build the archive: %s", ci+1, e)
		}
		// absent signatures: random ones and, per epoch, ones aliasing a stored signature in the sig->cid index
		type absSig struct {
			sig   solana.Signature
			alias bool
		}
		var absent []absSig
		for k := 0; k < 6; k++ {
			var s solana.Signature
			rng.Read(s[:])
			absent = append(absent, absSig{s, false})
		}
		storedSig := map[string]bool{}
		for s := range w.sigID {
			storedSig[string(s[:])] = true
		}
		aliasBudget := 6_000_000
		for _, l := range w.eps {
			r2 := rand.New(rand.NewSource(rng.Int63()))
			for _, k := range rpcAliases(l.paths.SignatureToCid, storedSig, func(i int) []byte { b := make([]byte, 64); r2.Read(b); return b }, aliasBudget, 2) {
				var s solana.Signature
				copy(s[:], k)
				absent = append(absent, absSig{s, true})
			}
		}
		// absent slots: every skipped slot between the first and last block of each epoch (+ neighbours), plus
		// aliasing slots found with the slot->cid index's own hash over the whole epoch
		type absSlot struct {
			slot  uint64
			alias bool
		}
		var absentSlots []absSlot
		for _, l := range w.eps {
			has := map[uint64]bool{}
			storedSlot := map[string]bool{}
			for _, bt := range l.built.Blocks {
				has[bt.Spec.Slot] = true
				var k [8]byte
				for i := 0; i < 8; i++ {
					k[i] = byte(bt.Spec.Slot >> (8 * i))
				}
				storedSlot[string(k[:])] = true
			}
			first, last := l.built.Blocks[0].Spec.Slot, l.built.Blocks[len(l.built.Blocks)-1].Spec.Slot
			base := l.built.Spec.Epoch * 432000
			for s := base; s <= last+3 && s < base+432000; s++ {
				if !has[s] && (s+3 >= first) {
					absentSlots = append(absentSlots, absSlot{s, false})
				}
			}
			absentSlots = append(absentSlots, absSlot{base + 431999, false})
			for _, k := range rpcAliases(l.paths.SlotToCid, storedSlot, func(i int) []byte {
				if i >= 432000 {
					return nil
				}
				s := base + uint64(i)
				var k [8]byte
				for j := 0; j < 8; j++ {
					k[j] = byte(s >> (8 * j))
				}
				return k[:]
			}, 432001, 3) {
				var s uint64
				for j := 0; j < 8; j++ {
					s |= uint64(k[j]) << (8 * j)
				}
				absentSlots = append(absentSlots, absSlot{s, true})
			}
		}
		// absent CIDs per epoch: random ones and ones aliasing a stored CID in the cid-to-offset-and-size index
		type absCid struct {
			c     cid.Cid
			alias bool
		}
		absentCids := map[int][]absCid{}
		for i, l := range w.eps {
			storedCid := map[string]bool{}
			for _, sec := range l.built.Sections {
				storedCid[string(sec.Cid.Bytes())] = true
			}
			r2 := rand.New(rand.NewSource(rng.Int63()))
			mk := func() []byte {
				b := make([]byte, 36)
				copy(b, l.built.Sections[0].Cid.Bytes()[:4]) // cidv1 dag-cbor sha2-256 prefix
				r2.Read(b[4:])
				return b
			}
			for k := 0; k < 2; k++ {
				if _, c, err := cid.CidFromBytes(mk()); err == nil {
					absentCids[i] = append(absentCids[i], absCid{c, false})
				}
			}
			for _, kb := range rpcAliases(l.paths.CidToOffsetAndSize, storedCid, func(int) []byte { return mk() }, 3_000_000, 2) {
				if _, c, err := cid.CidFromBytes(kb); err == nil {
					absentCids[i] = append(absentCids[i], absCid{c, true})
				}
			}
		}
		// slots of epochs that are not in the archive at all
		absentSlots = append(absentSlots, absSlot{900*432000 + 5, false})
		// partially cached blocks: a fresh cache holds every third object of the archive (under its CID), then each block is
		// requested (the handlers prefetch the block's CAR span and cache its nodes), then EVERY object is fetched by CID:
		// whatever the cache holds under a CID must be that object's bytes
		{
			o := rpcObs{Kind: "rpc", Case: ci + 1, Arch: a.Arch, Loaded: []uint64{}, Conc: 1}
			for i, l := range w.eps {
				ep := *l.epoch
				ep.allCache = vCache(t)
				m := NewMultiEpoch(&Options{EpochSearchConcurrency: 1})
				m.AddEpoch(ep.Epoch(), &ep)
				o.Loaded = append(o.Loaded, ep.Epoch())
				secs := l.built.Sections
				for k := 0; k < len(secs); k += 3 {
					// (what an earlier, partly evicted prefetch leaves behind: the object's own bytes under its CID)
					ep.GetCache().PutRawCarObject(secs[k].Cid, secs[k].Data)
				}
				for bi, bt := range l.built.Blocks {
					if bi%2 == 0 {
						vt.Guard(func() {
							m.GetBlock(context.Background(), &old_faithful_grpc.BlockRequest{Slot: bt.Spec.Slot})
						})
					} else {
						vCall(newMultiEpochHandler(m, nil), fmt.Sprintf(`{"jsonrpc":"2.0","id":1,"method":"getBlock","params":[%d,{"encoding":"base64","maxSupportedTransactionVersion":0}]}`, bt.Spec.Slot))
					}
				}
				for k, sec := range secs {
					call := rpcCall{Op: "getNode", Proto: "epoch", Slot: int64(ep.Epoch()), Sig: k, Sigs: []int{}}
					var got []byte
					var err error
					if p := vt.Guard(func() { got, err = ep.GetNodeByCid(context.Background(), sec.Cid) }); p != "" {
						call.Status, call.Detail = "panic", p
					} else if err != nil {
						call.Status, call.Detail = "notfound", "after a getBlock on a partially cached block: "+err.Error()
					} else {
						call.Status, call.Txsame = "ok", bytes.Equal(got, sec.Data)
						if !call.Txsame {
							call.Detail = "after a getBlock on a partially cached block the cache holds other bytes under this CID"
						}
					}
					if call.Status != "ok" || !call.Txsame || k%7 == 0 {
						o.Calls = append(o.Calls, call)
					}
				}
				_ = i
			}
			out.Emit(o)
		}
		subs := rpcSubsets(len(a.Arch))
		sort.Slice(subs, func(i, j int) bool { return len(subs[i]) < len(subs[j]) })
		for si, sub := range subs {
			conc := []int{-1, 1, 2}[(ci+si)%3]
			multi, nums := w.multi(sub, conc)
			handler := newMultiEpochHandler(multi, nil)
			h := func(body string) (int, string, any) { return vCall(handler, body) }
			o := rpcObs{Kind: "rpc", Case: ci + 1, Arch: a.Arch, Loaded: nums, Conc: conc}
			for phase := 0; phase < 2; phase++ {
				if phase == 1 {
					// warm every cache with the stored objects of the loaded epochs, then ask for the absent keys again
					for _, i := range sub {
						o.Calls = append(o.Calls, w.getNodesRetained(i)...)
						for _, bt := range w.eps[i].built.Blocks {
							w.jsonGetBlock(h, bt.Spec.Slot, "base64")
							w.grpcGetBlock(multi, bt.Spec.Slot)
							for _, tt := range bt.Txs {
								w.grpcGetTransaction(multi, tt.Sig, tt.Spec.SigID)
							}
						}
					}
				}
				for _, i := range sub {
					for _, ac := range absentCids[i] {
						o.Calls = append(o.Calls, w.getNode(i, ac.c, -1, ac.alias))
					}
				}
				for k, as := range absentSlots {
					c1 := w.jsonGetBlock(h, as.slot, rpcEncodings[k%4])
					c2 := w.grpcGetBlock(multi, as.slot)
					c3 := w.blockTime(h, multi, as.slot, []string{"json", "grpc"}[k%2])
					c1.Alias, c2.Alias, c3.Alias = as.alias, as.alias, as.alias
					o.Calls = append(o.Calls, c1, c2, c3)
				}
				// archived slots / signatures of epochs that are NOT loaded are absent keys as well
				for i, l := range w.eps {
					isLoaded := false
					for _, j := range sub {
						isLoaded = isLoaded || i == j
					}
					if isLoaded {
						continue
					}
					for _, bt := range l.built.Blocks {
						o.Calls = append(o.Calls, w.jsonGetBlock(h, bt.Spec.Slot, "base64"), w.grpcGetBlock(multi, bt.Spec.Slot))
						for _, tt := range bt.Txs {
							o.Calls = append(o.Calls, w.jsonGetTransaction(h, tt.Sig, tt.Spec.SigID, "base64"), w.grpcGetTransaction(multi, tt.Sig, tt.Spec.SigID))
						}
					}
				}
				for k, as := range absent {
					id := 1_000_000 + k
					c1 := w.jsonGetTransaction(h, as.sig, id, rpcEncodings[k%4])
					c2 := w.grpcGetTransaction(multi, as.sig, id)
					c1.Alias, c2.Alias = as.alias, as.alias
					o.Calls = append(o.Calls, c1, c2)
				}
			}
			// concurrent phase: an aliasing absent key is requested WHILE the stored key it aliases is being served (both
			// resolve to the same index entry / CID / CAR location, so anything that shares work between concurrent requests
			// by location sees them as one). The first answer that is not a clean "not found" is kept, else the last one.
			race := func(stored func(), absentCall func() rpcCall) rpcCall {
				stop := make(chan struct{})
				var wg sync.WaitGroup
				for g := 0; g < 3; g++ {
					wg.Add(1)
					go func() {
						defer wg.Done()
						for {
							select {
							case <-stop:
								return
							default:
								stored()
							}
						}
					}()
				}
				var keep rpcCall
				deadline := time.Now().Add(120 * time.Millisecond)
				for time.Now().Before(deadline) {
					keep = absentCall()
					if keep.Status == "ok" || keep.Status == "panic" {
						break
					}
				}
				close(stop)
				wg.Wait()
				return keep
			}
			for k, as := range absent {
				if !as.alias {
					continue
				}
				// the stored transaction the absent signature aliases, in a loaded epoch
				for _, i := range sub {
					idx, err := OpenIndex_SigToCid(w.eps[i].paths.SignatureToCid)
					if err != nil {
						continue
					}
					got, err := idx.Get(as.sig)
					idx.Close()
					if err != nil {
						continue
					}
					for _, tt := range w.eps[i].built.TxBySig {
						if tt.Cid.Equals(got) {
							st := tt
							c := race(func() { w.grpcGetTransaction(multi, st.Sig, st.Spec.SigID) },
								func() rpcCall { return w.grpcGetTransaction(multi, as.sig, 1_000_000+k) })
							c.Alias = true
							c.Detail = "concurrent with the aliased stored signature; " + c.Detail
							o.Calls = append(o.Calls, c)
						}
					}
				}
			}
			for _, as := range absentSlots {
				if !as.alias {
					continue
				}
				for _, i := range sub {
					idx, err := OpenIndex_SlotToCid(w.eps[i].paths.SlotToCid)
					if err != nil {
						continue
					}
					got, err := idx.Get(as.slot)
					idx.Close()
					if err != nil {
						continue
					}
					for _, bt := range w.eps[i].built.Blocks {
						if bt.Cid.Equals(got) {
							st := bt
							c := race(func() { w.grpcGetBlock(multi, st.Spec.Slot) }, func() rpcCall { return w.grpcGetBlock(multi, as.slot) })
							c.Alias = true
							c.Detail = "concurrent with the aliased stored slot; " + c.Detail
							o.Calls = append(o.Calls, c)
						}
					}
				}
			}
			out.Emit(o)
		}
		w.close()
	}
}
