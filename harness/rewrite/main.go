// Command rewrite produces an instrumented copy of one Go source file (scratch prototype).
//
//	rewrite -in /repo/gsfa/gsfa-write.go -out copy.go -rules rules.json
//
// Rules (JSON array):
//
//	{"kind":"const","name":"itemsPerBatch","new":"2"}
//	{"kind":"literal","func":"Push","old":"100_000","new":"1"}          basic literal inside a function
//	{"kind":"binary","func":"fullBufferWriter","old":"1 * time.Second","new":"20 * time.Millisecond"}
//	{"kind":"fieldtype","struct":"MultiEpoch","field":"mu","new":"verifRWMutex","keepImport":"sync"}
//
// The tool prints one line per rule with the number of sites changed and exits 0 even when a rule
// matched nothing (the caller decides what a miss means).
package main

import (
	"bytes"
	"encoding/json"
	"flag"
	"fmt"
	"go/ast"
	"go/format"
	"go/parser"
	"go/printer"
	"go/token"
	"os"
	"strings"
)

type rule struct {
	Kind       string `json:"kind"`
	Name       string `json:"name"`
	Func       string `json:"func"`
	Old        string `json:"old"`
	New        string `json:"new"`
	Struct     string `json:"struct"`
	Field      string `json:"field"`
	KeepImport string `json:"keepImport"`
	hits       int
}

func exprString(fset *token.FileSet, e ast.Expr) string {
	var b bytes.Buffer
	printer.Fprint(&b, fset, e)
	return b.String()
}

func norm(s string) string { return strings.ReplaceAll(strings.ReplaceAll(s, "_", ""), " ", "") }

func main() {
	in := flag.String("in", "", "input file")
	out := flag.String("out", "", "output file")
	rulesPath := flag.String("rules", "", "rules json")
	flag.Parse()
	rb, err := os.ReadFile(*rulesPath)
	if err != nil {
		fmt.Fprintln(os.Stderr, err)
		os.Exit(2)
	}
	var rules []*rule
	if err := json.Unmarshal(rb, &rules); err != nil {
		fmt.Fprintln(os.Stderr, err)
		os.Exit(2)
	}
	fset := token.NewFileSet()
	file, err := parser.ParseFile(fset, *in, nil, parser.ParseComments)
	if err != nil {
		fmt.Fprintln(os.Stderr, err)
		os.Exit(2)
	}
	var extra []string
	for _, r := range rules {
		switch r.Kind {
		case "const":
			ast.Inspect(file, func(n ast.Node) bool {
				vs, ok := n.(*ast.ValueSpec)
				if !ok {
					return true
				}
				for i, nm := range vs.Names {
					if nm.Name == r.Name && i < len(vs.Values) {
						vs.Values[i] = &ast.BasicLit{Kind: token.INT, Value: r.New}
						r.hits++
					}
				}
				return true
			})
		case "literal", "binary":
			for _, d := range file.Decls {
				fd, ok := d.(*ast.FuncDecl)
				if !ok || fd.Name.Name != r.Func || fd.Body == nil {
					continue
				}
				replace := func(e ast.Expr) ast.Expr {
					switch x := e.(type) {
					case *ast.BasicLit:
						if r.Kind == "literal" && norm(x.Value) == norm(r.Old) {
							r.hits++
							return &ast.BasicLit{Kind: x.Kind, Value: r.New, ValuePos: x.ValuePos}
						}
					case *ast.BinaryExpr:
						if r.Kind == "binary" && norm(exprString(fset, x)) == norm(r.Old) {
							ne, err := parser.ParseExpr(r.New)
							if err == nil {
								r.hits++
								return ne
							}
						}
					}
					return e
				}
				rewriteExprs(fd.Body, replace)
			}
		case "fieldtype":
			ast.Inspect(file, func(n ast.Node) bool {
				ts, ok := n.(*ast.TypeSpec)
				if !ok || ts.Name.Name != r.Struct {
					return true
				}
				st, ok := ts.Type.(*ast.StructType)
				if !ok {
					return true
				}
				for _, f := range st.Fields.List {
					for _, nm := range f.Names {
						if nm.Name == r.Field {
							f.Type = ast.NewIdent(r.New)
							r.hits++
						}
					}
				}
				return true
			})
			if r.hits > 0 && r.KeepImport != "" {
				extra = append(extra, fmt.Sprintf("\nvar _ %s.Locker // keeps the import used after the retype\n", r.KeepImport))
			}
		default:
			fmt.Fprintf(os.Stderr, "unknown rule kind %q\n", r.Kind)
			os.Exit(2)
		}
		fmt.Printf("rule %s %s%s%s -> %s: %d site(s)\n", r.Kind, r.Func, r.Name, r.Struct, r.New, r.hits)
	}
	var buf bytes.Buffer
	if err := format.Node(&buf, fset, file); err != nil {
		fmt.Fprintln(os.Stderr, err)
		os.Exit(2)
	}
	for _, e := range extra {
		buf.WriteString(e)
	}
	if err := os.WriteFile(*out, buf.Bytes(), 0o644); err != nil {
		fmt.Fprintln(os.Stderr, err)
		os.Exit(2)
	}
}

// rewriteExprs applies f to every expression slot reachable from n (the subset of slots needed here).
func rewriteExprs(n ast.Node, f func(ast.Expr) ast.Expr) {
	ast.Inspect(n, func(x ast.Node) bool {
		switch v := x.(type) {
		case *ast.CallExpr:
			for i := range v.Args {
				v.Args[i] = f(v.Args[i])
			}
		case *ast.BinaryExpr:
			v.X, v.Y = f(v.X), f(v.Y)
		case *ast.AssignStmt:
			for i := range v.Rhs {
				v.Rhs[i] = f(v.Rhs[i])
			}
		case *ast.ValueSpec:
			for i := range v.Values {
				v.Values[i] = f(v.Values[i])
			}
		case *ast.KeyValueExpr:
			v.Value = f(v.Value)
		case *ast.ReturnStmt:
			for i := range v.Results {
				v.Results[i] = f(v.Results[i])
			}
		}
		return true
	})
}
