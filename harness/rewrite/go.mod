module verifrewrite

go 1.21
