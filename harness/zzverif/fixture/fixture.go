// Package fixture builds synthetic Old Faithful epoch CARs from an abstract description and
// returns the ground truth (true offsets, section lengths, CIDs, payload bytes).
// Encoding is done with the schema-driven reference encoder (bindnode + dag-cbor) and go-car
// framing, i.e. independently of the hand-written fast codec under test.
package fixture

import (
	"bytes"
	"crypto/sha256"
	"encoding/binary"
	"fmt"
	"hash/crc64"
	"os"

	"github.com/gagliardetto/solana-go"
	"github.com/ipfs/go-cid"
	carv1 "github.com/ipld/go-car"
	"github.com/ipld/go-car/util"
	"github.com/ipld/go-ipld-prime/codec/dagcbor"
	"github.com/ipld/go-ipld-prime/datamodel"
	cidlink "github.com/ipld/go-ipld-prime/linking/cid"
	"github.com/ipld/go-ipld-prime/node/bindnode"
	"github.com/multiformats/go-multicodec"
	"github.com/rpcpool/yellowstone-faithful/ipld/ipldbindcode"
	"github.com/rpcpool/yellowstone-faithful/third_party/solana_proto/confirmed_block"
	"github.com/rpcpool/yellowstone-faithful/tooling"
	"google.golang.org/protobuf/proto"
)

var DummyCID = cid.MustParse("bafkqaaa")

type TxSpec struct {
	SigID      int   `json:"sig"`
	Accounts   []int `json:"accts"`  // static account ids; first is the fee payer
	Loaded     []int `json:"loaded"` // address-table loaded accounts (recorded in metadata)
	Vote       bool  `json:"vote"`
	Failed     bool  `json:"failed"`
	NoMeta     bool  `json:"nometa"`
	DataFrames int   `json:"dframes"`   // >=1
	MetaFrames int   `json:"mframes"`   // >=1 (ignored when NoMeta)
	Pad        int   `json:"pad"`       // extra instruction-data bytes
	MetaPad    int   `json:"mpad"`      // extra incompressible log bytes in metadata
	V0         bool  `json:"v0"`        // versioned (v0) message without address-table lookups
	Lookups    bool  `json:"lookups"`   // versioned (v0) message with one address-table lookup (the loaded addresses are in the metadata)
	SigPrefix  int   `json:"sigprefix"` // when > 0: force the first two signature bytes to uint16(SigPrefix-1), little endian
}

type EntrySpec struct {
	Txs []TxSpec `json:"txs"`
}

type BlockSpec struct {
	Slot          uint64      `json:"slot"`
	Parent        uint64      `json:"parent"`
	Blocktime     int64       `json:"blocktime"`
	Height        *uint64     `json:"height"`
	Entries       []EntrySpec `json:"entries"`
	RewardsFrames int         `json:"rframes"` // 0 = no rewards (dummy CID)
	// DropRewardsFrame > 0: that continuation frame of the rewards payload is linked but NOT written into the CAR (fault)
	DropRewardsFrame int `json:"droprframe"`
}

// RewardTruth is one entry of a block's rewards list (protobuf confirmed_block.Rewards)
type RewardTruth struct {
	Pubkey      string
	Lamports    int64
	PostBalance uint64
	RewardType  int
}

type EpochSpec struct {
	Epoch   uint64      `json:"epoch"`
	Seed    int64       `json:"seed"`
	Fanout  int         `json:"fanout"` // next-link fan-out of multi-frame payloads (default 5)
	Blocks  []BlockSpec `json:"blocks"`
	Trailer bool        `json:"trailer"` // write Subset + Epoch nodes (needed by `index all`)
	// LongHeader: the Epoch node (the CAR's root) is addressed by an identity-multihash CID, which makes the CAR header
	// longer than 127 bytes (its length prefix becomes a two-byte varint)
	LongHeader bool `json:"longheader"`
}

type Section struct {
	Cid    cid.Cid
	Kind   int
	Offset uint64 // absolute offset of the section (varint) in the CAR file
	Length uint64 // varint + cid + data
	Data   []byte // node bytes
}

type TxTruth struct {
	Spec         TxSpec
	Sig          solana.Signature
	Cid          cid.Cid
	Slot         uint64
	Position     int
	TxBytes      []byte // serialized solana transaction
	Meta         []byte // uncompressed metadata (nil when NoMeta)
	Accounts     []solana.PublicKey
	Loaded       []solana.PublicKey
	Section      int     // index into Sections
	TokenUi      float64 // pre token balance uiAmount recorded in the metadata (0 = none)
	ComputeUnits uint64
}

type BlockTruth struct {
	Spec        BlockSpec
	Cid         cid.Cid
	EntryHashes [][]byte
	Txs         []*TxTruth
	Rewards     []byte // uncompressed rewards payload (protobuf confirmed_block.Rewards)
	RewardList  []RewardTruth
	Section     int
}

type Built struct {
	Spec       EpochSpec
	CarPath    string
	Root       cid.Cid
	HeaderSize uint64
	Sections   []Section
	Blocks     []*BlockTruth
	TxBySig    map[solana.Signature]*TxTruth
	FileSize   uint64
}

func det(seed int64, tag string, id int, n int) []byte {
	out := make([]byte, 0, n)
	ctr := uint32(0)
	for len(out) < n {
		h := sha256.New()
		var b [20]byte
		binary.LittleEndian.PutUint64(b[:8], uint64(seed))
		binary.LittleEndian.PutUint64(b[8:16], uint64(id))
		binary.LittleEndian.PutUint32(b[16:], ctr)
		h.Write([]byte(tag))
		h.Write(b[:])
		out = append(out, h.Sum(nil)...)
		ctr++
	}
	return out[:n]
}

// Account returns the deterministic public key of an abstract account id.
func Account(seed int64, id int) solana.PublicKey {
	var pk solana.PublicKey
	copy(pk[:], det(seed, "acct", id, 32))
	return pk
}

// Sig returns the deterministic signature of an abstract signature id.
func Sig(seed int64, id int) solana.Signature {
	var s solana.Signature
	copy(s[:], det(seed, "sig", id, 64))
	return s
}

func pp(i int) **int { p := &i; return &p }

type builder struct {
	spec   EpochSpec
	buf    bytes.Buffer
	out    *Built
	offset uint64
	wide   bool // next put: sha2-512 CID
	// dropFrame > 0: frames() computes the CID of that continuation frame but does not write it (a frame missing from the CAR)
	dropFrame int
}

func encode(v any) []byte {
	var n datamodel.Node
	switch x := v.(type) {
	case *ipldbindcode.Epoch:
		n = bindnode.Wrap(x, ipldbindcode.Prototypes.Epoch.Type()).Representation()
	case *ipldbindcode.Subset:
		n = bindnode.Wrap(x, ipldbindcode.Prototypes.Subset.Type()).Representation()
	case *ipldbindcode.Block:
		n = bindnode.Wrap(x, ipldbindcode.Prototypes.Block.Type()).Representation()
	case *ipldbindcode.Entry:
		n = bindnode.Wrap(x, ipldbindcode.Prototypes.Entry.Type()).Representation()
	case *ipldbindcode.Transaction:
		n = bindnode.Wrap(x, ipldbindcode.Prototypes.Transaction.Type()).Representation()
	case *ipldbindcode.Rewards:
		n = bindnode.Wrap(x, ipldbindcode.Prototypes.Rewards.Type()).Representation()
	case *ipldbindcode.DataFrame:
		n = bindnode.Wrap(x, ipldbindcode.Prototypes.DataFrame.Type()).Representation()
	default:
		panic(fmt.Sprintf("unknown node type %T", v))
	}
	var buf bytes.Buffer
	if err := dagcbor.Encode(n, &buf); err != nil {
		panic(err)
	}
	return buf.Bytes()
}

func cidOf(data []byte) cid.Cid {
	bd := cid.V1Builder{MhLength: -1, MhType: uint64(multicodec.Sha2_256), Codec: uint64(multicodec.DagCbor)}
	c, err := bd.Sum(data)
	if err != nil {
		panic(err)
	}
	return c
}

func (b *builder) put(kind int, v any) (cid.Cid, int) {
	data := encode(v)
	c := cidOf(data)
	if b.wide {
		var err error
		if c, err = (cid.V1Builder{MhLength: -1, MhType: uint64(multicodec.Sha2_512), Codec: uint64(multicodec.DagCbor)}).Sum(data); err != nil {
			panic(err)
		}
	}
	if kind == 4 && b.spec.LongHeader {
		var err error
		if c, err = (cid.V1Builder{MhLength: -1, MhType: uint64(multicodec.Identity), Codec: uint64(multicodec.DagCbor)}).Sum(data); err != nil {
			panic(err)
		}
	}
	before := b.buf.Len()
	if err := util.LdWrite(&b.buf, c.Bytes(), data); err != nil {
		panic(err)
	}
	ln := uint64(b.buf.Len() - before)
	b.out.Sections = append(b.out.Sections, Section{Cid: c, Kind: kind, Offset: b.offset, Length: ln, Data: data})
	b.offset += ln
	return c, len(b.out.Sections) - 1
}

// frames splits payload into n frames laid out as in the ledger schema comment and returns the
// first frame (to be embedded in the parent node); the other frames are written to the CAR.
func (b *builder) frames(payload []byte, n int) ipldbindcode.DataFrame {
	if n < 1 {
		n = 1
	}
	fan := b.spec.Fanout
	if fan <= 0 {
		fan = 5
	}
	hash := int(crc64.Checksum(payload, crc64.MakeTable(crc64.ISO)))
	chunks := make([][]byte, n)
	sz := (len(payload) + n - 1) / n
	for i := 0; i < n; i++ {
		lo, hi := i*sz, (i+1)*sz
		if lo > len(payload) {
			lo = len(payload)
		}
		if hi > len(payload) {
			hi = len(payload)
		}
		chunks[i] = payload[lo:hi]
	}
	// build from the last frame backwards: frame i (i%fan==0) links to frames i+1..i+fan
	cids := make([]cid.Cid, n)
	var first ipldbindcode.DataFrame
	for i := n - 1; i >= 0; i-- {
		next := ipldbindcode.List__Link{}
		if i%fan == 0 {
			for j := i + 1; j <= i+fan && j < n; j++ {
				next = append(next, cidlink.Link{Cid: cids[j]})
			}
		}
		np := &next
		fr := ipldbindcode.DataFrame{Kind: 6, Hash: pp(hash), Index: pp(i), Total: pp(n), Data: chunks[i], Next: &np}
		if i == 0 {
			first = fr
		} else if i == b.dropFrame {
			cids[i] = cidOf(encode(&fr))
		} else {
			cids[i], _ = b.put(6, &fr)
		}
	}
	return first
}

// Build writes the CAR to path.
func Build(spec EpochSpec, path string) (*Built, error) {
	return build(spec, path, 0)
}

func headerLen(root cid.Cid) (uint64, error) {
	var hb bytes.Buffer
	if err := carv1.WriteHeader(&carv1.CarHeader{Roots: []cid.Cid{root}, Version: 1}, &hb); err != nil {
		return 0, err
	}
	return uint64(hb.Len()), nil
}

func build(spec EpochSpec, path string, hdr uint64) (*Built, error) {
	b := &builder{spec: spec, out: &Built{Spec: spec, CarPath: path, TxBySig: map[solana.Signature]*TxTruth{}}}
	// header size is needed before writing sections: header with one root (sha256 dag-cbor cid) has a fixed size; with
	// another kind of root CID the first pass learns the root and a second pass is made with the right header size
	placeholder := cidOf([]byte("placeholder"))
	if hdr == 0 {
		var err error
		if hdr, err = headerLen(placeholder); err != nil {
			return nil, err
		}
	}
	b.out.HeaderSize = hdr
	b.offset = b.out.HeaderSize

	var blockLinks ipldbindcode.List__Link
	for _, bs := range spec.Blocks {
		bt := &BlockTruth{Spec: bs}
		var entryLinks ipldbindcode.List__Link
		pos := 0
		for ei, es := range bs.Entries {
			var txLinks ipldbindcode.List__Link
			for _, ts := range es.Txs {
				tt, err := b.tx(bs, ts, pos)
				if err != nil {
					return nil, err
				}
				bt.Txs = append(bt.Txs, tt)
				txLinks = append(txLinks, cidlink.Link{Cid: tt.Cid})
				pos++
			}
			h := det(spec.Seed, "entryhash", int(bs.Slot)*1000+ei, 32)
			bt.EntryHashes = append(bt.EntryHashes, h)
			ec, _ := b.put(1, &ipldbindcode.Entry{Kind: 1, NumHashes: 12500, Hash: h, Transactions: txLinks})
			entryLinks = append(entryLinks, cidlink.Link{Cid: ec})
		}
		rewardsLink := cidlink.Link{Cid: DummyCID}
		if bs.RewardsFrames > 0 {
			// a protobuf rewards list (what the server parses for the JSON answer), long enough for the wanted frame count
			var rw confirmed_block.Rewards
			for k := 0; k < 2+bs.RewardsFrames*11; k++ {
				r := RewardTruth{Pubkey: Account(spec.Seed, 100+k+int(bs.Slot%50)).String(), Lamports: int64(k*1000) + int64(bs.Slot%1000) + 1,
					PostBalance: 1_000_000_000 + uint64(k)*7 + bs.Slot%97, RewardType: 1 + k%4}
				bt.RewardList = append(bt.RewardList, r)
				rw.Rewards = append(rw.Rewards, &confirmed_block.Reward{Pubkey: r.Pubkey, Lamports: r.Lamports, PostBalance: r.PostBalance, RewardType: confirmed_block.RewardType(r.RewardType)})
			}
			raw, err := proto.Marshal(&rw)
			if err != nil {
				return nil, err
			}
			bt.Rewards = raw
			z, err := tooling.CompressZstd(raw)
			if err != nil {
				return nil, err
			}
			b.dropFrame = bs.DropRewardsFrame
			first := b.frames(z, bs.RewardsFrames)
			b.dropFrame = 0
			rc, _ := b.put(5, &ipldbindcode.Rewards{Kind: 5, Slot: int(bs.Slot), Data: first})
			rewardsLink = cidlink.Link{Cid: rc}
		}
		meta := ipldbindcode.SlotMeta{Parent_slot: int(bs.Parent), Blocktime: int(bs.Blocktime)}
		if bs.Height != nil {
			meta.Block_height = pp(int(*bs.Height))
		}
		if entryLinks == nil {
			entryLinks = ipldbindcode.List__Link{}
		}
		bc, si := b.put(2, &ipldbindcode.Block{Kind: 2, Slot: int(bs.Slot),
			Shredding: ipldbindcode.List__Shredding{{EntryEndIdx: 0, ShredEndIdx: 0}},
			Entries:   entryLinks, Meta: meta, Rewards: rewardsLink})
		bt.Cid, bt.Section = bc, si
		b.out.Blocks = append(b.out.Blocks, bt)
		blockLinks = append(blockLinks, cidlink.Link{Cid: bc})
	}
	root := placeholder
	if spec.Trailer {
		first, last := 0, 0
		if len(spec.Blocks) > 0 {
			first, last = int(spec.Blocks[0].Slot), int(spec.Blocks[len(spec.Blocks)-1].Slot)
		}
		if blockLinks == nil {
			blockLinks = ipldbindcode.List__Link{}
		}
		sc, _ := b.put(3, &ipldbindcode.Subset{Kind: 3, First: first, Last: last, Blocks: blockLinks})
		subsets := ipldbindcode.List__Link{cidlink.Link{Cid: sc}}
		if spec.LongHeader {
			// one further (empty) subset addressed by a sha2-512 CID: the Epoch node, and with it the identity CID and the
			// header, grows past 127 bytes (while the index file names, which embed the root CID, stay below 255 characters)
			b.wide = true
			ec, _ := b.put(3, &ipldbindcode.Subset{Kind: 3, First: last + 1, Last: last + 1, Blocks: ipldbindcode.List__Link{}})
			b.wide = false
			subsets = append(subsets, cidlink.Link{Cid: ec})
		}
		root, _ = b.put(4, &ipldbindcode.Epoch{Kind: 4, Epoch: int(spec.Epoch), Subsets: subsets})
	}
	b.out.Root = root
	if actual, err := headerLen(root); err != nil {
		return nil, err
	} else if actual != b.out.HeaderSize {
		return build(spec, path, actual)
	}
	f, err := os.Create(path)
	if err != nil {
		return nil, err
	}
	defer f.Close()
	if err := carv1.WriteHeader(&carv1.CarHeader{Roots: []cid.Cid{root}, Version: 1}, f); err != nil {
		return nil, err
	}
	if _, err := f.Write(b.buf.Bytes()); err != nil {
		return nil, err
	}
	b.out.FileSize = b.out.HeaderSize + uint64(b.buf.Len())
	return b.out, nil
}

func (b *builder) tx(bs BlockSpec, ts TxSpec, pos int) (*TxTruth, error) {
	seed := b.spec.Seed
	if len(ts.Accounts) == 0 {
		ts.Accounts = []int{0}
	}
	keys := make([]solana.PublicKey, 0, len(ts.Accounts)+1)
	for _, a := range ts.Accounts {
		keys = append(keys, Account(seed, a))
	}
	prog := solana.SystemProgramID
	if ts.Vote {
		prog = solana.VoteProgramID
	}
	keys = append(keys, prog)
	idx := make([]uint16, 0, len(ts.Accounts))
	for i := range ts.Accounts {
		idx = append(idx, uint16(i))
	}
	data := append([]byte{2, 0, 0, 0}, det(seed, "ixdata", ts.SigID, 8+ts.Pad)...)
	sig0 := Sig(seed, ts.SigID)
	if ts.SigPrefix > 0 {
		sig0[0], sig0[1] = byte(ts.SigPrefix-1), byte((ts.SigPrefix-1)>>8)
	}
	tx := &solana.Transaction{
		Signatures: []solana.Signature{sig0},
		Message: solana.Message{
			AccountKeys:     keys,
			Header:          solana.MessageHeader{NumRequiredSignatures: 1, NumReadonlySignedAccounts: 0, NumReadonlyUnsignedAccounts: 1},
			RecentBlockhash: solana.HashFromBytes(det(seed, "bh", int(bs.Slot), 32)),
			Instructions:    []solana.CompiledInstruction{{ProgramIDIndex: uint16(len(keys) - 1), Accounts: idx, Data: data}},
		},
	}
	if ts.V0 || ts.Lookups {
		tx.Message.SetVersion(solana.MessageVersionV0)
	}
	if ts.Lookups {
		tx.Message.AddressTableLookups = []solana.MessageAddressTableLookup{{AccountKey: Account(seed, 7000+ts.SigID%3), WritableIndexes: []uint8{0}, ReadonlyIndexes: []uint8{}}}
		if len(ts.Loaded) == 0 {
			ts.Loaded = []int{7100 + ts.SigID%5}
		}
	}
	txb, err := tx.MarshalBinary()
	if err != nil {
		return nil, fmt.Errorf("marshal tx: %w", err)
	}
	tt := &TxTruth{Spec: ts, Sig: tx.Signatures[0], Slot: bs.Slot, Position: pos, TxBytes: txb, Accounts: keys}
	var metaFrame ipldbindcode.DataFrame
	if ts.NoMeta {
		metaFrame = b.frames(nil, 1)
	} else {
		m := &confirmed_block.TransactionStatusMeta{Fee: 5000, PreBalances: []uint64{10, 20}, PostBalances: []uint64{5, 25}}
		if ts.Failed {
			m.Err = &confirmed_block.TransactionError{Err: []byte{1, 0, 0, 0, 0}}
		}
		for _, a := range ts.Loaded {
			pk := Account(seed, a)
			tt.Loaded = append(tt.Loaded, pk)
			m.LoadedWritableAddresses = append(m.LoadedWritableAddresses, pk[:])
		}
		// numeric payload that must survive every encoding digit for digit: token balances with 9 decimals, compute units
		if ts.SigID%2 == 0 {
			ui := 0.123456789 + float64(ts.SigID%5)
			tt.TokenUi, tt.ComputeUnits = ui, 1234567+uint64(ts.SigID)
			tb := func(amount float64) *confirmed_block.TokenBalance {
				return &confirmed_block.TokenBalance{AccountIndex: 0, Mint: Account(seed, 500).String(), Owner: Account(seed, 501).String(), ProgramId: solana.TokenProgramID.String(),
					UiTokenAmount: &confirmed_block.UiTokenAmount{UiAmount: amount, Decimals: 9, Amount: fmt.Sprintf("%d", int64(amount*1e9)), UiAmountString: fmt.Sprintf("%.9f", amount)}}
			}
			m.PreTokenBalances = []*confirmed_block.TokenBalance{tb(ui)}
			m.PostTokenBalances = []*confirmed_block.TokenBalance{tb(ui + 1e-9)}
			cu := tt.ComputeUnits
			m.ComputeUnitsConsumed = &cu
		}
		// every metadata payload is unique (a well-formed CAR has distinct CIDs, also for continuation frames)
		m.LogMessages = []string{fmt.Sprintf("tx %d/%d", seed, ts.SigID)}
		if ts.MetaPad > 0 {
			m.LogMessages = append(m.LogMessages, fmt.Sprintf("%x", det(seed, "log", ts.SigID, ts.MetaPad)))
		}
		mb, err := proto.Marshal(m)
		if err != nil {
			return nil, err
		}
		tt.Meta = mb
		mz, err := tooling.CompressZstd(mb)
		if err != nil {
			return nil, err
		}
		metaFrame = b.frames(mz, ts.MetaFrames)
	}
	dataFrame := b.frames(txb, ts.DataFrames)
	c, si := b.put(0, &ipldbindcode.Transaction{Kind: 0, Data: dataFrame, Metadata: metaFrame, Slot: int(bs.Slot), Index: pp(pos)})
	tt.Cid, tt.Section = c, si
	b.out.TxBySig[tt.Sig] = tt
	return tt, nil
}
