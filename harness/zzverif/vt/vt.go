// Package vt is the tiny runtime shared by the injected replayers: case input, observation output,
// seeded randomness, panic capture. It is injected into the repository with `go test -overlay`.
package vt

import (
	"bufio"
	"encoding/json"
	"fmt"
	"math/rand"
	"os"
	"regexp"
	"runtime/debug"
	"strconv"
	"strings"
	"sync"
	"testing"
)

// Seed returns VERIF_SEED (default 1).
func Seed() int64 {
	n, err := strconv.ParseInt(os.Getenv("VERIF_SEED"), 10, 64)
	if err != nil {
		return 1
	}
	return n
}

func Rand() *rand.Rand { return rand.New(rand.NewSource(Seed())) }

func Quick() bool { return os.Getenv("VERIF_TIER") != "thorough" }

// Cases reads VERIF_CASES (ndjson) - one raw JSON document per line.
func Cases(t testing.TB) []json.RawMessage {
	p := os.Getenv("VERIF_CASES")
	if p == "" {
		t.Skip("VERIF_CASES not set")
	}
	f, err := os.Open(p)
	if err != nil {
		t.Fatalf("cases: %v", err)
	}
	defer f.Close()
	sc := bufio.NewScanner(f)
	sc.Buffer(make([]byte, 1<<20), 1<<28)
	var out []json.RawMessage
	for sc.Scan() {
		b := append([]byte{}, sc.Bytes()...)
		if len(strings.TrimSpace(string(b))) == 0 {
			continue
		}
		out = append(out, b)
	}
	if err := sc.Err(); err != nil {
		t.Fatalf("cases: %v", err)
	}
	return out
}

// Recorder writes observation records (ndjson) to VERIF_OUT.
type Recorder struct {
	mu sync.Mutex
	f  *os.File
	w  *bufio.Writer
	N  int
}

func Out(t testing.TB) *Recorder {
	p := os.Getenv("VERIF_OUT")
	if p == "" {
		t.Skip("VERIF_OUT not set")
	}
	f, err := os.OpenFile(p, os.O_CREATE|os.O_WRONLY|os.O_APPEND, 0o644)
	if err != nil {
		t.Fatalf("out: %v", err)
	}
	return &Recorder{f: f, w: bufio.NewWriterSize(f, 1<<20)}
}

func (r *Recorder) Emit(v any) {
	b, err := json.Marshal(v)
	if err != nil {
		panic(err)
	}
	r.mu.Lock()
	r.w.Write(b)
	r.w.WriteByte('\n')
	r.N++
	r.mu.Unlock()
}

func (r *Recorder) Flush() {
	r.mu.Lock()
	r.w.Flush()
	r.mu.Unlock()
}

func (r *Recorder) Close() {
	r.Flush()
	r.f.Close()
}

var reSite = regexp.MustCompile(`(?m)^\s+(/[^\s:]+\.go:\d+)`)

// PanicSite returns the first stack frame inside the repository that is not harness code.
func PanicSite(stack string) string {
	for _, x := range reSite.FindAllStringSubmatch(stack, -1) {
		s := x[1]
		if strings.Contains(s, "zz_verif") || strings.Contains(s, "/zzverif/") || strings.Contains(s, "/go/src/") || strings.Contains(s, "/usr/lib/go") || strings.Contains(s, "/pkg/mod/") || strings.Contains(s, "/harness/") {
			continue
		}
		if i := strings.Index(s, "/repo/"); i >= 0 {
			s = s[i+len("/repo/"):]
		}
		return s
	}
	return "?"
}

// Guard runs f and converts a panic into a description "panic: <value> @ <site>".
func Guard(f func()) (panicked string) {
	defer func() {
		if r := recover(); r != nil {
			msg := fmt.Sprintf("%v", r)
			if len(msg) > 160 {
				msg = msg[:160]
			}
			panicked = fmt.Sprintf("panic: %s @ %s", msg, PanicSite(string(debug.Stack())))
		}
	}()
	f()
	return ""
}

// EmitRaw writes an already serialised record.
func (r *Recorder) EmitRaw(line string) {
	r.mu.Lock()
	r.w.WriteString(line)
	r.w.WriteByte('\n')
	r.N++
	r.mu.Unlock()
}
